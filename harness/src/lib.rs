//! Shared plumbing of the correspondence harness binaries (`hx_*`).
//!
//! * [`Rng`]: one SplitMix64 stream seeded from `--seed` (= `VERIF_SEED`), so a disagreement replays exactly;
//! * [`Lean`]: a pipe to the compiled Lean model driver (one request line → one response line);
//! * [`Report`]: what the run covered + disagreements (model ≠ implementation) + spec failures
//!   (implementation output violates the property's executable predicate).  Written as JSON for `bin/check`;
//! * [`catch`]: runs a closure under `catch_unwind` – a panic is an *observation*, not a harness failure.

use std::{
    collections::{BTreeMap, HashSet},
    hash::{Hash, Hasher},
    io::{BufRead, BufReader, Write},
    process::{Child, ChildStdin, ChildStdout, Command, Stdio},
};

pub struct Rng(pub u64);
impl Rng {
    pub fn new(seed: u64) -> Self {
        Rng(seed ^ 0x9E37_79B9_7F4A_7C15)
    }
    pub fn next(&mut self) -> u64 {
        self.0 = self.0.wrapping_add(0x9E37_79B9_7F4A_7C15);
        let mut z = self.0;
        z = (z ^ (z >> 30)).wrapping_mul(0xBF58_476D_1CE4_E5B9);
        z = (z ^ (z >> 27)).wrapping_mul(0x94D0_49BB_1331_11EB);
        z ^ (z >> 31)
    }
    /// uniform in 0..n (n > 0)
    pub fn below(&mut self, n: u64) -> u64 {
        self.next() % n
    }
    pub fn range(&mut self, lo: u64, hi_incl: u64) -> u64 {
        lo + self.below(hi_incl - lo + 1)
    }
    pub fn chance(&mut self, num: u64, den: u64) -> bool {
        self.below(den) < num
    }
    pub fn pick<'a, T>(&mut self, xs: &'a [T]) -> &'a T {
        &xs[self.below(xs.len() as u64) as usize]
    }
    pub fn bytes(&mut self, n: usize) -> Vec<u8> {
        let mut v = Vec::with_capacity(n);
        while v.len() < n {
            let x = self.next().to_le_bytes();
            let k = (n - v.len()).min(8);
            v.extend_from_slice(&x[..k]);
        }
        v
    }
    pub fn shuffle<T>(&mut self, xs: &mut [T]) {
        for i in (1..xs.len()).rev() {
            let j = self.below(i as u64 + 1) as usize;
            xs.swap(i, j);
        }
    }
    pub fn fork(&mut self) -> Rng {
        Rng(self.next())
    }
}

pub fn hex(b: &[u8]) -> String {
    if b.is_empty() {
        return "-".into();
    }
    let mut s = String::with_capacity(b.len() * 2);
    for x in b {
        s.push_str(&format!("{x:02x}"));
    }
    s
}
pub fn unhex(s: &str) -> Option<Vec<u8>> {
    if s == "-" {
        return Some(vec![]);
    }
    if s.len() % 2 != 0 {
        return None;
    }
    (0..s.len() / 2).map(|i| u8::from_str_radix(&s[2 * i..2 * i + 2], 16).ok()).collect()
}

/// pipe to the Lean model driver
pub struct Lean {
    child: Option<Child>,
    stdin: Option<ChildStdin>,
    stdout: Option<BufReader<ChildStdout>>,
    pub requests: u64,
    /// false when started with driver path `none` (the model does not build): every answer is
    /// `no-driver` and [`Lean::differs`] never reports a difference – only the spec oracle runs.
    pub enabled: bool,
}
impl Lean {
    pub fn spawn(path: &str) -> Lean {
        if path == "none" || path.is_empty() {
            return Lean { child: None, stdin: None, stdout: None, requests: 0, enabled: false };
        }
        let mut child = Command::new(path)
            .stdin(Stdio::piped())
            .stdout(Stdio::piped())
            .spawn()
            .unwrap_or_else(|e| panic!("cannot start Lean driver {path}: {e}"));
        let stdin = child.stdin.take().unwrap();
        let stdout = BufReader::new(child.stdout.take().unwrap());
        Lean { child: Some(child), stdin: Some(stdin), stdout: Some(stdout), requests: 0, enabled: true }
    }
    /// true iff the model is available and its answer differs from the implementation's
    pub fn differs(&self, model: &str, imp: &str) -> bool {
        self.enabled && model != imp
    }
    pub fn ask(&mut self, req: &str) -> String {
        debug_assert!(!req.contains('\n'));
        if !self.enabled {
            return "no-driver".into();
        }
        self.requests += 1;
        let stdin = self.stdin.as_mut().unwrap();
        if stdin.write_all(req.as_bytes()).is_err() || stdin.write_all(b"\n").is_err() || stdin.flush().is_err() {
            return "driver-eof".into();
        }
        let mut line = String::new();
        let n = self.stdout.as_mut().unwrap().read_line(&mut line).unwrap_or(0);
        if n == 0 {
            return "driver-eof".into();
        }
        line.trim_end().to_string()
    }
}
impl Drop for Lean {
    fn drop(&mut self) {
        if let Some(c) = self.child.as_mut() {
            let _ = c.kill();
            let _ = c.wait();
        }
    }
}

pub struct Args {
    pub prop: String,
    pub tier: String,
    pub seed: u64,
    pub driver: String,
    pub out: String,
    pub corpus: Option<String>,
    pub replay: Option<String>,
    pub extra: BTreeMap<String, String>,
}
impl Args {
    pub fn parse() -> Args {
        let mut a = Args {
            prop: String::new(),
            tier: "quick".into(),
            seed: 1,
            driver: String::new(),
            out: "/dev/stdout".into(),
            corpus: None,
            replay: None,
            extra: BTreeMap::new(),
        };
        let mut it = std::env::args().skip(1);
        while let Some(k) = it.next() {
            let v = it.next().unwrap_or_default();
            match k.as_str() {
                "--prop" => a.prop = v,
                "--tier" => a.tier = v,
                "--seed" => a.seed = v.parse().unwrap_or(1),
                "--driver" => a.driver = v,
                "--out" => a.out = v,
                "--corpus" => a.corpus = Some(v),
                "--replay" => a.replay = Some(v),
                _ => {
                    a.extra.insert(k.trim_start_matches("--").to_string(), v);
                }
            }
        }
        a
    }
    pub fn thorough(&self) -> bool {
        self.tier == "thorough"
    }
    /// n for quick, m for thorough
    pub fn scale(&self, quick: usize, thorough: usize) -> usize {
        if self.thorough() { thorough } else { quick }
    }
}

#[derive(Default)]
pub struct Report {
    pub property: String,
    pub rule: String,
    pub evaluations: u64,
    pub traces: u64,
    distinct: HashSet<u64>,
    pub samples: Vec<serde_json::Value>,
    pub distribution: BTreeMap<String, u64>,
    pub disagreements: Vec<serde_json::Value>,
    pub spec_failures: Vec<serde_json::Value>,
    pub notes: Vec<String>,
    pub exhaustive: bool,
    max_samples: usize,
    max_reports: usize,
}
impl Report {
    pub fn new(property: &str, rule: &str) -> Report {
        Report {
            property: property.into(),
            rule: rule.into(),
            max_samples: 6,
            max_reports: 20,
            ..Default::default()
        }
    }
    /// count one evaluated case; `nontrivial` per the property's rule; `canon` = canonical text of the case
    pub fn case(&mut self, canon: &str, nontrivial: bool) {
        self.evaluations += 1;
        if nontrivial {
            let mut h = std::collections::hash_map::DefaultHasher::new();
            canon.hash(&mut h);
            self.distinct.insert(h.finish());
        }
    }
    pub fn sample(&mut self, v: serde_json::Value) {
        if self.samples.len() < self.max_samples {
            self.samples.push(v);
        }
    }
    pub fn hit(&mut self, key: &str) {
        *self.distribution.entry(key.to_string()).or_insert(0) += 1;
    }
    pub fn hit_n(&mut self, key: &str, n: u64) {
        *self.distribution.entry(key.to_string()).or_insert(0) += n;
    }
    /// model and implementation disagree (the tie is broken)
    pub fn disagree(&mut self, stream: &str, case: serde_json::Value, imp: &str, model: &str) {
        self.hit("DISAGREEMENT");
        if self.disagreements.len() < self.max_reports {
            self.disagreements.push(serde_json::json!({"stream": stream, "case": case, "impl": imp, "model": model}));
        }
    }
    /// the implementation's behaviour violates the property's executable predicate.
    /// `key` is the canonical signature matched against known_findings.json.
    pub fn spec_fail(&mut self, key: &str, what: &str, case: serde_json::Value) {
        self.hit(&format!("SPECFAIL {key}"));
        let n_same = self.spec_failures.iter().filter(|f| f["key"] == key).count();
        if n_same < 3 && self.spec_failures.len() < self.max_reports * 3 {
            self.spec_failures.push(serde_json::json!({"key": key, "what": what, "case": case}));
        }
    }
    pub fn ok(&self) -> bool {
        self.disagreements.is_empty() && self.spec_failures.is_empty()
    }
    pub fn write(&self, path: &str) {
        let v = serde_json::json!({
            "property": self.property,
            "rule": self.rule,
            "evaluations": self.evaluations,
            "distinct_nontrivial": self.distinct.len(),
            "traces_validated_against_impl": self.traces,
            "samples": self.samples,
            "distribution": self.distribution,
            "disagreements": self.disagreements,
            "n_disagreements": self.distribution.get("DISAGREEMENT").copied().unwrap_or(0),
            "spec_failures": self.spec_failures,
            "notes": self.notes,
            "exhaustive": self.exhaustive,
        });
        let s = serde_json::to_string_pretty(&v).unwrap();
        if path == "/dev/stdout" {
            println!("{s}");
        } else {
            std::fs::write(path, s).unwrap();
        }
    }
}

/// Run `f`, turning a panic into `Err(message)`.
pub fn catch<T>(f: impl FnOnce() -> T) -> Result<T, String> {
    let r = std::panic::catch_unwind(std::panic::AssertUnwindSafe(f));
    r.map_err(|e| {
        if let Some(s) = e.downcast_ref::<&str>() {
            s.to_string()
        } else if let Some(s) = e.downcast_ref::<String>() {
            s.clone()
        } else {
            "panic".to_string()
        }
    })
}

/// Silence the default panic message (panics are observations here).
pub fn quiet_panics() {
    std::panic::set_hook(Box::new(|_| {}));
}

/// Corpus files: one case per line (text), `#` comments.
pub fn read_corpus(dir: &Option<String>) -> Vec<String> {
    let mut out = vec![];
    if let Some(d) = dir {
        if let Ok(rd) = std::fs::read_dir(d) {
            let mut files: Vec<_> = rd.filter_map(|e| e.ok()).map(|e| e.path()).collect();
            files.sort();
            for f in files {
                if let Ok(s) = std::fs::read_to_string(&f) {
                    for l in s.lines() {
                        let l = l.trim();
                        if !l.is_empty() && !l.starts_with('#') {
                            out.push(l.to_string());
                        }
                    }
                }
            }
        }
    }
    out
}
