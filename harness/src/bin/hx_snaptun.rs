//! C09 — correspondence + spec oracle for the SNAP tunnel authorisation
//! (`snap_control::server::identity_registry::IdentityRegistry` + `snap_tun::server::SnapTunServer`).
//!
//! A case is a *history* of operations applied to one real `IdentityRegistry`, one real `SnapTunServer` whose
//! authorisation layer is that registry, and real `ana_gotatun::noise::Tunn` clients (real Noise handshakes, real
//! ChaCha20-Poly1305 data packets), and to the Lean model (`drv_snaptun`):
//!
//!   reg k i life | adv d | purge | hs a i | rhs a i src | fhs a i | din a i | dinx a i src | rdin a i | junk a | dout a | tick
//!   (hs = genuine handshake, rhs = replayed, fhs = forged: claimed static key of identity i, not produced by its owner)
//!
//!   plain <op>   (op = hs | rhs | fhs | din | dinx | rdin | junk | dout): the same operation through the compatibility
//!   entry point `SnapTunServer::handle_incoming_packet` / `handle_outgoing_packet` instead of the `_with_session` one;
//!   every public function of `impl SnapTunServer` that moves payloads is driven (`DRIVEN`, checked against the list the
//!   translator regenerates from server.rs: stream `entry-points`), the entry point is chosen per operation at random
//!   in the exhaustive, sampled and random streams, the directed histories run through each and through a random mix
//! * time is virtual: the registry is driven with `base + t` and the server's authorisation layer is an adapter
//!   around the *real* registry that substitutes `base + t` for the `Instant::now()` the server passes (the adapter
//!   checks that the instant the server passes lies inside the call – oracle `C09:clock`);
//! * compared after every operation: outcome (`Forwarded`/`Done`/`Err(variant)`, packets pushed to the network,
//!   `Some`/`None` of the outgoing path), tunnel table (address → peer static, via hook), association map and
//!   registration records (sorted, via hook), `has_authorization` for 4 identities;
//! * spec oracle (independent of the model) on the implementation's own output – see `oracle_*` below;
//! * stream "conc": real threads on the real registry, linearisability oracle (see the section before `run_history`).
use std::{
    collections::{BTreeMap, HashMap, VecDeque},
    net::SocketAddr,
    sync::{
        Arc, Mutex,
        atomic::{AtomicU64, Ordering},
    },
    time::{Duration, Instant},
};

use ana_gotatun::{
    noise::{Tunn, TunnResult, rate_limiter::RateLimiter},
    packet::{Packet, WgKind},
    x25519,
};
use serde_json::json;
use snap_control::server::identity_registry::IdentityRegistry;
use snap_tun::server::{HandleIncomingPacketResult, SnapTunAuthorization, SnapTunServer};
use verif_harness::*;

const NK: u64 = 2;
const NI: u64 = 3;
const NA: u64 = 2;

#[derive(Clone, Debug, PartialEq, Eq, Hash)]
enum Op {
    Reg { k: u64, i: u64, life: u64 },
    Adv(u64),
    Purge,
    /// fresh handshake initiation of client (i, a) sent from address a; the response is delivered to the client
    Hs { a: u64, i: u64 },
    /// the last handshake initiation of client (i, src) replayed from address a (responses are lost)
    Rhs { a: u64, i: u64, src: u64 },
    /// client (i, a) encrypts a fresh payload under its latest session and sends it from a
    Din { a: u64, i: u64 },
    /// the same, but the datagram arrives from address a although it was produced by client (i, src)
    Dinx { a: u64, i: u64, src: u64 },
    /// the last data packet of client (i, a) replayed from a
    Rdin { a: u64, i: u64 },
    /// forged handshake initiation from address a: `encrypted_static` is identity i's public key (taken from a
    /// genuine initiation), the encrypted timestamp is corrupted and `mac1` recomputed (needs only public data)
    Fhs { a: u64, i: u64 },
    /// not a WireGuard message
    Junk { a: u64 },
    Dout { a: u64 },
    Tick,
    /// the same operation (one that hands a datagram or a payload to the server) through the compatibility wrapper
    /// `handle_incoming_packet` / `handle_outgoing_packet`
    Plain(Box<Op>),
}

impl Op {
    fn text(&self) -> String {
        match self {
            Op::Reg { k, i, life } => format!("reg {k} {i} {life}"),
            Op::Adv(d) => format!("adv {d}"),
            Op::Purge => "purge".into(),
            Op::Hs { a, i } => format!("hs {a} {i}"),
            Op::Rhs { a, i, src } => format!("rhs {a} {i} {src}"),
            Op::Din { a, i } => format!("din {a} {i}"),
            Op::Dinx { a, i, src } => format!("dinx {a} {i} {src}"),
            Op::Rdin { a, i } => format!("rdin {a} {i}"),
            Op::Fhs { a, i } => format!("fhs {a} {i}"),
            Op::Junk { a } => format!("junk {a}"),
            Op::Dout { a } => format!("dout {a}"),
            Op::Tick => "tick".into(),
            Op::Plain(op) => format!("plain {}", op.text()),
        }
    }
    /// does the operation call a packet-moving function of the server (so that the entry point is a choice)
    fn enters_server(&self) -> bool {
        matches!(self, Op::Hs { .. } | Op::Rhs { .. } | Op::Din { .. } | Op::Dinx { .. } | Op::Rdin { .. } | Op::Fhs { .. } | Op::Junk { .. } | Op::Dout { .. })
    }
    fn plain(self) -> Op {
        if self.enters_server() { Op::Plain(Box::new(self)) } else { self }
    }
    /// entry point chosen at random (1/2) for operations that have two
    fn via_random(self, rng: &mut Rng) -> Op {
        if self.enters_server() && rng.chance(1, 2) { self.plain() } else { self }
    }
    fn parse(s: &str) -> Option<Op> {
        let w: Vec<&str> = s.split_whitespace().collect();
        let n = |i: usize| -> Option<u64> { w.get(i)?.parse().ok() };
        Some(match *w.first()? {
            "reg" => Op::Reg { k: n(1)?, i: n(2)?, life: n(3)? },
            "adv" => Op::Adv(n(1)?),
            "purge" => Op::Purge,
            "hs" => Op::Hs { a: n(1)?, i: n(2)? },
            "rhs" => Op::Rhs { a: n(1)?, i: n(2)?, src: n(3)? },
            "din" => Op::Din { a: n(1)?, i: n(2)? },
            "dinx" => Op::Dinx { a: n(1)?, i: n(2)?, src: n(3)? },
            "rdin" => Op::Rdin { a: n(1)?, i: n(2)? },
            "fhs" => Op::Fhs { a: n(1)?, i: n(2)? },
            "junk" => Op::Junk { a: n(1)? },
            "dout" => Op::Dout { a: n(1)? },
            "tick" => Op::Tick,
            "plain" => {
                let inner = Op::parse(s.trim_start().strip_prefix("plain")?)?;
                if !inner.enters_server() {
                    return None;
                }
                Op::Plain(Box::new(inner))
            }
            _ => return None,
        })
    }
}

fn hist_line(ops: &[Op]) -> String {
    ops.iter().map(|o| o.text()).collect::<Vec<_>>().join("; ")
}
fn parse_hist(l: &str) -> Option<Vec<Op>> {
    l.split(';').map(|s| s.trim()).filter(|s| !s.is_empty()).map(Op::parse).collect()
}

/// Authorisation layer handed to the real server: the *real* registry, asked at the virtual instant.
struct Clocked {
    reg: Arc<IdentityRegistry>,
    base: Instant,
    t: AtomicU64,
    /// instants the server passed during the current call
    passed: Mutex<Vec<Instant>>,
}
impl Clocked {
    fn vnow(&self) -> Instant {
        self.base + Duration::from_millis(self.t.load(Ordering::SeqCst))
    }
}
impl SnapTunAuthorization for Clocked {
    type SessionData = ();
    fn is_authorized(&self, now: Instant, identity: &[u8; 32]) -> Option<Arc<()>> {
        self.passed.lock().unwrap().push(now);
        SnapTunAuthorization::is_authorized(&*self.reg, self.vnow(), identity)
    }
}

struct Client {
    tunn: Tunn,
    /// handshake id of the most recent session of the client (None = no session yet)
    sess: Option<u64>,
    /// server-side session index (from the handshake response) -> handshake id
    by_ridx: HashMap<u64, u64>,
    pending: Option<u64>,
    last_init: Option<(Vec<u8>, u64)>,
    /// bytes + model request tail (`<signer> <hs> <src> <ridx> <ctr> <payload>`)
    last_data: Option<(Vec<u8>, String)>,
    seq: u8,
}

struct World {
    authz: Arc<Clocked>,
    reg: Arc<IdentityRegistry>,
    server: SnapTunServer<Clocked>,
    server_pub: x25519::PublicKey,
    client_rl: Arc<RateLimiter>,
    clients: HashMap<(u64, u64), Client>,
    ids: Vec<[u8; 32]>,
    hs_ctr: u64,
    out_seq: u8,
    /// payloads handed to the outgoing path per address (for the integrity oracle)
    sent_out: HashMap<u64, Vec<Vec<u8>>>,
    /// history-based specification of the registry, kept from the operations alone (never from the registry's
    /// state): per identity the token key and expiry (virtual ms) of its latest registration, erased when another
    /// identity registers under the same key ("superseded ... until the identity registers again")
    ledger: [Option<(u64, u64)>; 4],
    /// the current operation goes through `handle_incoming_packet` / `handle_outgoing_packet` (`Op::Plain`)
    plain: bool,
    /// payloads handed to the outgoing path of an address while the tunnel there had no peer with an unexpired
    /// registration (or did not exist): none of them may ever be encrypted towards a client
    handed_unauth: HashMap<u64, Vec<Vec<u8>>>,
}

/// Every `pub fn` of `impl SnapTunServer` and what this harness does with it; compared with the list the translator
/// regenerates from server.rs (through the model driver's `entrypoints`) - a public function that is not listed here
/// is an entry point nobody drives.
const DRIVEN: &[(&str, &str)] = &[
    ("new", "construct"),                                   // World::new
    ("handle_incoming_packet", "incoming"),                 // World::incoming, Op::Plain
    ("handle_incoming_packet_with_session", "incoming"),    // World::incoming
    ("handle_outgoing_packet", "outgoing"),                 // Op::Plain(Dout)
    ("handle_outgoing_packet_with_session", "outgoing"),    // Op::Dout
    ("update_timers", "timers"),                            // Op::Tick
    ("verif-hooks:verif_tunnels", "hook"),                  // World::state_str / tunnel_peer
];

fn addr(a: u64) -> SocketAddr {
    format!("192.168.1.{}:{}", a + 1, 4000 + a).parse().unwrap()
}
fn addr_idx(s: &SocketAddr) -> u64 {
    (s.port() - 4000) as u64
}
fn secret(i: u64) -> x25519::StaticSecret {
    x25519::StaticSecret::from([i as u8 + 1; 32])
}
fn wg_bytes(k: WgKind) -> Vec<u8> {
    match k {
        WgKind::HandshakeInit(p) => p.into_bytes()[..].to_vec(),
        WgKind::HandshakeResp(p) => p.into_bytes()[..].to_vec(),
        WgKind::CookieReply(p) => p.into_bytes()[..].to_vec(),
        WgKind::Data(p) => p.into_bytes()[..].to_vec(),
    }
}
/// BLAKE2s (RFC 7693), optional key, `outlen` ≤ 32 – only used to recompute `mac1` of a forged handshake.
fn blake2s(key: &[u8], data: &[u8], outlen: usize) -> Vec<u8> {
    const IV: [u32; 8] = [0x6A09E667, 0xBB67AE85, 0x3C6EF372, 0xA54FF53A, 0x510E527F, 0x9B05688C, 0x1F83D9AB, 0x5BE0CD19];
    const SIGMA: [[usize; 16]; 10] = [
        [0, 1, 2, 3, 4, 5, 6, 7, 8, 9, 10, 11, 12, 13, 14, 15],
        [14, 10, 4, 8, 9, 15, 13, 6, 1, 12, 0, 2, 11, 7, 5, 3],
        [11, 8, 12, 0, 5, 2, 15, 13, 10, 14, 3, 6, 7, 1, 9, 4],
        [7, 9, 3, 1, 13, 12, 11, 14, 2, 6, 5, 10, 4, 0, 15, 8],
        [9, 0, 5, 7, 2, 4, 10, 15, 14, 1, 11, 12, 6, 8, 3, 13],
        [2, 12, 6, 10, 0, 11, 8, 3, 4, 13, 7, 5, 15, 14, 1, 9],
        [12, 5, 1, 15, 14, 13, 4, 10, 0, 7, 6, 3, 9, 2, 8, 11],
        [13, 11, 7, 14, 12, 1, 3, 9, 5, 0, 15, 4, 8, 6, 2, 10],
        [6, 15, 14, 9, 11, 3, 0, 8, 12, 2, 13, 7, 1, 4, 10, 5],
        [10, 2, 8, 4, 7, 6, 1, 5, 15, 11, 9, 14, 3, 12, 13, 0],
    ];
    fn compress(h: &mut [u32; 8], block: &[u8; 64], t: u64, last: bool) {
        let mut m = [0u32; 16];
        for i in 0..16 {
            m[i] = u32::from_le_bytes(block[4 * i..4 * i + 4].try_into().unwrap());
        }
        let mut v = [0u32; 16];
        v[..8].copy_from_slice(h);
        v[8..].copy_from_slice(&IV);
        v[12] ^= t as u32;
        v[13] ^= (t >> 32) as u32;
        if last {
            v[14] = !v[14];
        }
        let g = |v: &mut [u32; 16], a: usize, b: usize, c: usize, d: usize, x: u32, y: u32| {
            v[a] = v[a].wrapping_add(v[b]).wrapping_add(x);
            v[d] = (v[d] ^ v[a]).rotate_right(16);
            v[c] = v[c].wrapping_add(v[d]);
            v[b] = (v[b] ^ v[c]).rotate_right(12);
            v[a] = v[a].wrapping_add(v[b]).wrapping_add(y);
            v[d] = (v[d] ^ v[a]).rotate_right(8);
            v[c] = v[c].wrapping_add(v[d]);
            v[b] = (v[b] ^ v[c]).rotate_right(7);
        };
        for r in 0..10 {
            let s = &SIGMA[r];
            g(&mut v, 0, 4, 8, 12, m[s[0]], m[s[1]]);
            g(&mut v, 1, 5, 9, 13, m[s[2]], m[s[3]]);
            g(&mut v, 2, 6, 10, 14, m[s[4]], m[s[5]]);
            g(&mut v, 3, 7, 11, 15, m[s[6]], m[s[7]]);
            g(&mut v, 0, 5, 10, 15, m[s[8]], m[s[9]]);
            g(&mut v, 1, 6, 11, 12, m[s[10]], m[s[11]]);
            g(&mut v, 2, 7, 8, 13, m[s[12]], m[s[13]]);
            g(&mut v, 3, 4, 9, 14, m[s[14]], m[s[15]]);
        }
        for i in 0..8 {
            h[i] ^= v[i] ^ v[i + 8];
        }
    }
    let mut h = IV;
    h[0] ^= 0x0101_0000 ^ ((key.len() as u32) << 8) ^ outlen as u32;
    let mut input = vec![];
    if !key.is_empty() {
        let mut kb = [0u8; 64];
        kb[..key.len()].copy_from_slice(key);
        input.extend_from_slice(&kb);
    }
    input.extend_from_slice(data);
    if input.is_empty() {
        input.resize(64, 0);
        let blk: [u8; 64] = input[..64].try_into().unwrap();
        compress(&mut h, &blk, 0, true);
    } else {
        let n = input.len();
        let nblocks = n.div_ceil(64);
        input.resize(nblocks * 64, 0);
        for b in 0..nblocks {
            let blk: [u8; 64] = input[64 * b..64 * b + 64].try_into().unwrap();
            let last = b + 1 == nblocks;
            let t = if last { n as u64 } else { 64 * (b as u64 + 1) };
            compress(&mut h, &blk, t, last);
        }
    }
    let mut out = vec![];
    for w in h {
        out.extend_from_slice(&w.to_le_bytes());
    }
    out.truncate(outlen);
    out
}

fn le32(b: &[u8], off: usize) -> u64 {
    u32::from_le_bytes(b[off..off + 4].try_into().unwrap()) as u64
}
fn le64(b: &[u8], off: usize) -> u64 {
    u64::from_le_bytes(b[off..off + 8].try_into().unwrap())
}
fn err_name(r: &TunnResult) -> String {
    match r {
        TunnResult::Done => "done".into(),
        TunnResult::Err(e) => format!("err:{e:?}"),
        TunnResult::WriteToNetwork(_) => "wtn".into(),
        TunnResult::WriteToTunnel(p) => format!("wtt:{}", hex(&p[..])),
    }
}

#[derive(Default, Clone)]
struct Outcome {
    labels: Vec<String>,
    disagree: Option<(usize, String, String)>,
    spec: Vec<(String, String)>,
    forwarded: u64,
    encrypted: u64,
    refused_unauth: u64,
    handshakes_ok: u64,
    kinds: BTreeMap<String, u64>,
}

/// `data:?` (server data nobody could decrypt) matches any `data:<hex>` of the model
fn same(model: &str, imp: &str) -> bool {
    if model == imp {
        return true;
    }
    if !imp.contains("data:?") {
        return false;
    }
    let norm = |s: &str| -> String {
        let mut out = String::new();
        let mut rest = s;
        while let Some(p) = rest.find("data:") {
            out.push_str(&rest[..p + 5]);
            rest = &rest[p + 5..];
            let end = rest.find(|c: char| c == ',' || c == ' ').unwrap_or(rest.len());
            rest = &rest[end..];
        }
        out.push_str(rest);
        out
    };
    norm(model) == norm(imp)
}

impl World {
    fn new() -> World {
        // public keys are derived once per process (a scalar multiplication each)
        static KEYS: std::sync::OnceLock<(x25519::PublicKey, Vec<[u8; 32]>, x25519::PublicKey)> = std::sync::OnceLock::new();
        let (server_pub, ids, client_pub) = KEYS
            .get_or_init(|| {
                (
                    x25519::PublicKey::from(&x25519::StaticSecret::from([0xA5u8; 32])),
                    (0..4).map(|i| *x25519::PublicKey::from(&secret(i)).as_bytes()).collect(),
                    x25519::PublicKey::from(&secret(100)),
                )
            })
            .clone();
        let static_server = x25519::StaticSecret::from([0xA5u8; 32]);
        let rl = Arc::new(RateLimiter::new(&server_pub, u64::MAX));
        let reg = Arc::new(IdentityRegistry::new());
        let authz = Arc::new(Clocked { reg: reg.clone(), base: Instant::now(), t: AtomicU64::new(0), passed: Mutex::new(vec![]) });
        let server = SnapTunServer::new(static_server, rl, authz.clone());
        World {
            authz,
            reg,
            server,
            server_pub,
            client_rl: Arc::new(RateLimiter::new(&client_pub, u64::MAX)),
            clients: HashMap::new(),
            ids,
            hs_ctr: 0,
            out_seq: 0,
            sent_out: HashMap::new(),
            ledger: [None; 4],
            plain: false,
            handed_unauth: HashMap::new(),
        }
    }
    fn t(&self) -> u64 {
        self.authz.t.load(Ordering::SeqCst)
    }
    fn id_idx(&self, id: &[u8; 32]) -> u64 {
        self.ids.iter().position(|x| x == id).map(|p| p as u64).unwrap_or(99)
    }
    fn client(&mut self, i: u64, a: u64) -> &mut Client {
        let (sp, rl) = (self.server_pub, self.client_rl.clone());
        self.clients.entry((i, a)).or_insert_with(|| Client {
            tunn: Tunn::new(secret(i), sp, None, None, (i * NA + a + 1) as u32, rl, "10.0.0.1:5001".parse().unwrap()),
            sess: None,
            by_ridx: HashMap::new(),
            pending: None,
            last_init: None,
            last_data: None,
            seq: 0,
        })
    }

    /// canonical state of the implementation (hooks) in the driver's format
    fn state_str(&self) -> String {
        let (assoc, sess) = self.reg.verif_snapshot();
        let mut tun: Vec<(u64, u64)> = self.server.verif_tunnels().iter().map(|(a, p)| (addr_idx(a), self.id_idx(p))).collect();
        tun.sort();
        let mut a: Vec<(u64, u64)> = assoc.iter().map(|(k, v)| (k[1..].parse().unwrap_or(99), self.id_idx(v))).collect();
        a.sort();
        let base = self.authz.base;
        let mut s: Vec<(u64, u64)> = sess.iter().map(|(i, e)| (self.id_idx(i), e.duration_since(base).as_millis() as u64)).collect();
        s.sort();
        let pr = |l: &Vec<(u64, u64)>| if l.is_empty() { "-".to_string() } else { l.iter().map(|(x, y)| format!("{x}:{y}")).collect::<Vec<_>>().join(",") };
        let now = self.authz.vnow();
        let auth: String = (0..4).map(|i| if self.reg.has_authorization(now, &self.ids[i]) { '1' } else { '0' }).collect();
        format!("t={} tun={} a={} s={} auth={}", self.t(), pr(&tun), pr(&a), pr(&s), auth)
    }

    /// independent bookkeeping-free oracle on the registry state (hooks + public API only)
    fn oracle_registry(&self, spec: &mut Vec<(String, String)>) {
        let (assoc, sess) = self.reg.verif_snapshot();
        let now = self.authz.vnow();
        let mut vals: Vec<[u8; 32]> = assoc.iter().map(|(_, v)| *v).collect();
        vals.sort();
        let n = vals.len();
        vals.dedup();
        if vals.len() != n {
            spec.push(("C09:registry:two-keys-one-identity".into(), "an identity is bound to two token keys".into()));
        }
        let keys: Vec<[u8; 32]> = sess.iter().map(|(k, _)| *k).collect();
        if keys != vals {
            spec.push(("C09:registry:range-ne-sessions".into(), format!("identities bound to a key {:?} != identities with a registration {:?}", vals.iter().map(|v| self.id_idx(v)).collect::<Vec<_>>(), keys.iter().map(|v| self.id_idx(v)).collect::<Vec<_>>())));
        }
        for i in 0..4usize {
            let want = sess.iter().any(|(k, e)| *k == self.ids[i] && *e > now);
            let got = self.reg.has_authorization(now, &self.ids[i]);
            let got2 = SnapTunAuthorization::is_authorized(&*self.reg, now, &self.ids[i]).is_some();
            if want != got || got != got2 {
                spec.push(("C09:expiry-strict".into(), format!("identity {i}: has_authorization={got} is_authorized={got2} but (expiry > now)={want}")));
            }
            // history-based: authorised only while the identity's latest registration is neither lapsed nor superseded
            let live = matches!(self.ledger[i], Some((_, e)) if e > self.t());
            if (got || got2) && !live {
                spec.push(("C09:authorised-after-lapse-or-supersede".into(), format!("identity {i} is authorised at t={} although its latest registration is {} (history ledger {:?})", self.t(), if self.ledger[i].is_some() { "lapsed" } else { "superseded by another identity under the same token key, or absent" }, self.ledger)));
            }
        }
    }
    /// is identity index `i` registered with expiry strictly after the virtual now (hook view)
    fn unexpired(&self, i: u64) -> bool {
        let (_, sess) = self.reg.verif_snapshot();
        let now = self.authz.vnow();
        i < 4 && sess.iter().any(|(k, e)| *k == self.ids[i as usize] && *e > now)
    }
    fn tunnel_peer(&self, a: u64) -> Option<u64> {
        self.server.verif_tunnels().iter().find(|(s, _)| addr_idx(s) == a).map(|(_, p)| self.id_idx(p))
    }
    fn check_clock(&self, t0: Instant, spec: &mut Vec<(String, String)>) {
        let t1 = Instant::now();
        for p in self.authz.passed.lock().unwrap().drain(..) {
            if p < t0 || p > t1 {
                spec.push(("C09:clock".into(), "the instant passed to is_authorized lies outside the call".into()));
            }
        }
    }

    /// try to decrypt a server data packet with every client at address `a`; returns (identity, payload)
    fn client_decrypt(&mut self, a: u64, bytes: &[u8]) -> Vec<(u64, Vec<u8>)> {
        let mut ok = vec![];
        for i in 0..NI {
            if let Some(c) = self.clients.get_mut(&(i, a)) {
                if let Ok(k) = Packet::copy_from(bytes).try_into_wg() {
                    if let TunnResult::WriteToTunnel(p) = c.tunn.handle_incoming_packet(k) {
                        ok.push((i, p[..].to_vec()));
                    }
                }
            }
        }
        ok
    }

    /// feed one datagram to the real server; returns (outcome text, forwarded payload)
    fn incoming(&mut self, a: u64, bytes: &[u8], deliver_to: Option<(u64, u64)>, signer: Option<u64>, sent_payload: Option<&[u8]>, o: &mut Outcome) -> String {
        let mut q = VecDeque::new();
        let peer_before = self.tunnel_peer(a);
        let t0 = Instant::now();
        let plain = self.plain;
        let entry = if plain { "handle_incoming_packet" } else { "handle_incoming_packet_with_session" };
        *o.kinds.entry(format!("entry {entry}")).or_insert(0) += 1;
        if peer_before.is_some_and(|p| !self.unexpired(p)) {
            *o.kinds.entry(format!("entry {entry}: tunnel exists, peer not authorised")).or_insert(0) += 1;
        }
        // both entry points as (payload handed to the caller = the SCION side, any other tunnel result)
        let res: Result<(Option<Vec<u8>>, Option<TunnResult>), String> = if plain {
            catch(|| self.server.handle_incoming_packet(Packet::copy_from(bytes), addr(a), &mut q)).map(|r| match r {
                TunnResult::WriteToTunnel(p) => (Some(p[..].to_vec()), None),
                r => (None, Some(r)),
            })
        } else {
            catch(|| self.server.handle_incoming_packet_with_session(Packet::copy_from(bytes), addr(a), &mut q)).map(|r| match r {
                HandleIncomingPacketResult::Forwarded { packet, .. } => (Some(packet[..].to_vec()), None),
                HandleIncomingPacketResult::Result { result } => (None, Some(result)),
            })
        };
        self.check_clock(t0, &mut o.spec);
        let res = match res {
            Ok(r) => r,
            Err(m) => {
                o.spec.push(("C09:panic".into(), format!("{entry} panicked: {m}")));
                return "panic".into();
            }
        };
        let peer_after = self.tunnel_peer(a);
        let rs = match &res {
            (Some(packet), _) => {
                o.forwarded += 1;
                // ---- spec oracle: forwarded only for an identity with expiry > now, attributed to the right identity
                let peer = peer_after;
                match peer {
                    Some(p) if self.unexpired(p) => {}
                    _ => o.spec.push(("C09:forwarded-unauthorized".into(), format!("payload handed to the SCION side by {entry} from address {a} although tunnel peer {peer:?} has no unexpired registration at t={}", self.t()))),
                }
                if signer.is_none() || signer != peer || peer_before.is_some_and(|b| Some(b) != peer) {
                    o.spec.push(("C09:attribution".into(), format!("payload produced by identity {signer:?} forwarded through the tunnel of identity {peer:?} (before: {peer_before:?})")));
                }
                if let Some(sp) = sent_payload {
                    if sp != &packet[..] {
                        o.spec.push(("C09:attribution:payload".into(), "forwarded payload differs from what the client encrypted".into()));
                    }
                }
                // `Forwarded` of the _with_session function, `TunnResult::WriteToTunnel` of the wrapper
                format!("{}:{}", if plain { "wtt" } else { "fwd" }, hex(&packet[..]))
            }
            (None, Some(result)) => {
                if matches!(result, TunnResult::Err(ana_gotatun::noise::errors::WireGuardError::UnexpectedPacket)) {
                    o.refused_unauth += 1;
                }
                err_name(result)
            }
            (None, None) => unreachable!(),
        };
        // ---- spec oracle: a tunnel entry (which from then on attributes everything at that address to `peer_static`)
        // comes into being only through a handshake initiation that the holder of that key produced and that the
        // tunnel accepted
        if peer_before.is_none() {
            if let Some(p) = peer_after {
                let accepted = !rs.starts_with("err:");
                if signer != Some(p) || !accepted {
                    o.spec.push(("C09:attribution:unauthenticated-tunnel".into(), format!("tunnel entry for identity {p} created at address {a} by a packet produced by {signer:?} with result {rs}")));
                }
            }
        }
        let mut net = vec![];
        for k in q.drain(..) {
            match k {
                WgKind::HandshakeResp(p) => {
                    let b = p.into_bytes()[..].to_vec();
                    let sidx = le32(&b, 4);
                    net.push(format!("resp:{sidx}"));
                    if let Some((ci, ca)) = deliver_to {
                        let c = self.client(ci, ca);
                        if let Ok(k) = Packet::copy_from(&b[..]).try_into_wg() {
                            if let TunnResult::WriteToNetwork(_keepalive) = c.tunn.handle_incoming_packet(k) {
                                c.sess = c.pending.take();
                                if let Some(n) = c.sess {
                                    c.by_ridx.insert(sidx, n);
                                }
                                o.handshakes_ok += 1;
                            }
                        }
                    }
                }
                WgKind::HandshakeInit(_) => net.push("init".into()),
                WgKind::CookieReply(_) => net.push("cookie".into()),
                WgKind::Data(p) => {
                    let b = p.into_bytes()[..].to_vec();
                    // ---- spec oracle: the tunnel put (previously queued) data on the wire: only under authorisation
                    match peer_after {
                        Some(p) if self.unexpired(p) => {}
                        peer => o.spec.push(("C09:encrypted-unauthorized".into(), format!("queued outbound data flushed towards address {a} although tunnel peer {peer:?} has no unexpired registration"))),
                    }
                    net.push(self.server_data(a, &b, peer_after, o));
                }
            }
        }
        if !net.is_empty() && !net.iter().all(|n| n == "cookie") {
            match peer_after {
                Some(p) if self.unexpired(p) => {}
                peer => o.spec.push(("C09:network-output-unauthorized".into(), format!("tunnel output {net:?} towards address {a} although tunnel peer {peer:?} has no unexpired registration"))),
            }
        }
        format!("{} res={rs} net={}", if plain { "inp" } else { "in" }, if net.is_empty() { "-".to_string() } else { net.join(",") })
    }

    /// a `Data` packet emitted by the server towards address `a`: who can read it?
    fn server_data(&mut self, a: u64, b: &[u8], peer: Option<u64>, o: &mut Outcome) -> String {
        let readers = self.client_decrypt(a, b);
        for (i, pl) in &readers {
            if Some(*i) != peer {
                o.spec.push(("C09:attribution:outbound".into(), format!("outbound data for the tunnel of identity {peer:?} is readable by the client of identity {i}")));
            }
            if self.handed_unauth.get(&a).is_some_and(|v| v.iter().any(|x| x == pl)) {
                o.spec.push(("C09:encrypted-unauthorized".into(), format!("the client of identity {i} at address {a} decrypted payload {} that was handed to the outgoing path while the tunnel there had no peer with an unexpired registration", hex(pl))));
            }
            if !pl.is_empty() && !self.sent_out.get(&a).is_some_and(|v| v.iter().any(|x| x == pl)) {
                o.spec.push(("C09:attribution:payload".into(), "client decrypted a payload that was never handed to the outgoing path of that address".into()));
            }
        }
        match readers.first() {
            Some((_, pl)) => format!("data:{}", hex(pl)),
            None => {
                *o.kinds.entry("server data nobody could decrypt".into()).or_insert(0) += 1;
                "data:?".into()
            }
        }
    }

    /// apply one op to the implementation; returns (driver request, implementation outcome without state)
    fn apply(&mut self, op: &Op, o: &mut Outcome) -> (String, String) {
        match op {
            Op::Reg { k, i, life } => {
                let now = self.authz.vnow();
                let id = self.ids[*i as usize];
                let r = catch(|| self.reg.register(now, format!("k{k}"), id, Duration::from_millis(*life)));
                for j in 0..4usize {
                    if j as u64 != *i && matches!(self.ledger[j], Some((kk, _)) if kk == *k) {
                        self.ledger[j] = None;
                    }
                }
                if (*i as usize) < 4 {
                    self.ledger[*i as usize] = Some((*k, self.t() + *life));
                }
                let s = match r {
                    Ok(true) => "reg new".into(),
                    Ok(false) => "reg old".into(),
                    Err(m) => {
                        o.spec.push(("C09:panic".into(), format!("register panicked: {m}")));
                        "panic".to_string()
                    }
                };
                (format!("reg {k} {i} {life}"), s)
            }
            Op::Adv(d) => {
                self.authz.t.fetch_add(*d, Ordering::SeqCst);
                (format!("adv {d}"), "ok".into())
            }
            Op::Purge => {
                let now = self.authz.vnow();
                let before: Vec<bool> = (0..4).map(|i| self.reg.has_authorization(now, &self.ids[i])).collect();
                if let Err(m) = catch(|| self.reg.remove_expired(now)) {
                    o.spec.push(("C09:panic".into(), format!("remove_expired panicked: {m}")));
                }
                let after: Vec<bool> = (0..4).map(|i| self.reg.has_authorization(now, &self.ids[i])).collect();
                if before != after {
                    o.spec.push(("C09:purge-changes-verdict".into(), format!("remove_expired(now) changed has_authorization(now, ·): {before:?} -> {after:?}")));
                }
                let (_, sess) = self.reg.verif_snapshot();
                if sess.iter().any(|(_, e)| *e <= now) {
                    o.spec.push(("C09:purge-incomplete".into(), "an expired registration survived remove_expired".into()));
                }
                ("purge".into(), "ok".into())
            }
            Op::Hs { a, i } => {
                self.hs_ctr += 1;
                let n = self.hs_ctr;
                let c = self.client(*i, *a);
                let init = c.tunn.format_handshake_initiation(true).expect("forced handshake initiation");
                let b = wg_bytes(init.into());
                c.last_init = Some((b.clone(), n));
                c.pending = Some(n);
                let out = self.incoming(*a, &b, Some((*i, *a)), Some(*i), None, o);
                (format!("in {a} init {i} {i} {n} {n}"), out)
            }
            Op::Rhs { a, i, src } => {
                match self.clients.get(&(*i, *src)).and_then(|c| c.last_init.clone()) {
                    Some((b, n)) => {
                        let out = self.incoming(*a, &b, None, Some(*i), None, o);
                        (format!("in {a} init {i} {i} {n} {n}"), out)
                    }
                    None => self.apply(&Op::Junk { a: *a }, o),
                }
            }
            Op::Din { a, i } => self.apply(&Op::Dinx { a: *a, i: *i, src: *a }, o),
            Op::Dinx { a, i, src } => {
                let has = self.clients.get(&(*i, *src)).is_some_and(|c| c.sess.is_some());
                if !has {
                    // a syntactically valid data message under no session at all
                    let mut b = vec![4u8, 0, 0, 0, 77, 0, 0, 0, 0, 0, 0, 0, 0, 0, 0, 0];
                    b.extend_from_slice(&[0x5a; 32]);
                    let out = self.incoming(*a, &b, None, None, None, o);
                    return (format!("in {a} data - 0 {a} 77 0 -"), out);
                }
                let c = self.client(*i, *src);
                c.seq = c.seq.wrapping_add(1);
                let payload = vec![0xd0, *i as u8, *src as u8, c.seq];
                match c.tunn.handle_outgoing_packet(Packet::copy_from(&payload[..])) {
                    Some(WgKind::Data(p)) => {
                        let b = p.into_bytes()[..].to_vec();
                        // the session the client's Tunn chose is identified by the receiver index on the wire
                        let n = c.by_ridx.get(&le32(&b, 4)).copied().unwrap_or(0);
                        let tail = format!("{i} {n} {src} {} {} {}", le32(&b, 4), le64(&b, 8), hex(&payload));
                        c.last_data = Some((b.clone(), tail.clone()));
                        let out = self.incoming(*a, &b, None, Some(*i), Some(&payload), o);
                        (format!("in {a} data {tail}"), out)
                    }
                    _ => {
                        *o.kinds.entry("client without usable session".into()).or_insert(0) += 1;
                        self.apply(&Op::Junk { a: *a }, o)
                    }
                }
            }
            Op::Rdin { a, i } => {
                match self.clients.get(&(*i, *a)).and_then(|c| c.last_data.clone()) {
                    Some((b, tail)) => {
                        let out = self.incoming(*a, &b, None, Some(*i), None, o);
                        (format!("in {a} data {tail}"), out)
                    }
                    None => self.apply(&Op::Junk { a: *a }, o),
                }
            }
            Op::Fhs { a, i } => {
                self.hs_ctr += 1;
                let n = self.hs_ctr;
                // a genuine initiation of identity i (scratch Tunn), then: corrupt the encrypted timestamp, fix mac1
                let mut scratch = Tunn::new(secret(*i), self.server_pub, None, None, 77, self.client_rl.clone(), "10.0.0.1:5001".parse().unwrap());
                let mut b = wg_bytes(scratch.format_handshake_initiation(true).expect("initiation").into());
                assert_eq!(b.len(), 148);
                b[100] ^= 0x01;
                let mut label = b"mac1----".to_vec();
                label.extend_from_slice(self.server_pub.as_bytes());
                let mac1_key = blake2s(&[], &label, 32);
                let mac1 = blake2s(&mac1_key, &b[..116], 16);
                b[116..132].copy_from_slice(&mac1);
                let out = self.incoming(*a, &b, None, None, None, o);
                *o.kinds.entry("forged handshakes".into()).or_insert(0) += 1;
                (format!("in {a} init - {i} {n} {n}"), out)
            }
            Op::Junk { a } => {
                let out = self.incoming(*a, &[0xffu8; 40], None, None, None, o);
                (format!("in {a} junk"), out)
            }
            Op::Dout { a } => {
                self.out_seq = self.out_seq.wrapping_add(1);
                let payload = vec![0xee, *a as u8, self.out_seq];
                self.sent_out.entry(*a).or_default().push(payload.clone());
                let peer = self.tunnel_peer(*a);
                let authorised = peer.is_some_and(|p| self.unexpired(p));
                if !authorised {
                    self.handed_unauth.entry(*a).or_default().push(payload.clone());
                }
                let plain = self.plain;
                let (entry, tag) = if plain { ("handle_outgoing_packet", "outp") } else { ("handle_outgoing_packet_with_session", "out") };
                *o.kinds.entry(format!("entry {entry}")).or_insert(0) += 1;
                if peer.is_some() && !authorised {
                    // the situation the property is about: WireGuard state persists, the registration does not
                    *o.kinds.entry(format!("entry {entry}: tunnel exists, peer not authorised")).or_insert(0) += 1;
                }
                let t0 = Instant::now();
                // both entry points as: None = refused / nothing; Some(p) = the payload was accepted into the tunnel
                // (_with_session: `Some`, p = network_packet) or the wrapper returned the packet p to send to the client
                let r: Result<Option<Option<WgKind>>, String> = if plain {
                    catch(|| self.server.handle_outgoing_packet(Packet::copy_from(&payload[..]), addr(*a))).map(|r| r.map(Some))
                } else {
                    catch(|| self.server.handle_outgoing_packet_with_session(Packet::copy_from(&payload[..]), addr(*a))).map(|r| r.map(|h| h.network_packet))
                };
                self.check_clock(t0, &mut o.spec);
                let s = match r {
                    Err(m) => {
                        o.spec.push(("C09:panic".into(), format!("{entry} panicked: {m}")));
                        "panic".to_string()
                    }
                    Ok(None) => format!("{tag} none"),
                    Ok(Some(np)) => {
                        o.encrypted += 1;
                        // ---- spec oracle: accepted into the tunnel / answered with a packet for the client only for an
                        // identity with expiry > now ("an outbound payload is encrypted towards a client only if ...")
                        if !authorised {
                            o.spec.push(("C09:encrypted-unauthorized".into(), format!("{entry}(..) is Some for address {a}: outbound payload accepted although tunnel peer {peer:?} has no unexpired registration at t={}", self.t())));
                        }
                        match np {
                            None => format!("{tag} some:none"),
                            Some(WgKind::Data(p)) => {
                                let b = p.into_bytes()[..].to_vec();
                                format!("{tag} some:{}", self.server_data(*a, &b, peer, o))
                            }
                            Some(WgKind::HandshakeInit(_)) => format!("{tag} some:init"),
                            Some(WgKind::HandshakeResp(_)) => format!("{tag} some:resp"),
                            Some(WgKind::CookieReply(_)) => format!("{tag} some:cookie"),
                        }
                    }
                };
                (format!("{tag} {a} {}", hex(&payload)), s)
            }
            Op::Plain(inner) => {
                // the model request of a wrapped incoming operation is `inp ...` (the outgoing one says `outp` itself)
                self.plain = true;
                let (req, out) = self.apply(inner, o);
                self.plain = false;
                (req.strip_prefix("in ").map(|r| format!("inp {r}")).unwrap_or(req), out)
            }
            Op::Tick => {
                let r = catch(|| self.server.update_timers());
                let s = match r {
                    Err(m) => {
                        o.spec.push(("C09:panic".into(), format!("update_timers panicked: {m}")));
                        "panic".to_string()
                    }
                    Ok(v) => {
                        let mut l: Vec<String> = v
                            .into_iter()
                            .map(|(a, k)| {
                                let kind = match k {
                                    WgKind::HandshakeInit(_) => "init",
                                    WgKind::HandshakeResp(_) => "resp",
                                    WgKind::CookieReply(_) => "cookie",
                                    WgKind::Data(p) => {
                                        // a keep-alive is an empty data message (32 bytes); anything longer carries a payload
                                        if p.into_bytes().len() > 32 { "data:payload" } else { "data:-" }
                                    }
                                };
                                format!("{}:{kind}", addr_idx(&a))
                            })
                            .collect();
                        l.sort();
                        if l.iter().any(|x| x.ends_with("data:payload")) {
                            o.spec.push(("C09:tick-emits-payload".into(), "update_timers (not gated by authorisation) emitted a non-empty data message".into()));
                        }
                        format!("tick {}", if l.is_empty() { "-".to_string() } else { l.join(",") })
                    }
                };
                ("tick".into(), s)
            }
        }
    }
}

// ---------------------------------------------------------------------------------------------------------------
// stream "conc" (the property's quantifier "schedules"): real threads on one real `IdentityRegistry`.
//
// scenario = sequential prefix (reg / adv / purge) that builds a pre-state, then 2..4 updates (`register`,
// `remove_expired`, all at the same instant T) started together from different threads, with reader threads that
// take atomic snapshots (`verif_snapshot` = one `ArcSwap::load`) and single verdicts (`has_authorization`) meanwhile.
// ORACLE (linearisability: every order of the updates run sequentially on a fresh real registry; these sequential
// results are compared with the Lean model driver's for every order - correspondence):
//   * final registry state + verdicts at T + each update's return value = those of ONE sequential order;
//   * every snapshot a reader saw = the state after some prefix of some order; every single verdict occurs there;
//   * the registry invariants on the final state; the ballast entries (only there to make the copy in
//     `update_state` slower, i.e. the window between load and store wider) are untouched.
// A violation is schedule-dependent: the stored case replays the scenario many times.
// ---------------------------------------------------------------------------------------------------------------
const CK: u64 = 3;
const CI: u64 = 4;
const BALLAST_SECS: u64 = 1_000_000;

struct Scenario {
    prefix: Vec<Op>,
    ops: Vec<Op>,
}
impl Scenario {
    fn line(&self) -> String {
        format!("conc: {} || {}", hist_line(&self.prefix), self.ops.iter().map(|o| o.text()).collect::<Vec<_>>().join(" | "))
    }
    fn parse(l: &str) -> Option<Scenario> {
        let l = l.trim().strip_prefix("conc:")?;
        let (a, b) = l.split_once("||")?;
        let prefix = parse_hist(a)?;
        let ops: Vec<Op> = b.split('|').map(|s| s.trim()).filter(|s| !s.is_empty()).map(Op::parse).collect::<Option<_>>()?;
        let ok_pre = prefix.iter().all(|o| matches!(o, Op::Reg { k, i, .. } if *k < CK && *i < CI) || matches!(o, Op::Adv(_) | Op::Purge));
        let ok_ops = ops.iter().all(|o| matches!(o, Op::Reg { k, i, .. } if *k < CK && *i < CI) || matches!(o, Op::Purge));
        (ok_pre && ok_ops && (1..=4).contains(&ops.len())).then_some(Scenario { prefix, ops })
    }
}
fn conc_id(i: u64) -> [u8; 32] {
    [0xC0 + i as u8; 32]
}
fn ballast_id(j: usize) -> [u8; 32] {
    let mut b = [0xB0u8; 32];
    b[0] = j as u8;
    b[1] = (j >> 8) as u8;
    b
}
type Snapshot = (Vec<(String, [u8; 32])>, Vec<([u8; 32], Instant)>);

/// canonical text `a=<key:id,…> s=<id:expiry ms,…>` of the non-ballast part (driver format) and the verdicts that
/// follow from the snapshot itself (expiry > T); Err = ballast damaged / foreign entry
fn conc_core(snap: &Snapshot, base: Instant, now: Instant, ballast: usize) -> Result<(String, String), String> {
    let (assoc, sess) = snap;
    let idx = |id: &[u8; 32]| (0..CI).find(|i| conc_id(*i) == *id);
    let (mut a, mut s, mut nb_a, mut nb_s) = (vec![], vec![], 0usize, 0usize);
    for (k, v) in assoc {
        if let Some(j) = k.strip_prefix('b').and_then(|x| x.parse::<usize>().ok()) {
            if j >= ballast || *v != ballast_id(j) {
                return Err(format!("ballast key {k} bound to a wrong identity"));
            }
            nb_a += 1;
        } else {
            let kk: u64 = k.strip_prefix('k').and_then(|x| x.parse().ok()).ok_or(format!("foreign key {k}"))?;
            a.push((kk, idx(v).ok_or(format!("key {k} bound to a foreign identity"))?));
        }
    }
    for (id, e) in sess {
        match idx(id) {
            Some(i) => s.push((i, e.duration_since(base).as_millis() as u64)),
            None if *e == base + Duration::from_secs(BALLAST_SECS) => nb_s += 1,
            None => return Err("foreign registration record".into()),
        }
    }
    if nb_a != ballast || nb_s != ballast {
        return Err(format!("{nb_a}/{nb_s} of {ballast} ballast associations/registrations left"));
    }
    a.sort();
    s.sort();
    let pr = |l: &Vec<(u64, u64)>| if l.is_empty() { "-".to_string() } else { l.iter().map(|(x, y)| format!("{x}:{y}")).collect::<Vec<_>>().join(",") };
    let auth: String = (0..CI).map(|i| if sess.iter().any(|(id, e)| *id == conc_id(i) && *e > now) { '1' } else { '0' }).collect();
    Ok((format!("a={} s={}", pr(&a), pr(&s)), auth))
}

/// what the Lean model says about every order of the concurrent updates
#[derive(Default)]
struct Lin {
    /// (state core, verdicts) after every prefix of every order (including the pre-state)
    nodes: std::collections::HashSet<(String, String)>,
    /// complete orders: (state core, verdicts, return value of each update by its index) -> one order that yields it
    leaves: BTreeMap<(String, String, Vec<String>), Vec<usize>>,
}
fn split_model(resp: &str) -> Option<(String, String, String)> {
    let (out, st) = resp.split_once(" | ")?;
    let a = st.find("a=")?;
    let au = st.find(" auth=")?;
    Some((out.to_string(), st[a..au].to_string(), st[au + 6..].to_string()))
}
fn lin_dfs(sc: &Scenario, m: usize, order: &mut Vec<usize>, rets: &mut Vec<String>, lean: &mut Lean, lin: &mut Lin) -> Result<(), String> {
    for x in 0..sc.ops.len() {
        if order.contains(&x) {
            continue;
        }
        let resp = lean.ask(&format!("at {} {}", m + order.len(), sc.ops[x].text()));
        let (out, core, auth) = split_model(&resp).ok_or(format!("model answered {resp:?}"))?;
        order.push(x);
        let old = std::mem::replace(&mut rets[x], out);
        lin.nodes.insert((core.clone(), auth.clone()));
        if order.len() == sc.ops.len() {
            lin.leaves.entry((core, auth, rets.clone())).or_insert_with(|| order.clone());
        } else {
            lin_dfs(sc, m, order, rets, lean, lin)?;
        }
        rets[x] = old;
        order.pop();
    }
    Ok(())
}
fn linearisations(sc: &Scenario, lean: &mut Lean) -> Result<Lin, String> {
    let mut lin = Lin::default();
    let r = lean.ask("new");
    if r != "ok" {
        return Err(format!("model answered {r:?} to new"));
    }
    let mut pre = ("a=- s=-".to_string(), "0".repeat(CI as usize));
    for op in &sc.prefix {
        let resp = lean.ask(&op.text());
        let (_, core, auth) = split_model(&resp).ok_or(format!("model answered {resp:?}"))?;
        pre = (core, auth);
    }
    lin.nodes.insert(pre);
    lin_dfs(sc, sc.prefix.len(), &mut vec![], &mut vec![String::new(); sc.ops.len()], lean, &mut lin)?;
    Ok(lin)
}

struct RoundObs {
    fin: Snapshot,
    fin_verdicts: String,
    rets: Vec<String>,
    reader_snaps: Vec<Snapshot>,
    reader_verdicts: Vec<(u64, bool)>,
    base: Instant,
    now: Instant,
}
fn apply_seq(reg: &IdentityRegistry, base: Instant, t: &mut u64, op: &Op) -> String {
    let now = base + Duration::from_millis(*t);
    match op {
        Op::Reg { k, i, life } => match catch(|| reg.register(now, format!("k{k}"), conc_id(*i), Duration::from_millis(*life))) {
            Ok(true) => "reg new".into(),
            Ok(false) => "reg old".into(),
            Err(m) => format!("panic: {m}"),
        },
        Op::Purge => match catch(|| reg.remove_expired(now)) {
            Ok(()) => "ok".into(),
            Err(m) => format!("panic: {m}"),
        },
        Op::Adv(d) => {
            *t += d;
            "ok".into()
        }
        _ => "bad-op".into(),
    }
}
/// one schedule: fresh registry, ballast, prefix, then all updates (and the readers) released together
fn conc_round(sc: &Scenario, ballast: usize, nreaders: usize, sequential: Option<&[usize]>) -> RoundObs {
    use std::sync::atomic::{AtomicBool, AtomicUsize};
    let reg = IdentityRegistry::new();
    let base = Instant::now();
    for j in 0..ballast {
        reg.register(base, format!("b{j}"), ballast_id(j), Duration::from_secs(BALLAST_SECS));
    }
    let mut t = 0u64;
    for op in &sc.prefix {
        apply_seq(&reg, base, &mut t, op);
    }
    let now = base + Duration::from_millis(t);
    let n = sc.ops.len();
    let (mut rets, mut reader_snaps, mut reader_verdicts) = (vec![String::new(); n], vec![], vec![]);
    if let Some(order) = sequential {
        for &x in order {
            rets[x] = apply_seq(&reg, base, &mut t, &sc.ops[x]);
        }
    } else {
        let (ready, go, finished) = (AtomicUsize::new(0), AtomicBool::new(false), AtomicUsize::new(0));
        let wait_go = || {
            ready.fetch_add(1, Ordering::SeqCst);
            let mut spins = 0u32;
            while !go.load(Ordering::Acquire) {
                spins += 1;
                if spins % 4096 == 0 { std::thread::yield_now() } else { std::hint::spin_loop() }
            }
        };
        std::thread::scope(|s| {
            let workers: Vec<_> = sc
                .ops
                .iter()
                .map(|op| {
                    let (reg, wait_go, finished) = (&reg, &wait_go, &finished);
                    s.spawn(move || {
                        wait_go();
                        let mut tt = t;
                        let r = apply_seq(reg, base, &mut tt, op);
                        finished.fetch_add(1, Ordering::SeqCst);
                        r
                    })
                })
                .collect();
            let readers: Vec<_> = (0..nreaders)
                .map(|_| {
                    let (reg, wait_go, finished) = (&reg, &wait_go, &finished);
                    s.spawn(move || {
                        wait_go();
                        let (mut snaps, mut verdicts) = (vec![], vec![]);
                        loop {
                            let fin = finished.load(Ordering::SeqCst) == n;
                            if snaps.len() < 48 {
                                snaps.push(reg.verif_snapshot());
                                for i in 0..CI {
                                    verdicts.push((i, reg.has_authorization(now, &conc_id(i))));
                                }
                            }
                            if fin {
                                break;
                            }
                        }
                        (snaps, verdicts)
                    })
                })
                .collect();
            let mut spins = 0u32;
            while ready.load(Ordering::SeqCst) < n + nreaders {
                spins += 1;
                if spins % 1024 == 0 { std::thread::yield_now() } else { std::hint::spin_loop() }
            }
            go.store(true, Ordering::Release);
            for (x, w) in workers.into_iter().enumerate() {
                rets[x] = w.join().unwrap_or_else(|_| "panic: worker".into());
            }
            for r in readers {
                if let Ok((sn, ve)) = r.join() {
                    reader_snaps.extend(sn);
                    reader_verdicts.extend(ve);
                }
            }
        });
    }
    let fin_verdicts: String = (0..CI).map(|i| if reg.has_authorization(now, &conc_id(i)) { '1' } else { '0' }).collect();
    RoundObs { fin: reg.verif_snapshot(), fin_verdicts, rets, reader_snaps, reader_verdicts, base, now }
}

/// every order of the updates executed sequentially on the real registry (used when the model driver is missing)
fn linearisations_impl(sc: &Scenario) -> Lin {
    fn perms(n: usize, cur: &mut Vec<usize>, out: &mut Vec<Vec<usize>>) {
        if !cur.is_empty() {
            out.push(cur.clone());
        }
        for x in 0..n {
            if !cur.contains(&x) {
                cur.push(x);
                perms(n, cur, out);
                cur.pop();
            }
        }
    }
    let mut lin = Lin::default();
    let mut all = vec![vec![]];
    perms(sc.ops.len(), &mut vec![], &mut all);
    for order in all {
        let sub = Scenario { prefix: sc.prefix.clone(), ops: sc.ops.clone() };
        let o = conc_round(&sub, 0, 0, Some(&order));
        if let Ok((core, _)) = conc_core(&o.fin, o.base, o.now, 0) {
            let auth = o.fin_verdicts.clone();
            lin.nodes.insert((core.clone(), auth.clone()));
            if order.len() == sc.ops.len() {
                lin.leaves.entry((core, auth, o.rets.clone())).or_insert(order);
            }
        }
    }
    lin
}

struct ConcStats {
    rounds: u64,
    failures: u64,
}
/// run `reps` schedules of one scenario against the linearisability oracle
fn conc_scenario(sc: &Scenario, reps: usize, ballast: usize, kind: &str, lean: &mut Lean, rep: &mut Report, st: &mut ConcStats) {
    let line = sc.line();
    // the oracle for the concurrent rounds is the implementation's OWN sequential behaviour (every order of the updates
    // executed one after the other on a fresh real registry): linearisability proper. That these sequential results
    // are the model's – so that the sequential theorems speak about them – is checked separately (correspondence).
    let lin = linearisations_impl(sc);
    if lean.enabled {
        match linearisations(sc, lean) {
            Ok(lm) => {
                if !lm.leaves.keys().eq(lin.leaves.keys()) || lm.nodes != lin.nodes {
                    rep.disagree(
                        "conc-sequential",
                        json!({"line": line}),
                        &format!("{:?}", lin.leaves.iter().map(|((c, a, r), o)| format!("order {o:?}: {c} auth={a} returns={r:?}")).collect::<Vec<_>>()),
                        &format!("{:?}", lm.leaves.iter().map(|((c, a, r), o)| format!("order {o:?}: {c} auth={a} returns={r:?}")).collect::<Vec<_>>()),
                    );
                }
            }
            Err(e) => {
                rep.disagree("conc", json!({"line": line}), "-", &e);
                return;
            }
        }
    }
    let distinct_finals: std::collections::HashSet<(&String, &String)> = lin.leaves.keys().map(|(c, a, _)| (c, a)).collect();
    let order_sensitive = distinct_finals.len() >= 2;
    rep.hit(&format!("conc scenario {kind}"));
    rep.hit(&format!("conc scenario with {} concurrent updates", sc.ops.len()));
    if order_sensitive {
        rep.hit("conc scenario order-sensitive (>= 2 distinct sequential results)");
    }
    let identity: Vec<usize> = (0..sc.ops.len()).collect();
    let mut reported = false;
    for _ in 0..reps {
        let o = conc_round(sc, ballast, 2, None);
        st.rounds += 1;
        rep.case(&line, order_sensitive);
        rep.traces += 1;
        let mut bad: Vec<String> = vec![];
        for r in &o.rets {
            if r.starts_with("panic") {
                bad.push(format!("an update panicked: {r}"));
            }
        }
        let fin = conc_core(&o.fin, o.base, o.now, ballast);
        let mut fin_txt = String::new();
        match &fin {
            Err(e) => bad.push(format!("final state: {e}")),
            Ok((core, auth_from_snapshot)) => {
                fin_txt = format!("{core} auth={} returns={:?}", o.fin_verdicts, o.rets);
                if *auth_from_snapshot != o.fin_verdicts {
                    bad.push(format!("has_authorization at T says {} but the registrations say {auth_from_snapshot}", o.fin_verdicts));
                }
                match lin.leaves.get(&(core.clone(), o.fin_verdicts.clone(), o.rets.clone())) {
                    Some(ord) => {
                        if order_sensitive && *ord != identity {
                            rep.hit("conc round linearised in an order other than thread order");
                        }
                    }
                    None => {
                        let lost = !lin.leaves.keys().any(|(c, a, _)| c == core && *a == o.fin_verdicts);
                        bad.push(if lost {
                            "final state is the result of NO sequential order of the concurrent updates (lost update)".to_string()
                        } else {
                            "final state matches a sequential order but the updates' return values (was_new) match none".to_string()
                        });
                    }
                }
                // registry invariants on the final state
                let mut vals: Vec<[u8; 32]> = o.fin.0.iter().map(|(_, v)| *v).collect();
                vals.sort();
                let keys: Vec<[u8; 32]> = o.fin.1.iter().map(|(k, _)| *k).collect();
                if vals.windows(2).any(|w| w[0] == w[1]) {
                    bad.push("an identity is bound to two token keys".into());
                }
                if keys != vals {
                    bad.push("identities bound to a key != identities with a registration".into());
                }
            }
        }
        let mut intermediate = false;
        for sn in &o.reader_snaps {
            match conc_core(sn, o.base, o.now, ballast) {
                Err(e) => bad.push(format!("a reader saw: {e}")),
                Ok(node) => {
                    if !lin.nodes.contains(&node) {
                        bad.push(format!("a reader's snapshot `{} auth={}` is the state after no prefix of any order", node.0, node.1));
                    }
                    if let Ok((c, _)) = &fin {
                        intermediate |= node.0 != *c;
                    }
                }
            }
        }
        for (i, v) in &o.reader_verdicts {
            let ch = if *v { '1' } else { '0' };
            if !lin.nodes.iter().any(|(_, a)| a.as_bytes()[*i as usize] as char == ch) {
                bad.push(format!("a reader got has_authorization(identity {i}) = {v}, which holds after no prefix of any order"));
            }
        }
        rep.hit_n("conc reader snapshots checked", o.reader_snaps.len() as u64);
        if intermediate {
            rep.hit("conc round in which a reader saw a state other than the final one");
        }
        if !bad.is_empty() {
            st.failures += 1;
            bad.dedup();
            if !reported {
                reported = true;
                let seqs: Vec<String> = lin.leaves.iter().map(|((c, a, r), ord)| format!("order {ord:?}: {c} auth={a} returns={r:?}")).collect();
                rep.spec_fail(
                    "C09:concurrent:not-linearizable",
                    &format!(
                        "{} [{}] after the concurrent updates `{}` on the pre-state built by `{}`: observed `{}` (schedule-dependent: replay runs the scenario many times)",
                        bad.join("; "),
                        kind,
                        sc.ops.iter().map(|o| o.text()).collect::<Vec<_>>().join(" | "),
                        hist_line(&sc.prefix),
                        fin_txt
                    ),
                    json!({"line": line, "observed_final": fin_txt, "sequential_results": seqs, "ballast": ballast, "schedule_dependent": true}),
                );
            } else {
                rep.hit("SPECFAIL C09:concurrent:not-linearizable (further rounds of a reported scenario)");
            }
        }
    }
}

fn gen_scenario(rng: &mut Rng) -> Scenario {
    let reg = |rng: &mut Rng, lives: &[u64]| Op::Reg { k: rng.below(CK), i: rng.below(CI), life: *rng.pick(lives) };
    let mut prefix = vec![];
    for _ in 0..rng.below(5) {
        prefix.push(match rng.below(10) {
            0..=6 => reg(rng, &[1, 2, 3, 5, 50]),
            7..=8 => Op::Adv(*rng.pick(&[1, 2])),
            _ => Op::Purge,
        });
    }
    let n = rng.range(2, 4) as usize;
    let ops = (0..n).map(|_| if rng.chance(1, 7) { Op::Purge } else { reg(rng, &[0, 1, 3, 50]) }).collect();
    Scenario { prefix, ops }
}

/// the review's scenario: key k -> identity a; concurrently register(k, b) and register(k2, c): afterwards a must
/// not be authorised and b and c must both be registered – and its relatives
fn directed_conc() -> Vec<&'static str> {
    vec![
        "conc: reg 0 0 50 || reg 0 1 50 | reg 1 2 50",
        "conc: reg 1 3 50 || reg 2 0 50 | reg 1 2 50",
        "conc: reg 0 0 50; reg 1 1 50 || reg 0 2 50 | reg 1 3 50",
        "conc: reg 0 0 50 || reg 1 0 50 | reg 0 1 50",
        "conc: reg 0 0 1; reg 1 1 50; adv 1 || purge | reg 2 2 50",
        "conc: reg 0 0 50 || reg 0 1 50 | reg 1 2 50 | reg 2 3 50",
        "conc: || reg 0 0 50 | reg 1 1 50 | reg 2 2 50 | reg 0 3 50",
    ]
}

/// `register` with a lifetime that `Instant + Duration` cannot represent (not reachable through the RPC handler:
/// lifetime = exp_time - SystemTime::now()). Observation only.
fn observe_huge_lifetime(rep: &mut Report) {
    let reg = IdentityRegistry::new();
    let now = Instant::now();
    match catch(|| reg.register(now, "k0", conc_id(0), Duration::from_secs(u64::MAX / 2))) {
        Ok(_) => rep.hit("observation: register(lifetime = u64::MAX/2 s) did not panic"),
        Err(m) => {
            rep.hit("observation: register(lifetime = u64::MAX/2 s) panics in `now + lifetime` (direct API call only)");
            let again = catch(|| reg.register(now, "k0", conc_id(0), Duration::from_secs(1)));
            let purge = catch(|| reg.remove_expired(now));
            if again.is_err() || purge.is_err() {
                rep.hit("observation: that panic happens under the write lock and poisons it - every later register / remove_expired panics");
                rep.notes.push(format!(
                    "observation (direct API call only, not a C09 violation): register(now, k, id, Duration::from_secs(u64::MAX/2)) panics ({m}) inside update_state while the write lock is held; the Mutex is poisoned and every later register/remove_expired panics ({}); readers keep working on the last snapshot",
                    again.err().or(purge.err()).unwrap_or_default()
                ));
            }
            if !reg.has_authorization(now, &conc_id(0)) {
                rep.hit("observation: the failed registration left the registry unchanged");
            }
        }
    }
}

fn conc_stream(args: &Args, rng: &mut Rng, lean: &mut Lean, rep: &mut Report, corpus: &[Scenario]) {
    let ballast: usize = args.extra.get("ballast").and_then(|v| v.parse().ok()).unwrap_or(24);
    let mut st = ConcStats { rounds: 0, failures: 0 };
    let t0 = Instant::now();
    for sc in corpus {
        conc_scenario(sc, args.scale(300, 4000), ballast, "corpus", lean, rep, &mut st);
    }
    for l in directed_conc() {
        let sc = Scenario::parse(l).expect("directed concurrent scenario");
        conc_scenario(&sc, args.scale(300, 20000), ballast, "directed", lean, rep, &mut st);
    }
    for _ in 0..args.scale(600, 20000) {
        let sc = gen_scenario(rng);
        conc_scenario(&sc, args.scale(4, 16), ballast, "random", lean, rep, &mut st);
    }
    rep.hit_n("conc rounds (schedules) run", st.rounds);
    rep.hit_n("conc rounds violating the oracle", st.failures);
    rep.notes.push(format!("conc stream: {} schedules in {:.1}s, {} violating", st.rounds, t0.elapsed().as_secs_f64(), st.failures));
}

fn run_history(ops: &[Op], lean: &mut Lean) -> Outcome {
    let mut o = Outcome::default();
    let mut w = World::new();
    let fresh = lean.ask("new");
    if lean.enabled && fresh != "ok" {
        o.disagree = Some((0, "new".into(), fresh));
        return o;
    }
    for (idx, op) in ops.iter().enumerate() {
        let (req, out) = w.apply(op, &mut o);
        w.oracle_registry(&mut o.spec);
        let imp = format!("{out} | {}", w.state_str());
        let kind = out.split(':').next().unwrap_or("").split_whitespace().take(2).collect::<Vec<_>>().join(" ");
        *o.kinds.entry(format!("out {}", kind)).or_insert(0) += 1;
        o.labels.push(format!("{} => {}", op.text(), imp));
        let model = lean.ask(&req);
        if lean.enabled && !same(&model, &imp) {
            o.disagree = Some((idx, imp, model));
            break;
        }
    }
    o
}

/// registry-only depth-first enumeration with shared prefixes (`at <depth> …` requests)
fn registry_dfs(depth: usize, lean: &mut Lean, rep: &mut Report) {
    let mut alphabet = vec![Op::Adv(1), Op::Adv(2), Op::Purge];
    for k in 0..NK {
        for i in 0..NI {
            for life in [0u64, 1, 3] {
                alphabet.push(Op::Reg { k, i, life });
            }
        }
    }
    lean.ask("new");
    let mut path: Vec<usize> = vec![];
    let mut nodes = 0u64;
    // iterative DFS over index paths
    fn replay(path: &[usize], alphabet: &[Op]) -> (World, Outcome, String) {
        let mut w = World::new();
        let mut o = Outcome::default();
        let mut last = String::new();
        for &x in path {
            let (_, out) = w.apply(&alphabet[x], &mut o);
            last = out;
        }
        (w, o, last)
    }
    loop {
        if path.len() < depth {
            path.push(0);
        } else {
            // advance
            loop {
                match path.pop() {
                    None => {
                        rep.hit_n("registry-dfs nodes", nodes);
                        return;
                    }
                    Some(x) if x + 1 < alphabet.len() => {
                        path.push(x + 1);
                        break;
                    }
                    Some(_) => {}
                }
            }
        }
        nodes += 1;
        let (w, mut o, out) = replay(&path, &alphabet);
        w.oracle_registry(&mut o.spec);
        let imp = format!("{out} | {}", w.state_str());
        let d = path.len() - 1;
        let req = format!("at {d} {}", alphabet[*path.last().unwrap()].text());
        let model = lean.ask(&req);
        let ops: Vec<Op> = path.iter().map(|&x| alphabet[x].clone()).collect();
        let nontrivial = ops.iter().filter(|o| matches!(o, Op::Reg { .. })).count() >= 2;
        rep.case(&hist_line(&ops), nontrivial);
        if lean.differs(&model, &imp) {
            rep.disagree("registry-dfs", json!({"line": hist_line(&ops)}), &imp, &model);
        }
        for (k, what) in o.spec {
            rep.spec_fail(&k, &what, json!({"line": hist_line(&ops)}));
        }
    }
}

/// all histories of exactly `len` operations over `alpha`, spread over `threads` workers (each with its own model
/// driver); returns (evaluated, canonical lines of non-trivial histories, failing histories, counters)
fn exhaustive_parallel(alpha: &[Op], len: usize, driver: &str, threads: usize, seed: u64) -> (u64, Vec<String>, Vec<Vec<Op>>, BTreeMap<String, u64>) {
    let results: Vec<_> = std::thread::scope(|sc| {
        let hs: Vec<_> = (0..threads)
            .map(|t| {
                sc.spawn(move || {
                    let mut lean = Lean::spawn(driver);
                    let (mut n, mut nontriv, mut failing, mut counters) = (0u64, vec![], vec![], BTreeMap::<String, u64>::new());
                    let total = alpha.len().pow(len as u32);
                    let mut code = t;
                    while code < total {
                        let mut c = code;
                        let mut h = Vec::with_capacity(len);
                        // the entry point of every operation: a generator of its own per history (reproducible
                        // whatever the number of workers)
                        let mut via = Rng::new(seed ^ (code as u64).wrapping_mul(0x9E37_79B9_7F4A_7C15));
                        for _ in 0..len {
                            h.push(alpha[c % alpha.len()].clone().via_random(&mut via));
                            c /= alpha.len();
                        }
                        let o = run_history(&h, &mut lean);
                        n += 1;
                        *counters.entry("operations".into()).or_insert(0) += o.labels.len() as u64;
                        *counters.entry("payloads forwarded".into()).or_insert(0) += o.forwarded;
                        *counters.entry("outbound payloads accepted".into()).or_insert(0) += o.encrypted;
                        *counters.entry("packets refused: unauthorised".into()).or_insert(0) += o.refused_unauth;
                        *counters.entry("handshakes completed".into()).or_insert(0) += o.handshakes_ok;
                        for (k, v) in &o.kinds {
                            *counters.entry(k.clone()).or_insert(0) += v;
                        }
                        if (o.forwarded + o.encrypted) > 0 && o.refused_unauth > 0 {
                            nontriv.push(hist_line(&h));
                        }
                        if (o.disagree.is_some() || !o.spec.is_empty()) && failing.len() < 10 {
                            failing.push(h);
                        }
                        code += threads;
                    }
                    (n, nontriv, failing, counters)
                })
            })
            .collect();
        hs.into_iter().map(|h| h.join().expect("worker")).collect()
    });
    let (mut n, mut nontriv, mut failing, mut counters) = (0u64, vec![], vec![], BTreeMap::<String, u64>::new());
    for (a, b, c, d) in results {
        n += a;
        nontriv.extend(b);
        failing.extend(c);
        for (k, v) in d {
            *counters.entry(k).or_insert(0) += v;
        }
    }
    (n, nontriv, failing, counters)
}

fn alphabet_small() -> Vec<Op> {
    let mut v = vec![Op::Adv(1), Op::Adv(2), Op::Purge, Op::Tick];
    for k in 0..NK {
        for i in 0..NI {
            for life in [1u64, 3] {
                v.push(Op::Reg { k, i, life });
            }
        }
    }
    for a in 0..NA {
        v.push(Op::Dout { a });
        for i in 0..NI {
            v.push(Op::Hs { a, i });
            v.push(Op::Din { a, i });
            v.push(Op::Fhs { a, i });
        }
    }
    v
}

fn gen_random(rng: &mut Rng, maxlen: usize) -> Vec<Op> {
    let n = rng.range(3, maxlen as u64) as usize;
    let mut v = Vec::with_capacity(n);
    // bias: a "hot" identity / address / key so that histories build up interesting state
    let hot_i = rng.below(NI);
    let hot_a = rng.below(NA);
    for _ in 0..n {
        let i = if rng.chance(1, 2) { hot_i } else { rng.below(NI) };
        let a = if rng.chance(1, 2) { hot_a } else { rng.below(NA) };
        let k = rng.below(NK);
        let op = match rng.below(100) {
            0..=17 => Op::Reg { k, i, life: *rng.pick(&[0, 1, 2, 3, 5, 8]) },
            18..=29 => Op::Adv(*rng.pick(&[1, 1, 2, 3])),
            30..=35 => Op::Purge,
            36..=50 => Op::Hs { a, i },
            51..=68 => Op::Din { a, i },
            69..=80 => Op::Dout { a },
            81..=84 => Op::Rdin { a, i },
            85..=88 => Op::Rhs { a, i, src: rng.below(NA) },
            89..=92 => Op::Dinx { a, i, src: rng.below(NA) },
            93..=94 => Op::Junk { a },
            95..=96 => Op::Fhs { a, i },
            _ => Op::Tick,
        };
        v.push(op.via_random(rng));
    }
    v
}

/// scenarios named in the property text
fn directed() -> Vec<(&'static str, &'static str)> {
    vec![
        ("happy", "reg 0 0 5; hs 0 0; din 0 0; dout 0; din 0 0"),
        ("lapse-between-handshake-and-first-data", "reg 0 0 2; hs 0 0; adv 2; din 0 0; dout 0"),
        ("one-tick-before-expiry", "reg 0 0 3; hs 0 0; adv 2; din 0 0; dout 0; adv 1; din 0 0; dout 0"),
        ("reregister-shorter", "reg 0 0 8; hs 0 0; din 0 0; reg 0 0 1; adv 1; din 0 0; dout 0"),
        ("reregister-after-lapse", "reg 0 0 1; hs 0 0; din 0 0; adv 1; din 0 0; reg 0 0 5; din 0 0; dout 0"),
        ("superseded-same-key", "reg 0 0 8; hs 0 0; din 0 0; reg 0 1 8; din 0 0; dout 0; hs 1 1; din 1 1"),
        ("identity-moved-to-other-key", "reg 0 0 8; reg 1 0 2; adv 2; hs 0 0; reg 0 1 5; hs 0 1; din 0 1"),
        ("second-client-same-address", "reg 0 0 8; reg 1 1 8; hs 0 0; din 0 0; hs 0 1; din 0 1; din 0 0; dout 0"),
        ("second-client-other-address", "reg 0 0 8; reg 1 1 8; hs 0 0; hs 1 1; din 0 0; din 1 1; dinx 1 0 0; dinx 0 1 1; dout 0; dout 1"),
        ("lapsed-tunnel-blocks-address", "reg 0 0 1; reg 1 1 8; hs 0 0; adv 1; hs 0 1; din 0 1; purge; hs 0 1"),
        ("replayed-handshake-other-address", "reg 0 0 8; hs 0 0; din 0 0; rhs 1 0 0; dout 1; din 1 0; rdin 0 0"),
        ("queued-outbound-then-lapse", "reg 0 0 2; hs 0 0; dout 0; dout 0; adv 2; din 0 0; reg 0 0 3; din 0 0"),
        ("forged-handshake-creates-entry", "reg 0 0 8; reg 1 1 8; fhs 0 0; dout 0; hs 0 1; hs 0 0; din 0 0; fhs 1 2; fhs 0 1"),
        ("zero-lifetime", "reg 0 0 0; hs 0 0; dout 0; purge"),
        ("purge-then-traffic", "reg 0 0 1; hs 0 0; din 0 0; adv 1; purge; din 0 0; dout 0; tick"),
    ]
}

fn shrink(ops: &[Op], lean: &mut Lean, fails: &dyn Fn(&Outcome) -> bool) -> Vec<Op> {
    let mut cur = ops.to_vec();
    let mut budget = 150;
    let mut chunk = (cur.len() / 2).max(1);
    while budget > 0 {
        let mut progressed = false;
        let mut i = 0;
        while i < cur.len() && budget > 0 {
            let mut cand = cur.clone();
            let end = (i + chunk).min(cand.len());
            cand.drain(i..end);
            budget -= 1;
            if !cand.is_empty() && fails(&run_history(&cand, lean)) {
                cur = cand;
                progressed = true;
            } else {
                i += chunk;
            }
        }
        if chunk == 1 && !progressed {
            break;
        }
        chunk = (chunk / 2).max(1);
    }
    cur
}

fn main() {
    let args = Args::parse();
    quiet_panics();
    let mut lean = Lean::spawn(&args.driver);
    let mut rng = Rng::new(args.seed);
    let mut rep = Report::new(
        "C09",
        "case = operation history (register / clock advance / purge / handshake / data in / data out / replay / junk / tick; \
         every datagram and outbound payload through one of the two public entry points of SnapTunServer - \
         handle_*_packet_with_session or the wrapper handle_*_packet - named in the history as `plain <op>`) \
         applied to the real IdentityRegistry + SnapTunServer + gotatun Tunn clients and to the Lean model, compared after \
         every operation (outcome, network output, tunnel table, association map, registrations, verdicts). Non-trivial = \
         at least one payload forwarded or encrypted AND at least one packet refused for lack of authorisation (full-system \
         histories), or at least two registrations (registry-only enumeration); distinct by hash of the operation list. Stream conc: case = one \
         schedule (real threads released together on one real IdentityRegistry) of a scenario `prefix || concurrent updates`, \
         checked for linearisability against every sequential order computed by the Lean model; non-trivial = the concurrent \
         updates have at least two distinct sequential results (order-sensitive); distinct by scenario (lost updates show for \
         order-insensitive sets too)",
    );
    // ---- tie: the public functions of `impl SnapTunServer` (regenerated from server.rs by the translator, reported by
    // the model driver together with the role the model gives each) are exactly the ones this harness drives
    {
        let want = DRIVEN.iter().map(|(n, r)| format!("{n}={r}")).collect::<Vec<_>>().join(" ");
        let got = lean.ask("entrypoints");
        if lean.differs(&got, &want) {
            rep.disagree("entry-points", json!({"line": "entrypoints", "note": "pub fn of impl SnapTunServer (source, via translator + model driver) vs. the entry points the harness drives"}), &want, &got);
        }
        rep.hit_n("public functions of SnapTunServer driven", DRIVEN.len() as u64);
    }
    let mut histories: Vec<(String, Vec<Op>)> = vec![];
    let mut conc_corpus: Vec<Scenario> = vec![];
    let mut conc_replay: Vec<Scenario> = vec![];
    // `--only conc` (never passed by bin/check): just the concurrent stream, for measuring it
    let only_conc = args.extra.get("only").is_some_and(|v| v == "conc");
    for l in read_corpus(&args.corpus) {
        if l.starts_with("conc:") {
            match Scenario::parse(&l) {
                Some(sc) => conc_corpus.push(sc),
                None => rep.notes.push(format!("unparseable corpus line: {}", &l[..l.len().min(60)])),
            }
            continue;
        }
        match parse_hist(&l) {
            Some(h) => histories.push(("corpus".into(), h)),
            None => rep.notes.push(format!("unparseable corpus line: {}", &l[..l.len().min(60)])),
        }
    }
    rep.hit_n("corpus histories", histories.len() as u64);
    if let Some(p) = &args.replay {
        let txt = std::fs::read_to_string(p).expect("replay file");
        conc_replay = txt.lines().filter(|l| l.trim().starts_with("conc:")).filter_map(Scenario::parse).collect();
        histories = txt.lines().filter(|l| !l.trim().is_empty() && !l.starts_with('#') && !l.trim().starts_with("conc:")).filter_map(parse_hist).map(|h| ("replay".to_string(), h)).collect();
    } else if only_conc {
        histories.clear();
    } else {
        for (name, h) in directed() {
            // through the _with_session functions, through the compatibility wrappers, and through a random mix
            let h = parse_hist(h).expect("directed history");
            histories.push((format!("directed:{name}"), h.clone()));
            histories.push((format!("directed:{name}:plain"), h.iter().cloned().map(Op::plain).collect()));
            histories.push((format!("directed:{name}:mixed"), h.into_iter().map(|o| o.via_random(&mut rng)).collect()));
        }
        // exhaustive short histories over the small alphabet (2 keys x 3 identities x 2 addresses)
        let alpha = alphabet_small();
        let exh = args.scale(2, 3);
        let mut idx = vec![0usize; 1];
        loop {
            histories.push(("exhaustive".into(), idx.iter().map(|&x| alpha[x].clone().via_random(&mut rng)).collect()));
            // next index vector (all lengths 1..=exh)
            let mut p = idx.len();
            loop {
                if p == 0 {
                    idx = vec![0; idx.len() + 1];
                    break;
                }
                p -= 1;
                if idx[p] + 1 < alpha.len() {
                    idx[p] += 1;
                    for q in idx.iter_mut().skip(p + 1) {
                        *q = 0;
                    }
                    break;
                }
            }
            if idx.len() > exh {
                break;
            }
        }
        // thorough: every history of exactly exh+1 operations, in parallel; failures are re-run (and shrunk) below
        if args.thorough() {
            let (n, nontriv, failing, counters) = exhaustive_parallel(&alpha, exh + 1, &args.driver, 14, args.seed);
            for l in &nontriv {
                rep.case(l, true);
            }
            for _ in 0..(n - nontriv.len() as u64) {
                rep.case("", false);
            }
            rep.traces += n;
            rep.hit_n("history exhaustive (parallel, length 4)", n);
            for (k, v) in counters {
                rep.hit_n(&k, v);
            }
            for h in failing {
                histories.push(("exhaustive".into(), h));
            }
        }
        // sampled histories of length exh+1 ..= 6 over the same alphabet
        for _ in 0..args.scale(3000, 100000) {
            let n = rng.range(exh as u64 + 1, 6) as usize;
            histories.push(("sampled".into(), (0..n).map(|_| rng.pick(&alpha).clone().via_random(&mut rng)).collect()));
        }
        // long random histories, all operation kinds
        for _ in 0..args.scale(200, 8000) {
            histories.push(("random".into(), gen_random(&mut rng, 150)));
        }
    }
    for (kind, h) in &histories {
        let o = run_history(h, &mut lean);
        let nontrivial = (o.forwarded + o.encrypted) > 0 && o.refused_unauth > 0;
        rep.case(&hist_line(h), nontrivial);
        rep.traces += 1;
        rep.hit(&format!("history {}", kind.split(':').next().unwrap()));
        rep.hit_n("operations", o.labels.len() as u64);
        rep.hit_n("payloads forwarded", o.forwarded);
        rep.hit_n("outbound payloads accepted", o.encrypted);
        rep.hit_n("packets refused: unauthorised", o.refused_unauth);
        rep.hit_n("handshakes completed", o.handshakes_ok);
        for (k, n) in &o.kinds {
            rep.hit_n(k, *n);
        }
        if o.kinds.contains_key("server data nobody could decrypt") && rep.notes.len() < 3 {
            let small = shrink(h, &mut lean, &|o: &Outcome| o.kinds.contains_key("server data nobody could decrypt"));
            rep.notes.push(format!("server data no harness client could decrypt (compared as data:?): {}", hist_line(&small)));
        }
        if (nontrivial && h.len() <= 8) || args.replay.is_some() {
            rep.sample(json!({"kind": kind, "history": hist_line(h), "trace": o.labels}));
        }
        if let Some((i, im, mo)) = &o.disagree {
            let small = shrink(h, &mut lean, &|o: &Outcome| o.disagree.is_some());
            let o2 = run_history(&small, &mut lean);
            let (i2, im2, mo2) = o2.disagree.clone().unwrap_or((*i, im.clone(), mo.clone()));
            rep.disagree("system", json!({"line": hist_line(&small), "op": i2, "trace": o2.labels}), &im2, &mo2);
        }
        let mut seen = std::collections::HashSet::new();
        for (key, what) in &o.spec {
            if !seen.insert(key.clone()) {
                continue;
            }
            let k = key.clone();
            let small = shrink(h, &mut lean, &|o: &Outcome| o.spec.iter().any(|(kk, _)| *kk == k));
            rep.spec_fail(key, what, json!({"line": hist_line(&small), "kind": kind}));
        }
    }
    if args.replay.is_none() {
        if !only_conc {
            registry_dfs(args.scale(4, 5), &mut lean, &mut rep);
        }
        conc_stream(&args, &mut rng, &mut lean, &mut rep, &conc_corpus);
        observe_huge_lifetime(&mut rep);
    } else {
        // a concurrent case is schedule-dependent: replay = many schedules of the stored scenario
        let ballast: usize = args.extra.get("ballast").and_then(|v| v.parse().ok()).unwrap_or(24);
        let mut st = ConcStats { rounds: 0, failures: 0 };
        for sc in &conc_replay {
            conc_scenario(sc, 5000, ballast, "replay", &mut lean, &mut rep, &mut st);
            rep.sample(json!({"kind": "conc replay", "scenario": sc.line(), "schedules": st.rounds, "violating": st.failures}));
        }
    }
    rep.exhaustive = args.replay.is_none();
    rep.write(&args.out);
    std::process::exit(if rep.ok() { 0 } else { 1 });
}
