//! C10 — correspondence + spec oracle for `SnapTokenVerifier::verify` (snap-control) and the granted lifetime.
//!
//! A case is a *token recipe*: header members, payload members (time claims relative to "now"), who signs
//! what, and string-level post-mutations (signature bit flips, base64 variants, segment surgery) — or a raw
//! string.  The recipe is rendered at the current second, given to the real verifier (static key, or static
//! key + a real `JwksKeyStore` fed by a loop-back JWKS endpoint) and, parsed by the harness' own minimal JWT
//! reader (own splitter, own base64url decoder, duplicate-preserving JSON member list; Ed25519 checked
//! directly with ed25519-dalek), to the Lean model (`drv_token`).  Compared: `ok <ver> <exp>` | `err <class>`.
//! Spec oracle (independent of the model), on the implementation's verdict: the property's conjuncts
//! (EdDSA, signature under the trusted key, supported version with all its claims well-typed, audience,
//! not-before, expiry with the library's leeway) computed directly from the parsed token:
//! accepted ⇒ all hold (`C10:accepted:<conjunct>`), all hold ⇒ accepted (`C10:rejected-valid`),
//! never panics (`C10:panic`).  Granted lifetime: the REAL `register_snaptun_identity_handler` is run on the claims
//! `verify` returned (hook `snap_control::api::crpc::verif::register_snaptun_identity`), with a recording
//! `SnapTunIdentityRegistry` (the `lifetime` argument is observed: `C10:lifetime:exceeds-remaining` when call start +
//! lifetime > exp) and with the real `IdentityRegistry` (stored expiry instant via `verif_snapshot`:
//! `C10:lifetime:registry-expiry-exceeds-remaining`); both are bracketed by the model's `lifetime` at the clock
//! values before and after the call.
//! Stream `replay-over-time` (section "replay-over-time" below): ONE long-lived verifier per construction (static key /
//! static key + JWKS store) and the running router's own verifier are shown byte-identical token strings again and
//! again while the real clock passes exp + leeway / nbf - leeway; every presentation is judged by the same conjuncts at
//! the second it happened in and compared with a verifier constructed for that presentation (`C10:over-time:*`).  The
//! waiting (about 8 s) is shared with the other streams' work.
use std::{
    str::FromStr,
    sync::Arc,
    time::{Duration, Instant, SystemTime, UNIX_EPOCH},
};

use base64::Engine;
use ed25519_dalek::{Signature, Signer, SigningKey, Verifier, VerifyingKey};
use jsonwebtoken::{DecodingKey, errors::ErrorKind};
use serde::{Deserialize, Serialize};
use serde_json::{Value, json};
use sha2::{Digest, Sha256};
use snap_control::server::{
    jwks_key_store::JwksKeyStore,
    token_verifier::{SnapTokenVerifier, SnapTokenVerifyError},
};
use snap_tokens::AnyClaims;
use verif_harness::*;

const K_STATIC: usize = 0;
const K_OTHER: usize = 1;
const K_JWKS: usize = 2;
/// a JWKS entry that is not an Ed25519 key (kty EC): `EdDSAVerifier::new` refuses it
const K_EC: usize = 3;
/// second JWKS entry of kid `dup-key` (the first one is K_OTHER): `JwksKeyStore::do_fetch` lets the later entry win
const K_DUP: usize = 4;
/// OKP/Ed25519 JWKS entry declared `"use": "enc"`
const K_ENC: usize = 5;
/// OKP/Ed25519 JWKS entry declared `"alg": "ES256"`
const K_MIS: usize = 6;
const N_KEYS: usize = 7;
const JWKS_KID: &str = "ssr-key-1";
const JWKS_EC_KID: &str = "ec-key";
const JWKS_DUP_KID: &str = "dup-key";
const JWKS_ENC_KID: &str = "enc-key";
const JWKS_MIS_KID: &str = "mislabelled-key";
/// the served JWKS document in order: (kid, key id)
const JWKS_DOC: &[(Option<&str>, usize)] = &[
    (Some(JWKS_KID), K_JWKS),
    (Some(JWKS_EC_KID), K_EC),
    (None, K_OTHER),
    (Some(JWKS_DUP_KID), K_OTHER),
    (Some(JWKS_DUP_KID), K_DUP),
    (Some(JWKS_ENC_KID), K_ENC),
    (Some(JWKS_MIS_KID), K_MIS),
];

// ------------------------------------------------------------------------------------------------
// recipes
// ------------------------------------------------------------------------------------------------

/// a JSON member value: raw JSON text, or a time relative to the second the token is rendered in
#[derive(Clone, Debug, Serialize, Deserialize, PartialEq)]
enum V {
    Raw(String),
    /// now + offset, as an integer
    T(i64),
    /// now + offset followed by a literal suffix (".0", ".5", "e0")
    TF(i64, String),
}

#[derive(Clone, Debug, Serialize, Deserialize, PartialEq)]
enum Hdr {
    /// members (name, raw JSON text of the value)
    Obj(Vec<(String, String)>),
    /// raw JSON text
    Text(String),
    /// raw segment text (not encoded by the harness)
    B64(String),
}

#[derive(Clone, Debug, Serialize, Deserialize, PartialEq)]
enum Pay {
    Obj(Vec<(String, V)>),
    Text(String),
    B64(String),
}

#[derive(Clone, Debug, Serialize, Deserialize, PartialEq)]
enum Sign {
    /// Ed25519 signature by key #i over `header.payload`
    Key(usize),
    /// HMAC-SHA256 with the static *public* key bytes as secret (algorithm confusion)
    HmacPub,
    Empty,
    /// 64 pseudo-random bytes
    Random(u64),
    /// Ed25519 signature by key #i over another header/payload (splice)
    Over(Hdr, Pay, usize),
}

#[derive(Clone, Debug, Serialize, Deserialize, PartialEq)]
enum Post {
    SigFlip(usize),
    SigTrunc(usize),
    SigAppend(usize),
    /// append n '=' to segment
    Pad(usize, usize),
    /// url-safe alphabet -> standard alphabet in segment
    Std(usize),
    /// make the last symbol of the segment non-canonical (non-zero trailing bits)
    Trail(usize),
    /// append a newline to segment
    Ws(usize),
    Wrap(String, String),
    AddSeg(String),
    DropSeg(usize),
    ReplaceSeg(usize, String),
}

#[derive(Clone, Debug, Serialize, Deserialize)]
struct Case {
    kind: String,
    /// verifier with a JWKS store (true) or static key only (false)
    jwks: bool,
    raw: Option<String>,
    hdr: Hdr,
    pay: Pay,
    sign: Sign,
    post: Vec<Post>,
}

fn b64(b: &[u8]) -> String {
    base64::engine::general_purpose::URL_SAFE_NO_PAD.encode(b)
}

fn render_v(v: &V, now: u64) -> String {
    match v {
        V::Raw(s) => s.clone(),
        V::T(o) => format!("{}", now as i64 + o),
        V::TF(o, suf) => format!("{}{}", now as i64 + o, suf),
    }
}
fn jstr(s: &str) -> String {
    serde_json::to_string(s).unwrap()
}
fn render_hdr(h: &Hdr) -> String {
    match h {
        Hdr::Obj(ms) => b64(format!("{{{}}}", ms.iter().map(|(k, v)| format!("{}:{}", jstr(k), v)).collect::<Vec<_>>().join(",")).as_bytes()),
        Hdr::Text(t) => b64(t.as_bytes()),
        Hdr::B64(s) => s.clone(),
    }
}
fn render_pay(p: &Pay, now: u64) -> String {
    match p {
        Pay::Obj(ms) => b64(format!("{{{}}}", ms.iter().map(|(k, v)| format!("{}:{}", jstr(k), render_v(v, now))).collect::<Vec<_>>().join(",")).as_bytes()),
        Pay::Text(t) => b64(t.as_bytes()),
        Pay::B64(s) => s.clone(),
    }
}

fn hmac_sha256(key: &[u8], msg: &[u8]) -> Vec<u8> {
    let mut k = [0u8; 64];
    if key.len() > 64 {
        k[..32].copy_from_slice(&Sha256::digest(key));
    } else {
        k[..key.len()].copy_from_slice(key);
    }
    let mut i = Sha256::new();
    i.update(k.iter().map(|b| b ^ 0x36).collect::<Vec<u8>>());
    i.update(msg);
    let inner = i.finalize();
    let mut o = Sha256::new();
    o.update(k.iter().map(|b| b ^ 0x5c).collect::<Vec<u8>>());
    o.update(inner);
    o.finalize().to_vec()
}

struct Env {
    sk: Vec<SigningKey>,
    vk: Vec<VerifyingKey>,
    rt: tokio::runtime::Runtime,
    ver_static: SnapTokenVerifier,
    ver_jwks: Option<SnapTokenVerifier>,
    /// what the verifiers are constructed from (further instances: the long-lived ones of the over-time stream and
    /// the fresh ones they are compared with)
    static_dk: DecodingKey,
    store: Option<Arc<JwksKeyStore>>,
    leeway: u64,
}

/// a verifier instance that has never seen a token: static key only, or static key + the (shared) JWKS store
fn new_verifier(env: &Env, jwks: bool) -> SnapTokenVerifier {
    let v = SnapTokenVerifier::new(env.static_dk.clone());
    match (&env.store, jwks) {
        (Some(s), true) => v.with_jwks_store(s.clone()),
        _ => v,
    }
}

fn render(c: &Case, env: &Env, now: u64) -> String {
    if let Some(r) = &c.raw {
        return r.clone();
    }
    let h = render_hdr(&c.hdr);
    let p = render_pay(&c.pay, now);
    let msg = format!("{h}.{p}");
    let sig: Vec<u8> = match &c.sign {
        Sign::Key(i) => env.sk[*i % env.sk.len()].sign(msg.as_bytes()).to_bytes().to_vec(),
        Sign::HmacPub => hmac_sha256(env.vk[K_STATIC].as_bytes(), msg.as_bytes()),
        Sign::Empty => vec![],
        Sign::Random(s) => Rng::new(*s).bytes(64),
        Sign::Over(h2, p2, i) => {
            let m2 = format!("{}.{}", render_hdr(h2), render_pay(p2, now));
            env.sk[*i % env.sk.len()].sign(m2.as_bytes()).to_bytes().to_vec()
        }
    };
    let mut segs: Vec<String> = vec![h, p, b64(&sig)];
    let mut sigb = sig;
    let mut pre = String::new();
    let mut suf = String::new();
    for m in &c.post {
        match m {
            Post::SigFlip(bit) => {
                if !sigb.is_empty() {
                    let n = sigb.len() * 8;
                    let b = bit % n;
                    sigb[b / 8] ^= 1 << (b % 8);
                    if segs.len() >= 3 {
                        segs[2] = b64(&sigb);
                    }
                }
            }
            Post::SigTrunc(n) => {
                let k = sigb.len().saturating_sub(*n);
                sigb.truncate(k);
                if segs.len() >= 3 {
                    segs[2] = b64(&sigb);
                }
            }
            Post::SigAppend(n) => {
                sigb.extend(std::iter::repeat(0u8).take(*n));
                if segs.len() >= 3 {
                    segs[2] = b64(&sigb);
                }
            }
            Post::Pad(s, n) => {
                if let Some(x) = segs.get_mut(*s) {
                    x.push_str(&"=".repeat(*n));
                }
            }
            Post::Std(s) => {
                if let Some(x) = segs.get_mut(*s) {
                    *x = x.replace('-', "+").replace('_', "/");
                }
            }
            Post::Trail(s) => {
                if let Some(x) = segs.get_mut(*s) {
                    if let Some(last) = x.pop() {
                        // next symbol in the alphabet: same leading bits, non-zero trailing bits (when there are any)
                        const AL: &[u8] = b"ABCDEFGHIJKLMNOPQRSTUVWXYZabcdefghijklmnopqrstuvwxyz0123456789-_";
                        let idx = AL.iter().position(|c| *c as char == last).unwrap_or(0);
                        x.push(AL[(idx + 1) % 64] as char);
                    }
                }
            }
            Post::Ws(s) => {
                if let Some(x) = segs.get_mut(*s) {
                    x.push('\n');
                }
            }
            Post::Wrap(a, b) => {
                pre = a.clone();
                suf = b.clone();
            }
            Post::AddSeg(s) => segs.push(s.clone()),
            Post::DropSeg(i) => {
                if *i < segs.len() {
                    segs.remove(*i);
                }
            }
            Post::ReplaceSeg(i, s) => {
                if let Some(x) = segs.get_mut(*i) {
                    *x = s.clone();
                }
            }
        }
    }
    format!("{pre}{}{suf}", segs.join("."))
}

// ------------------------------------------------------------------------------------------------
// the harness' own JWT reader
// ------------------------------------------------------------------------------------------------

/// strict base64url without padding (canonical trailing bits), written out here on purpose
fn b64url_decode(s: &str) -> Option<Vec<u8>> {
    let b = s.as_bytes();
    if b.len() % 4 == 1 {
        return None;
    }
    let mut out = Vec::with_capacity(b.len() * 3 / 4);
    let mut acc: u32 = 0;
    let mut bits = 0;
    for &c in b {
        let v = match c {
            b'A'..=b'Z' => c - b'A',
            b'a'..=b'z' => c - b'a' + 26,
            b'0'..=b'9' => c - b'0' + 52,
            b'-' => 62,
            b'_' => 63,
            _ => return None,
        } as u32;
        acc = (acc << 6) | v;
        bits += 6;
        if bits >= 8 {
            bits -= 8;
            out.push((acc >> bits) as u8);
            acc &= (1 << bits) - 1;
        }
    }
    if acc != 0 {
        return None;
    }
    Some(out)
}

/// JSON object members in document order, duplicates kept
struct Pairs(Vec<(String, Value)>);
impl<'de> Deserialize<'de> for Pairs {
    fn deserialize<D: serde::Deserializer<'de>>(d: D) -> Result<Self, D::Error> {
        struct Vis;
        impl<'de> serde::de::Visitor<'de> for Vis {
            type Value = Pairs;
            fn expecting(&self, f: &mut std::fmt::Formatter) -> std::fmt::Result {
                f.write_str("a JSON object")
            }
            fn visit_map<A: serde::de::MapAccess<'de>>(self, mut m: A) -> Result<Pairs, A::Error> {
                let mut v = vec![];
                while let Some((k, val)) = m.next_entry::<String, Value>()? {
                    v.push((k, val));
                }
                Ok(Pairs(v))
            }
        }
        d.deserialize_map(Vis)
    }
}

#[derive(Clone, Debug, PartialEq)]
enum JV {
    Null,
    Bool(bool),
    U(u64),
    I,
    D(u64),
    X,
    S(String),
    A(Vec<String>),
    M,
    /// object (true = empty)
    O(bool),
}
fn jv(v: &Value) -> JV {
    match v {
        Value::Null => JV::Null,
        Value::Bool(b) => JV::Bool(*b),
        Value::Number(n) => {
            if let Some(u) = n.as_u64() {
                JV::U(u)
            } else if n.is_i64() {
                JV::I
            } else {
                let f = n.as_f64().unwrap_or(f64::NAN);
                if f.is_finite() && f >= 0.0 && f < (u64::MAX as f64) { JV::D(f.round() as u64) } else { JV::X }
            }
        }
        Value::String(s) => JV::S(s.clone()),
        Value::Array(a) => {
            if a.iter().all(|x| x.is_string()) {
                JV::A(a.iter().map(|x| x.as_str().unwrap().to_string()).collect())
            } else {
                JV::M
            }
        }
        Value::Object(m) => JV::O(m.is_empty()),
    }
}
fn jv_enc(v: &JV) -> String {
    match v {
        JV::Null => "n".into(),
        JV::Bool(true) => "t".into(),
        JV::Bool(false) => "f".into(),
        JV::U(u) => format!("u{u}"),
        JV::I => "i".into(),
        JV::D(u) => format!("d{u}"),
        JV::X => "x".into(),
        JV::S(s) => format!("s{}", hex(s.as_bytes())),
        JV::A(l) => format!("a{}", l.iter().map(|s| hex(s.as_bytes())).collect::<Vec<_>>().join(",")),
        JV::M => "m".into(),
        JV::O(false) => "o".into(),
        JV::O(true) => "e".into(),
    }
}

#[derive(Clone, Debug)]
enum PPay {
    BadB64,
    BadJson,
    NonObj,
    Obj(Vec<(String, JV)>),
}

#[derive(Clone, Debug)]
struct Parsed {
    alg: String,
    kid: Option<String>,
    /// None: signature segment is not base64url; Some(keys under which it verifies)
    sig: Option<Vec<usize>>,
    pay: PPay,
}

/// what `jsonwebtoken::Header` (serde-derived, `extras: HashMap<String,String>` flattened) accepts
fn parse_header(bytes: &[u8]) -> Option<(String, Option<String>)> {
    let v: Value = serde_json::from_slice(bytes).ok()?;
    if !v.is_object() {
        return None;
    }
    let Pairs(ps) = serde_json::from_slice(bytes).ok()?;
    const OPT_STR: &[&str] = &["typ", "cty", "jku", "kid", "x5u", "x5t", "x5t#S256", "url", "nonce", "enc", "zip"];
    const OPT_STRS: &[&str] = &["x5c", "crit"];
    let mut seen: Vec<&str> = vec![];
    let mut alg = None;
    let mut kid = None;
    for (k, val) in &ps {
        let known = k == "alg" || k == "jwk" || OPT_STR.contains(&k.as_str()) || OPT_STRS.contains(&k.as_str());
        if known {
            if seen.contains(&k.as_str()) {
                return None;
            }
            seen.push(k.as_str());
        }
        if k == "alg" {
            alg = Some(val.as_str()?.to_string());
        } else if OPT_STR.contains(&k.as_str()) {
            match val {
                Value::Null => {}
                Value::String(s) => {
                    if k == "kid" {
                        kid = Some(s.clone());
                    }
                }
                _ => return None,
            }
        } else if OPT_STRS.contains(&k.as_str()) {
            match val {
                Value::Null => {}
                Value::Array(a) if a.iter().all(|x| x.is_string()) => {}
                _ => return None,
            }
        } else if k == "jwk" {
            if !val.is_null() && serde_json::from_value::<jsonwebtoken::jwk::Jwk>(val.clone()).is_err() {
                return None;
            }
        } else if !val.is_string() {
            return None;
        }
    }
    Some((alg?, kid))
}

fn parse_token(tok: &str, env: &Env) -> Option<Parsed> {
    let segs: Vec<&str> = tok.split('.').collect();
    if segs.len() != 3 {
        return None;
    }
    let hb = b64url_decode(segs[0])?;
    let (alg, kid) = parse_header(&hb)?;
    let msg = format!("{}.{}", segs[0], segs[1]);
    let sig = b64url_decode(segs[2]).map(|sb| {
        let mut oks = vec![];
        if let Ok(s) = Signature::from_slice(&sb) {
            for (i, vk) in env.vk.iter().enumerate() {
                if vk.verify(msg.as_bytes(), &s).is_ok() {
                    oks.push(i);
                }
            }
        }
        oks
    });
    let pay = match b64url_decode(segs[1]) {
        None => PPay::BadB64,
        Some(pb) => match serde_json::from_slice::<Value>(&pb) {
            Err(_) => PPay::BadJson,
            Ok(v) if !v.is_object() => PPay::NonObj,
            Ok(_) => match serde_json::from_slice::<Pairs>(&pb) {
                Ok(Pairs(ps)) => PPay::Obj(ps.iter().map(|(k, v)| (k.clone(), jv(v))).collect()),
                Err(_) => PPay::BadJson,
            },
        },
    };
    Some(Parsed { alg, kid, sig, pay })
}

// ------------------------------------------------------------------------------------------------
// implementation, model, spec
// ------------------------------------------------------------------------------------------------

fn now_secs() -> u64 {
    SystemTime::now().duration_since(UNIX_EPOCH).unwrap().as_secs()
}

fn impl_label(r: &Result<Result<AnyClaims, SnapTokenVerifyError>, String>) -> String {
    match r {
        Err(_) => "panic".into(),
        Ok(Ok(AnyClaims::V0(c))) => format!("ok 0 {}", c.exp),
        Ok(Ok(AnyClaims::V1(c))) => format!("ok 1 {}", c.exp),
        Ok(Err(SnapTokenVerifyError::HeaderDecodeError(_))) => "err header".into(),
        Ok(Err(SnapTokenVerifyError::UnknownKid(_))) => "err unknown_kid".into(),
        Ok(Err(SnapTokenVerifyError::VerificationFailed(e))) => {
            let l = match e.kind() {
                ErrorKind::InvalidToken => "invalid_token",
                ErrorKind::InvalidSignature => "invalid_signature",
                ErrorKind::InvalidAlgorithm => "invalid_algorithm",
                ErrorKind::InvalidKeyFormat | ErrorKind::InvalidEddsaKey => "invalid_key_format",
                ErrorKind::Base64(_) => "base64",
                ErrorKind::Json(_) | ErrorKind::Utf8(_) => "json",
                ErrorKind::MissingRequiredClaim(_) => "missing_required_claim",
                ErrorKind::InvalidClaimFormat(_) => "invalid_claim_format",
                ErrorKind::ExpiredSignature => "expired",
                ErrorKind::ImmatureSignature => "immature",
                ErrorKind::InvalidAudience => "invalid_audience",
                ErrorKind::InvalidIssuer => "invalid_issuer",
                ErrorKind::InvalidSubject => "invalid_subject",
                _ => "other",
            };
            format!("err {l}")
        }
    }
}

fn model_request(p: &Parsed, jwks: bool, now: u64) -> String {
    let jw = if jwks {
        // the document as served, in order; what the store makes of it is the model's `storeOfDocument`
        format!("J{}", JWKS_DOC.iter().map(|(k, id)| format!("{}={id}", k.map(|k| hex(k.as_bytes())).unwrap_or("~".into()))).collect::<Vec<_>>().join(";"))
    } else {
        "J-".to_string()
    };
    let kid = match &p.kid {
        None => "N".to_string(),
        Some(k) => format!("S{}", hex(k.as_bytes())),
    };
    let sig = match &p.sig {
        None => "B".to_string(),
        Some(l) => format!("G{}", l.iter().map(|i| i.to_string()).collect::<Vec<_>>().join(",")),
    };
    let pay = match &p.pay {
        PPay::BadB64 => "PB".to_string(),
        PPay::BadJson => "PJ".to_string(),
        PPay::NonObj => "PN".to_string(),
        PPay::Obj(ms) => {
            let mut s = "PO".to_string();
            for (k, v) in ms {
                s.push(' ');
                s.push_str(&hex(k.as_bytes()));
                s.push('=');
                s.push_str(&jv_enc(v));
            }
            s
        }
    };
    format!("v {now} K{K_STATIC} E0,1,2,4,5,6 {jw} A{} {kid} {sig} {pay}", hex(p.alg.as_bytes()))
}

fn last<'a>(ms: &'a [(String, JV)], k: &str) -> Option<&'a JV> {
    ms.iter().rev().find(|(n, _)| n == k).map(|(_, v)| v)
}

/// the property's conjuncts, computed directly; returns the violated ones
fn spec_violations(p: &Option<Parsed>, jwks: bool, now: u64, leeway: u64) -> Vec<(&'static str, String)> {
    let mut bad = vec![];
    let Some(p) = p else {
        return vec![("not-a-jwt", "the string is not three base64url segments with a JWT header".into())];
    };
    if p.alg != "EdDSA" {
        bad.push(("algorithm", format!("alg = {:?}", p.alg)));
    }
    let trusted: Option<usize> = match (&p.kid, jwks) {
        (Some(k), true) => {
            // "the JWKS-resolved key": the LAST entry of the served document with that kid
            JWKS_DOC.iter().rev().find(|(dk, _)| *dk == Some(k.as_str())).map(|(_, id)| *id)
        }
        _ => Some(K_STATIC),
    };
    match (trusted, &p.sig) {
        (None, _) => bad.push(("signature", format!("kid {:?} is not in the JWKS", p.kid))),
        (Some(K_EC), _) => bad.push(("signature", "the JWKS key of that kid is not an Ed25519 key".into())),
        (Some(_), None) => bad.push(("signature", "signature segment is not base64url".into())),
        (Some(k), Some(oks)) => {
            if !oks.contains(&k) {
                bad.push(("signature", format!("signature does not verify under trusted key #{k} (verifies under {oks:?})")));
            }
        }
    }
    let ms = match &p.pay {
        PPay::Obj(ms) => ms,
        other => {
            bad.push(("claims", format!("payload is {other:?}")));
            return bad;
        }
    };
    for k in ["exp", "nbf", "sub", "iss", "aud"] {
        if ms.iter().filter(|(n, _)| n == k).count() > 1 {
            bad.push(("claims", format!("registered claim {k} occurs more than once")));
        }
    }
    // jsonwebtoken's streaming claims reader gives up on a `sub` that is an array or object
    if matches!(last(ms, "sub"), Some(JV::A(_)) | Some(JV::M) | Some(JV::O(_))) {
        bad.push(("claims", format!("sub = {:?} is an array/object", last(ms, "sub"))));
    }
    let is_str = |k: &str| matches!(last(ms, k), Some(JV::S(_)));
    let is_u64 = |k: &str| matches!(last(ms, k), Some(JV::U(_)));
    match last(ms, "ver") {
        None => {
            match last(ms, "pssid") {
                Some(JV::S(s)) if snap_tokens::v0::Pssid::from_str(s).is_ok() => {}
                other => bad.push(("required-claim", format!("v0 pssid = {other:?}"))),
            }
            if !is_u64("exp") {
                bad.push(("required-claim", format!("v0 exp = {:?}", last(ms, "exp"))));
            }
            if !is_str("jti") {
                bad.push(("required-claim", format!("v0 jti = {:?}", last(ms, "jti"))));
            }
        }
        Some(JV::U(1)) => {
            match last(ms, "pssid") {
                Some(JV::S(s)) if serde_json::from_value::<snap_tokens::v1::Pssid>(Value::String(s.clone())).is_ok() => {}
                other => bad.push(("required-claim", format!("v1 pssid = {other:?}"))),
            }
            for k in ["iss", "aud", "jti"] {
                if !is_str(k) {
                    bad.push(("required-claim", format!("v1 {k} = {:?}", last(ms, k))));
                }
            }
            for k in ["exp", "nbf", "iat"] {
                if !is_u64(k) {
                    bad.push(("required-claim", format!("v1 {k} = {:?}", last(ms, k))));
                }
            }
        }
        Some(v) => bad.push(("version", format!("ver = {v:?}"))),
    }
    match last(ms, "aud") {
        Some(JV::S(s)) if s != "snap" => bad.push(("audience", format!("aud = {s:?}"))),
        Some(JV::A(l)) if !l.iter().any(|s| s == "snap") => bad.push(("audience", format!("aud = {l:?}"))),
        _ => {}
    }
    match last(ms, "nbf") {
        None => {}
        Some(JV::U(n)) | Some(JV::D(n)) => {
            if *n > now + leeway {
                bad.push(("not-before", format!("nbf = now{:+} > leeway {leeway}", *n as i128 - now as i128)));
            }
        }
        Some(v) => bad.push(("not-before", format!("nbf = {v:?} is not a time"))),
    }
    if let Some(JV::U(e)) = last(ms, "exp") {
        if (*e as u128) + (leeway as u128) < now as u128 {
            bad.push(("expiry", format!("exp = now{:+}, leeway {leeway}", *e as i128 - now as i128)));
        }
    }
    bad
}

// ------------------------------------------------------------------------------------------------
// the real registration handler on verified claims
// ------------------------------------------------------------------------------------------------

/// `SnapTunIdentityRegistry` that only records what the handler passes to `register`
#[derive(Default)]
struct RecRegistry {
    calls: std::sync::Mutex<Vec<(String, [u8; 32], Duration)>>,
}

impl snap_control::api::crpc::model::SnapTunIdentityRegistry for RecRegistry {
    fn register(&self, _now: Instant, key: &str, initiator_identity: [u8; 32], _psk_share: Option<[u8; 32]>, lifetime: Duration, _claims: &AnyClaims) -> anyhow::Result<bool> {
        self.calls.lock().unwrap().push((key.to_string(), initiator_identity, lifetime));
        Ok(true)
    }
    fn remove_expired(&self, _now: Instant) {}
}

const HANDLER_IDENTITY: [u8; 32] = [7u8; 32];

/// observation of one run of the real handler with a recording registry and one with the real registry
struct HandlerObs {
    exp: u64,
    jti: String,
    /// system clock (ns since the epoch) sampled immediately before / after the recording-registry call
    s0: u128,
    s1: u128,
    /// Err = the handler panicked
    rec_result: Result<Result<Vec<u8>, String>, String>,
    rec_calls: Vec<(String, [u8; 32], Duration)>,
    /// the same with the real `IdentityRegistry`: clocks before/after, result, snapshot after
    r_s0: u128,
    r_s1: u128,
    r_i0: Instant,
    r_i1: Instant,
    reg_result: Result<Result<Vec<u8>, String>, String>,
    reg_assoc: Vec<(String, [u8; 32])>,
    reg_sessions: Vec<([u8; 32], Instant)>,
}

fn sys_ns() -> u128 {
    SystemTime::now().duration_since(UNIX_EPOCH).unwrap().as_nanos()
}

fn run_handler(env: &Env, claims: &AnyClaims) -> HandlerObs {
    use snap_control::{api::crpc::verif::register_snaptun_identity, proto::anapaya::snap::v1::RegisterSnapTunIdentityRequest, server::identity_registry::IdentityRegistry};
    let exp = match claims {
        AnyClaims::V0(c) => c.exp,
        AnyClaims::V1(c) => c.exp,
    };
    let remote: std::net::SocketAddr = "127.0.0.1:4711".parse().unwrap();
    let req = || RegisterSnapTunIdentityRequest { initiator_static_x25519: HANDLER_IDENTITY.to_vec(), psk_share: vec![0u8; 32] };
    let rec = Arc::new(RecRegistry::default());
    let s0 = sys_ns();
    let rec_result = catch(|| env.rt.block_on(register_snaptun_identity(rec.clone(), claims.clone(), remote, req())));
    let s1 = sys_ns();
    let rec_calls = rec.calls.lock().unwrap().clone();
    let reg = Arc::new(IdentityRegistry::new());
    let (r_i0, r_s0) = (Instant::now(), sys_ns());
    let reg_result = catch(|| env.rt.block_on(register_snaptun_identity(reg.clone(), claims.clone(), remote, req())));
    let (r_s1, r_i1) = (sys_ns(), Instant::now());
    let (reg_assoc, reg_sessions) = reg.verif_snapshot();
    HandlerObs { exp, jti: claims.jti(), s0, s1, rec_result, rec_calls, r_s0, r_s1, r_i0, r_i1, reg_result, reg_assoc, reg_sessions }
}

/// model's `lifetime exp nowNs`: Some(Ok(d)) granted, Some(Err(false)) past, Some(Err(true)) panic; None = no driver
fn model_life(lean: &mut Lean, exp: u64, now_ns: u128) -> Option<Result<u128, bool>> {
    if !lean.enabled {
        return None;
    }
    let a = lean.ask(&format!("life {exp} {now_ns}"));
    if a == "none" {
        Some(Err(false))
    } else if a == "panic" {
        Some(Err(true))
    } else {
        a.strip_prefix("some ").and_then(|x| x.parse::<u128>().ok()).map(Ok)
    }
}

const PAST_MSG: &str = "expiration time is in the past";

/// (model disagreement, spec failures, distribution labels).  The handler reads the system clock at some
/// instant in [s0, s1]; the model's `lifetime` is evaluated at both ends: the observed lifetime must lie
/// between the two, "past" is allowed only if the model says past at s1, a registration only if the
/// model grants at s0.  Spec oracle (no model): s0 + lifetime <= exp, i.e. the lifetime handed to
/// `register` never exceeds what remained of the token when the call started.
fn judge_handler(h: &HandlerObs, lean: &mut Lean) -> (Option<String>, Vec<(String, String)>, Vec<String>) {
    let mut spec = vec![];
    let mut obs = vec![];
    let mut dis: Option<String> = None;
    let exp_ns = h.exp as u128 * 1_000_000_000;
    let hi = model_life(lean, h.exp, h.s0);
    let lo = model_life(lean, h.exp, h.s1);
    let mut differ = |m: String| {
        if dis.is_none() {
            dis = Some(m);
        }
    };
    match &h.rec_result {
        Err(p) => {
            obs.push("handler: panic (recording registry)".to_string());
            if h.rec_calls.len() > 0 {
                differ(format!("the handler called register and then panicked: {p}"));
            }
            if let Some(m) = hi {
                if m != Err(true) {
                    differ(format!("handler panicked ({p}), model lifetime {m:?}"));
                }
            }
        }
        Ok(Ok(_)) => {
            if h.rec_calls.len() != 1 {
                differ(format!("handler answered ok but called register {} times (model: exactly once)", h.rec_calls.len()));
            }
            for (key, id, life) in &h.rec_calls {
                let l = life.as_nanos();
                obs.push("handler: registered".to_string());
                if h.s0 + l > exp_ns {
                    spec.push((
                        "C10:lifetime:exceeds-remaining".into(),
                        format!("register was given lifetime {l} ns at a call that started {} ns after the epoch: ends {} ns after the token's exp = {}", h.s0, h.s0 + l - exp_ns, h.exp),
                    ));
                }
                match (hi, lo) {
                    (Some(Ok(d0)), Some(lo)) => {
                        let d1 = lo.unwrap_or(0);
                        if l > d0 || l < d1 {
                            differ(format!("lifetime: handler passed {l} ns, model {d1} ..= {d0} ns"));
                        }
                    }
                    (Some(m), _) => differ(format!("lifetime: handler registered {l} ns, model at call start {m:?}")),
                    _ => {}
                }
                if *key != h.jti {
                    differ(format!("handler registered under key {key:?}, token jti {:?}", h.jti));
                }
                if *id != HANDLER_IDENTITY {
                    differ("handler registered another identity than the request's".to_string());
                }
            }
        }
        Ok(Err(msg)) => {
            obs.push(format!("handler: refused ({})", if msg == PAST_MSG { "past" } else { "other" }));
            if !h.rec_calls.is_empty() {
                differ(format!("handler refused ({msg}) but called register {} times", h.rec_calls.len()));
            }
            if msg != PAST_MSG {
                differ(format!("handler refused with {msg:?}"));
            } else if let Some(Ok(d1)) = lo {
                differ(format!("handler said the expiry is in the past, model still grants {d1} ns at the end of the call"));
            }
        }
    }
    // the real registry: expiry instant actually stored
    let r_exp_ns = exp_ns;
    match &h.reg_result {
        Ok(Ok(_)) => {
            let sess = h.reg_sessions.iter().find(|(id, _)| *id == HANDLER_IDENTITY);
            let assoc_ok = h.reg_assoc.len() == 1 && h.reg_assoc[0] == (h.jti.clone(), HANDLER_IDENTITY);
            match sess {
                Some((_, e)) if assoc_ok && h.reg_sessions.len() == 1 => {
                    obs.push("handler: registered in the real IdentityRegistry".to_string());
                    // expiry relative to the instant sampled before the call
                    let rel = e.checked_duration_since(h.r_i0).map(|d| d.as_nanos()).unwrap_or(0);
                    let call = h.r_i1.duration_since(h.r_i0).as_nanos();
                    // remaining at call start; the handler samples SystemTime::now() and later Instant::now(), both inside the call
                    let remaining0 = r_exp_ns.saturating_sub(h.r_s0);
                    if rel > remaining0 + call {
                        spec.push((
                            "C10:lifetime:registry-expiry-exceeds-remaining".into(),
                            format!("IdentityRegistry holds an expiry {rel} ns after the call started, the token had {remaining0} ns left (call took {call} ns), exp = {}", h.exp),
                        ));
                    }
                    let remaining1 = r_exp_ns.saturating_sub(h.r_s1);
                    if lean.enabled && rel < remaining1 {
                        differ(format!("registry expiry {rel} ns after call start, model lifetime at call end {remaining1} ns"));
                    }
                }
                _ => differ(format!("handler ok but the registry holds {} associations / {} sessions", h.reg_assoc.len(), h.reg_sessions.len())),
            }
        }
        Ok(Err(_)) => {
            if !h.reg_sessions.is_empty() || !h.reg_assoc.is_empty() {
                differ("handler refused but the real registry holds a registration".to_string());
            }
        }
        Err(p) => {
            if h.rec_result.is_ok() {
                obs.push("observation: IdentityRegistry::register panics (Instant + lifetime overflow) on accepted claims".to_string());
                let _ = p;
            }
        }
    }
    (dis, spec, obs)
}

struct Outcome {
    token: String,
    now: u64,
    imp: String,
    model: String,
    parsed: bool,
    disagree: bool,
    spec: Vec<(String, String)>,
    glue: Option<String>,
    /// `exp_time()` of the accepted claims panicked (UNIX_EPOCH + exp overflows SystemTime)
    exp_time_panic: bool,
    /// what the real registration handler did with the accepted claims (distribution labels)
    handler_obs: Vec<String>,
}

fn run_case(c: &Case, env: &Env, lean: &mut Lean) -> Outcome {
    let verifier = if c.jwks { env.ver_jwks.as_ref().unwrap_or(&env.ver_static) } else { &env.ver_static };
    let jwks = c.jwks && env.ver_jwks.is_some();
    let mut tries = 0;
    loop {
        let t0 = now_secs();
        let tok = render(c, env, t0);
        let r = catch(|| env.rt.block_on(verifier.verify(&tok)));
        // the REAL `register_snaptun_identity_handler` (hook `api::crpc::verif::register_snaptun_identity`) on the
        // claims object `verify` returned: once with a recording registry (the `lifetime` argument of
        // `SnapTunIdentityRegistry::register` is observed directly), once with the real `IdentityRegistry`
        // (the stored expiry instant is observed through `verif_snapshot`)
        let grant = match &r {
            Ok(Ok(claims)) => Some(run_handler(env, claims)),
            _ => None,
        };
        let t1 = now_secs();
        tries += 1;
        if t1 != t0 && tries < 6 {
            continue; // the second ticked between rendering and verification: redo
        }
        let imp = impl_label(&r);
        let parsed = parse_token(&tok, env);
        let model = match &parsed {
            None => "err header".to_string(),
            Some(p) => lean.ask(&model_request(p, jwks, t0)),
        };
        let mut spec = vec![];
        if r.is_err() {
            spec.push(("C10:panic".to_string(), format!("verify panicked: {}", r.as_ref().err().unwrap())));
        }
        let viol = spec_violations(&parsed, jwks, t0, env.leeway);
        let accepted = matches!(r, Ok(Ok(_)));
        if accepted {
            if let Some((k, what)) = viol.first() {
                spec.push((format!("C10:accepted:{k}"), format!("token accepted although {what}")));
            }
        } else if viol.is_empty() && r.is_ok() {
            spec.push(("C10:rejected-valid".to_string(), format!("token satisfies every conjunct of the property but was refused: {imp}")));
        }
        let mut disagree = lean.differs(&model, &imp);
        let mut lifetime_note = None;
        let mut exp_time_panic = false;
        let mut handler_obs: Vec<String> = vec![];
        if let Some(h) = &grant {
            let (d, sp, obs) = judge_handler(h, lean);
            if let Some(n) = d {
                disagree = true;
                lifetime_note = Some(n);
            }
            spec.extend(sp);
            handler_obs = obs;
            exp_time_panic = h.rec_result.is_err();
        }
        // glue: the library's own idea of whether the header decodes
        let lib_hdr = jsonwebtoken::decode_header(&tok).is_ok();
        let mine = parsed.as_ref().map(|p| KNOWN_ALGS.contains(&p.alg.as_str())).unwrap_or(false);
        let glue = if lib_hdr != mine { Some(format!("decode_header ok={lib_hdr}, harness reader ok={mine}")) } else { None };
        let model = match lifetime_note { Some(n) => format!("{model} [{n}]"), None => model };
        return Outcome { token: tok, now: t0, imp, model, parsed: parsed.is_some(), disagree, spec, glue, exp_time_panic, handler_obs };
    }
}

const KNOWN_ALGS: &[&str] = &["HS256", "HS384", "HS512", "ES256", "ES384", "RS256", "RS384", "RS512", "PS256", "PS384", "PS512", "EdDSA"];

// ------------------------------------------------------------------------------------------------
// generators
// ------------------------------------------------------------------------------------------------

fn raw(s: &str) -> V {
    V::Raw(s.to_string())
}
fn q(s: &str) -> String {
    jstr(s)
}

fn uuid_of(rng: &mut Rng) -> String {
    let b = rng.bytes(16);
    let h = hex(&b);
    format!("{}-{}-{}-{}-{}", &h[0..8], &h[8..12], &h[12..16], &h[16..20], &h[20..32])
}
fn pssid1_of(rng: &mut Rng) -> String {
    let mut b = vec![0u8];
    b.extend(rng.bytes(16));
    b64(&b)
}

fn base_hdr(kid: Option<&str>) -> Vec<(String, String)> {
    let mut h = vec![("typ".to_string(), q("JWT")), ("alg".to_string(), q("EdDSA"))];
    if let Some(k) = kid {
        h.push(("kid".to_string(), q(k)));
    }
    h
}
fn base_v0(rng: &mut Rng) -> Vec<(String, V)> {
    let u = uuid_of(rng);
    vec![("pssid".into(), raw(&q(&u))), ("exp".into(), V::T(3600)), ("jti".into(), raw(&q(&u)))]
}
fn base_v1(rng: &mut Rng) -> Vec<(String, V)> {
    vec![
        ("ver".into(), raw("1")),
        ("iss".into(), raw(&q("ssr"))),
        ("aud".into(), raw(&q("snap"))),
        ("exp".into(), V::T(3600)),
        ("nbf".into(), V::T(-5)),
        ("iat".into(), V::T(-5)),
        ("jti".into(), raw(&q(&uuid_of(rng)))),
        ("pssid".into(), raw(&q(&pssid1_of(rng)))),
    ]
}

#[derive(Clone)]
struct Base {
    name: &'static str,
    jwks: bool,
    hdr: Vec<(String, String)>,
    pay: Vec<(String, V)>,
    key: usize,
}
impl Base {
    fn case(&self, kind: &str) -> Case {
        Case {
            kind: format!("{}/{}", self.name, kind),
            jwks: self.jwks,
            raw: None,
            hdr: Hdr::Obj(self.hdr.clone()),
            pay: Pay::Obj(self.pay.clone()),
            sign: Sign::Key(self.key),
            post: vec![],
        }
    }
}

fn bases(rng: &mut Rng, with_jwks: bool) -> Vec<Base> {
    let mut v = vec![
        Base { name: "v0", jwks: false, hdr: base_hdr(None), pay: base_v0(rng), key: K_STATIC },
        Base { name: "v1", jwks: false, hdr: base_hdr(None), pay: base_v1(rng), key: K_STATIC },
        Base { name: "v1+kid(static)", jwks: false, hdr: base_hdr(Some("some-kid")), pay: base_v1(rng), key: K_STATIC },
    ];
    if with_jwks {
        v.push(Base { name: "v1+kid(jwks)", jwks: true, hdr: base_hdr(Some(JWKS_KID)), pay: base_v1(rng), key: K_JWKS });
        v.push(Base { name: "v0(jwks-verifier)", jwks: true, hdr: base_hdr(None), pay: base_v0(rng), key: K_STATIC });
    }
    v
}

fn set<T: Clone>(ms: &[(String, T)], k: &str, v: T) -> Vec<(String, T)> {
    let mut out = ms.to_vec();
    match out.iter_mut().find(|(n, _)| n == k) {
        Some(e) => e.1 = v,
        None => out.push((k.to_string(), v)),
    }
    out
}
fn del<T: Clone>(ms: &[(String, T)], k: &str) -> Vec<(String, T)> {
    ms.iter().filter(|(n, _)| n != k).cloned().collect()
}

/// the value pool used for retyping / random edits of a claim
fn value_pool(rng: &mut Rng, l: i64) -> Vec<V> {
    let u = uuid_of(rng);
    let p1 = pssid1_of(rng);
    let uu = u.to_uppercase();
    let simple = u.replace('-', "");
    vec![
        raw("null"), raw("true"), raw("false"), raw("0"), raw("1"), raw("2"), raw("-1"), raw("1.0"), raw("1.5"), raw("1e3"),
        raw("18446744073709551615"), raw("18446744073709551616"), raw("9223372036854775807"), raw("9223372036854775808"), raw("1e400"), raw("-0"), raw("-0.0"), raw("0.4"),
        raw("\"\""), raw("\"snap\""), raw("\"SNAP\""), raw("\"other\""), raw("\"1\""), raw("\"ssr\""),
        raw("[]"), raw("[\"snap\"]"), raw("[\"other\"]"), raw("[\"other\",\"snap\"]"), raw("[\"snap\",1]"), raw("[1]"), raw("[[\"snap\"]]"),
        raw("{}"), raw("{\"a\":1}"),
        raw(&q(&u)), raw(&q(&uu)), raw(&q(&simple)), raw(&q(&format!("{{{u}}}"))), raw(&q(&format!("urn:uuid:{u}"))),
        raw(&q(&format!("{{{simple}}}"))), raw(&q(&u[..35])), raw(&q(&format!("{u}0"))), raw(&q(&u.replace('-', "_"))),
        raw(&q(&format!("{}g{}", &u[..5], &u[6..]))), raw(&q(&format!("{}é{}", &u[..5], &u[7..]))),
        raw(&q(&p1)), raw(&q(&p1[..22])), raw(&q(&format!("{p1}A"))), raw(&q(&format!("{p1}="))),
        raw(&q(&format!("B{}", &p1[1..]))), raw(&q(&format!("AQ{}", &p1[2..]))), raw(&q(&format!("AP{}", &p1[2..]))),
        raw(&q(&format!("{}B", &p1[..22]))), raw(&q(&format!("{}E", &p1[..22]))), raw(&q(&format!("{}+", &p1[..22]))),
        raw(&q(&p1.replace('-', "+").replace('_', "/"))),
        V::T(0), V::T(-1), V::T(1), V::T(l - 1), V::T(l), V::T(l + 1), V::T(l + 2), V::T(-l + 1), V::T(-l), V::T(-l - 1), V::T(-l - 2),
        V::T(3600), V::T(-3600), V::TF(0, ".0".into()), V::TF(l, ".4".into()), V::TF(l, ".5".into()), V::TF(l + 1, ".0".into()),
        V::TF(-l - 1, ".4".into()), V::TF(-l - 1, ".5".into()), V::TF(3600, "e0".into()), V::TF(-l, ".0".into()),
    ]
}

fn systematic(rng: &mut Rng, with_jwks: bool, thorough: bool, l: i64) -> Vec<Case> {
    let mut out = vec![];
    let bs = bases(rng, with_jwks);
    let pool = value_pool(rng, l);
    // the suspected defect of DESIGN §9 row 10, spelled out
    let b = &bs[1].clone();
    let mut c = b.case("probe nbf=now+3600");
    c.pay = Pay::Obj(set(&b.pay, "nbf", V::T(3600)));
    out.push(c);
    let b0 = &bs[0].clone();
    let mut c = b0.case("probe v0 nbf=now+3600");
    c.pay = Pay::Obj(set(&b0.pay, "nbf", V::T(3600)));
    out.push(c);
    // the registration handler's only panic site (`Token::exp_time`: exp > i64::MAX) and its neighbours; the lifetime
    // handed to the registry is then ~2^63 s
    for b in bs.iter().take(2) {
        for e in ["9223372036854775807", "9223372036854775808", "9223372036854775806", "4102444800"] {
            let mut c = b.case(&format!("probe exp={e}"));
            c.pay = Pay::Obj(set(&b.pay, "exp", raw(e)));
            out.push(c);
        }
    }
    // JWKS documents: duplicate kid (the later entry is the resolved key), `use: enc`, OKP key labelled ES256
    if with_jwks {
        if let Some(b) = bs.iter().find(|b| b.name == "v1+kid(jwks)") {
            for (kid, keys) in [(JWKS_DUP_KID, vec![K_OTHER, K_DUP, K_STATIC]), (JWKS_ENC_KID, vec![K_ENC, K_STATIC]), (JWKS_MIS_KID, vec![K_MIS, K_STATIC]), (JWKS_EC_KID, vec![K_STATIC, K_JWKS])] {
                for k in keys {
                    let mut c = b.case(&format!("jwks kid={kid} signed-by-key-{k}"));
                    c.hdr = Hdr::Obj(set(&b.hdr, "kid", q(kid)));
                    c.sign = Sign::Key(k);
                    out.push(c);
                }
            }
        }
    }
    for b in &bs {
        out.push(b.case("valid"));
        // ---- header: alg --------------------------------------------------------------------
        for alg in ["HS256", "HS384", "HS512", "ES256", "ES384", "RS256", "PS256", "none", "None", "NONE", "eddsa", "EDDSA", "Ed25519", ""] {
            for sign in [Sign::Key(b.key), Sign::HmacPub, Sign::Empty, Sign::Random(7)] {
                let mut c = b.case(&format!("alg={alg}/{}", match &sign { Sign::Key(_) => "ed-signed", Sign::HmacPub => "hmac(pubkey)", Sign::Empty => "empty-sig", _ => "random-sig" }));
                c.hdr = Hdr::Obj(set(&b.hdr, "alg", q(alg)));
                c.sign = sign;
                out.push(c);
            }
        }
        for (lbl, sign) in [("hmac(pubkey)", Sign::HmacPub), ("empty-sig", Sign::Empty), ("random-sig", Sign::Random(9)), ("other-key", Sign::Key(K_OTHER)), ("jwks-key", Sign::Key(K_JWKS)), ("static-key", Sign::Key(K_STATIC))] {
            let mut c = b.case(&format!("alg=EdDSA/{lbl}"));
            c.sign = sign;
            out.push(c);
        }
        for (lbl, v) in [("alg-number", "1"), ("alg-null", "null"), ("alg-array", "[\"EdDSA\"]")] {
            let mut c = b.case(lbl);
            c.hdr = Hdr::Obj(set(&b.hdr, "alg", v.to_string()));
            out.push(c);
        }
        {
            let mut c = b.case("alg-missing");
            c.hdr = Hdr::Obj(del(&b.hdr, "alg"));
            out.push(c);
            let mut c = b.case("alg-duplicate");
            let mut h = b.hdr.clone();
            h.push(("alg".into(), q("EdDSA")));
            c.hdr = Hdr::Obj(h);
            out.push(c);
        }
        // ---- header: typ / kid / other members ------------------------------------------------
        for (k, vals) in [
            ("typ", vec!["\"JWT\"", "\"jwt\"", "\"at+jwt\"", "\"\"", "null", "1", "[\"JWT\"]"]),
            ("kid", vec!["\"some-kid\"", "\"ssr-key-1\"", "\"ec-key\"", "\"unknown-kid\"", "\"\"", "null", "5", "[\"k\"]"]),
            ("cty", vec!["\"JWT\"", "7"]),
            ("crit", vec!["[\"exp\"]", "[\"b64\"]", "\"exp\"", "[1]"]),
            ("x5c", vec!["[]", "[\"AAAA\"]", "\"AAAA\""]),
            ("jwk", vec!["null", "{}", "{\"kty\":\"OKP\",\"crv\":\"Ed25519\",\"x\":\"AAAA\"}", "1"]),
            ("jku", vec!["\"http://127.0.0.1:1/jwks\"", "1"]),
            ("foo", vec!["\"bar\"", "1", "null", "{}"]),
            ("b64", vec!["false", "\"false\""]),
            ("zip", vec!["\"DEF\"", "1"]),
        ] {
            for v in vals {
                let mut c = b.case(&format!("hdr {k}={v}"));
                c.hdr = Hdr::Obj(set(&b.hdr, k, v.to_string()));
                out.push(c);
            }
            let mut c = b.case(&format!("hdr -{k}"));
            c.hdr = Hdr::Obj(del(&b.hdr, k));
            out.push(c);
        }
        for (lbl, t) in [("hdr-array", "[\"EdDSA\"]"), ("hdr-string", "\"EdDSA\""), ("hdr-empty-object", "{}"), ("hdr-not-json", "{alg:EdDSA}"), ("hdr-trailing", "{\"alg\":\"EdDSA\"} x"), ("hdr-ws", " {\"alg\" : \"EdDSA\"}\n")] {
            let mut c = b.case(lbl);
            c.hdr = Hdr::Text(t.to_string());
            out.push(c);
        }
        {
            let mut c = b.case("hdr-dup-kid");
            let mut h = b.hdr.clone();
            h.push(("kid".into(), q("a")));
            h.push(("kid".into(), q("b")));
            c.hdr = Hdr::Obj(h);
            out.push(c);
            let mut c = b.case("hdr-dup-extra");
            let mut h = b.hdr.clone();
            h.push(("foo".into(), q("a")));
            h.push(("foo".into(), q("b")));
            c.hdr = Hdr::Obj(h);
            out.push(c);
        }
        // ---- claims: remove / retype / retime -------------------------------------------------
        let names: Vec<String> = {
            let mut n: Vec<String> = b.pay.iter().map(|(k, _)| k.clone()).collect();
            for extra in ["ver", "aud", "nbf", "iat", "iss", "sub", "jti", "foo"] {
                if !n.iter().any(|x| x == extra) {
                    n.push(extra.to_string());
                }
            }
            n
        };
        for k in &names {
            if b.pay.iter().any(|(n, _)| n == k) {
                let mut c = b.case(&format!("-{k}"));
                c.pay = Pay::Obj(del(&b.pay, k));
                out.push(c);
            }
            for v in &pool {
                let mut c = b.case(&format!("{k}={}", match v { V::Raw(s) => s.clone(), V::T(o) => format!("now{o:+}"), V::TF(o, s) => format!("now{o:+}{s}") }));
                c.pay = Pay::Obj(set(&b.pay, k, v.clone()));
                out.push(c);
            }
            // duplicates: first/second position, same and different value
            for v in [V::T(3600), V::T(-3600), raw("\"snap\""), raw("\"other\""), raw("1"), raw("2")] {
                let mut ms = b.pay.clone();
                ms.push((k.clone(), v.clone()));
                let mut c = b.case(&format!("dup-last {k}"));
                c.pay = Pay::Obj(ms);
                out.push(c);
                let mut ms = vec![(k.clone(), v.clone())];
                ms.extend(b.pay.clone());
                let mut c = b.case(&format!("dup-first {k}"));
                c.pay = Pay::Obj(ms);
                out.push(c);
            }
        }
        // exp × nbf window grid
        for e in [-l - 2, -l - 1, -l, -l + 1, -1, 0, 1, 3600] {
            for n in [-3600i64, -1, 0, l - 1, l, l + 1, l + 2, 3600] {
                let mut c = b.case(&format!("window exp=now{e:+} nbf=now{n:+}"));
                c.pay = Pay::Obj(set(&set(&b.pay, "exp", V::T(e)), "nbf", V::T(n)));
                out.push(c);
            }
        }
        // ---- payload shape ---------------------------------------------------------------------
        let u = uuid_of(rng);
        for (lbl, t) in [
            ("payload-array(v0 field order)", format!("[{},9999999999,{}]", q(&u), q("j"))),
            ("payload-array(validation order)", "[9999999999,0,\"s\",\"i\",\"snap\"]".to_string()),
            ("payload-string", "\"x\"".to_string()),
            ("payload-number", "1".to_string()),
            ("payload-null", "null".to_string()),
            ("payload-empty-object", "{}".to_string()),
            ("payload-not-json", "{exp:1}".to_string()),
            ("payload-trailing", format!("{{\"pssid\":{},\"exp\":9999999999,\"jti\":\"j\"}} x", q(&u))),
            ("payload-ws", format!(" {{\"pssid\" : {} ,\n\"exp\":9999999999, \"jti\":\"j\"}}\n", q(&u))),
            ("payload-bom", format!("\u{feff}{{\"pssid\":{},\"exp\":9999999999,\"jti\":\"j\"}}", q(&u))),
            ("payload-escaped-names", format!("{{\"pss\\u0069d\":{},\"\\u0065xp\":9999999999,\"jti\":\"j\"}}", q(&u))),
            ("payload-escaped-aud", format!("{{\"pssid\":{},\"exp\":9999999999,\"jti\":\"j\",\"aud\":\"sn\\u0061p\"}}", q(&u))),
            ("payload-deep", format!("{{\"pssid\":{},\"exp\":9999999999,\"jti\":\"j\",\"x\":{}1{}}}", q(&u), "[".repeat(200), "]".repeat(200))),
        ] {
            let mut c = b.case(lbl);
            c.pay = Pay::Text(t);
            out.push(c);
        }
        {
            let mut c = b.case("payload-invalid-utf8");
            c.pay = Pay::B64(b64(b"{\"pssid\":\"\xff\",\"exp\":1}"));
            out.push(c);
            let mut c = b.case("payload-empty");
            c.pay = Pay::B64(String::new());
            out.push(c);
        }
        // ---- signature -------------------------------------------------------------------------
        let bits: Vec<usize> = if thorough { (0..512).collect() } else { vec![0, 1, 7, 8, 255, 256, 257, 503, 504, 510, 511] };
        for bit in bits {
            let mut c = b.case(&format!("sig-flip bit {bit}"));
            c.post = vec![Post::SigFlip(bit)];
            out.push(c);
        }
        for (lbl, p) in [
            ("sig-trunc1", vec![Post::SigTrunc(1)]), ("sig-trunc32", vec![Post::SigTrunc(32)]), ("sig-trunc64", vec![Post::SigTrunc(64)]),
            ("sig-append1", vec![Post::SigAppend(1)]), ("sig-append64", vec![Post::SigAppend(64)]),
        ] {
            let mut c = b.case(lbl);
            c.post = p;
            out.push(c);
        }
        // ---- splice between two valid tokens ------------------------------------------------------
        let other_pay = if b.name.starts_with("v0") { base_v0(rng) } else { base_v1(rng) };
        let other_hdr = set(&b.hdr, "typ", q("jwt"));
        for (lbl, hdr, pay, over_h, over_p) in [
            ("splice payload", b.hdr.clone(), other_pay.clone(), b.hdr.clone(), b.pay.clone()),
            ("splice header", other_hdr.clone(), b.pay.clone(), b.hdr.clone(), b.pay.clone()),
            ("splice signature", b.hdr.clone(), b.pay.clone(), other_hdr.clone(), other_pay.clone()),
            ("splice exp+1", b.hdr.clone(), set(&b.pay, "exp", V::T(3601)), b.hdr.clone(), b.pay.clone()),
        ] {
            let mut c = b.case(lbl);
            c.hdr = Hdr::Obj(hdr);
            c.pay = Pay::Obj(pay);
            c.sign = Sign::Over(Hdr::Obj(over_h), Pay::Obj(over_p), b.key);
            out.push(c);
        }
        // ---- base64 / segment surgery ---------------------------------------------------------------
        for seg in 0..3 {
            for (lbl, p) in [
                ("pad1", Post::Pad(seg, 1)), ("pad2", Post::Pad(seg, 2)), ("pad3", Post::Pad(seg, 3)), ("std-alphabet", Post::Std(seg)),
                ("noncanonical-trailing-bits", Post::Trail(seg)), ("newline", Post::Ws(seg)), ("drop", Post::DropSeg(seg)),
                ("empty", Post::ReplaceSeg(seg, String::new())), ("dot", Post::ReplaceSeg(seg, "a.b".into())),
                ("junk", Post::ReplaceSeg(seg, "!!!".into())), ("len1mod4", Post::ReplaceSeg(seg, "AAAAA".into())),
            ] {
                let mut c = b.case(&format!("seg{seg} {lbl}"));
                c.post = vec![p];
                out.push(c);
            }
        }
        for (lbl, p) in [
            ("leading-space", Post::Wrap(" ".into(), "".into())), ("trailing-space", Post::Wrap("".into(), " ".into())),
            ("bearer-prefix", Post::Wrap("Bearer ".into(), "".into())), ("trailing-dot", Post::Wrap("".into(), ".".into())),
            ("leading-dot", Post::Wrap(".".into(), "".into())), ("fourth-segment", Post::AddSeg("AAAA".into())), ("empty-fourth-segment", Post::AddSeg("".into())),
            ("trailing-newline", Post::Wrap("".into(), "\n".into())), ("nul", Post::Wrap("".into(), "\0".into())),
        ] {
            let mut c = b.case(&format!("token {lbl}"));
            c.post = vec![p];
            out.push(c);
        }
    }
    out
}

fn random_case(rng: &mut Rng, bs: &[Base], pool: &[V], l: i64) -> Case {
    let b = rng.pick(bs).clone();
    let mut c = b.case("random-edits");
    let mut pay = b.pay.clone();
    let mut hdr = b.hdr.clone();
    let names = ["ver", "iss", "aud", "exp", "nbf", "iat", "jti", "pssid", "sub", "foo"];
    let n = rng.range(1, 3);
    let mut label = vec![];
    for _ in 0..n {
        match rng.below(10) {
            0 => {
                let k = *rng.pick(&names);
                pay = del(&pay, k);
                label.push(format!("-{k}"));
            }
            1 => {
                let k = *rng.pick(&names);
                let v = rng.pick(pool).clone();
                if rng.chance(1, 2) {
                    pay.push((k.to_string(), v));
                } else {
                    pay.insert(0, (k.to_string(), v));
                }
                label.push(format!("dup {k}"));
            }
            2 => {
                let k = *rng.pick(&["alg", "typ", "kid", "foo"]);
                let v = *rng.pick(&["\"EdDSA\"", "\"HS256\"", "\"none\"", "\"JWT\"", "\"ssr-key-1\"", "\"ec-key\"", "\"zzz\"", "null", "1"]);
                hdr = set(&hdr, k, v.to_string());
                label.push(format!("hdr {k}"));
            }
            3 => {
                let k = *rng.pick(&["exp", "nbf", "iat"]);
                let o = *rng.pick(&[-3600i64, -2 * l, -l - 2, -l - 1, -l, -l + 1, -2, -1, 0, 1, 2, l - 2, l - 1, l, l + 1, l + 2, 2 * l, 3600]);
                pay = set(&pay, k, V::T(o));
                label.push(format!("{k}=now{o:+}"));
            }
            4 => {
                c.sign = rng.pick(&[Sign::Key(K_STATIC), Sign::Key(K_OTHER), Sign::Key(K_JWKS), Sign::HmacPub, Sign::Empty]).clone();
                label.push("signer".into());
            }
            5 => {
                c.post.push(rng.pick(&[Post::SigFlip(3), Post::Pad(1, 1), Post::Trail(2), Post::Trail(1), Post::Std(2), Post::Ws(0)]).clone());
                label.push("post".into());
            }
            _ => {
                let k = *rng.pick(&names);
                let v = rng.pick(pool).clone();
                pay = set(&pay, k, v);
                label.push(format!("{k}:=pool"));
            }
        }
    }
    rng.shuffle(&mut pay);
    c.kind = format!("{}/random[{}]", b.name, label.join(","));
    c.hdr = Hdr::Obj(hdr);
    c.pay = Pay::Obj(pay);
    c
}

fn random_string(rng: &mut Rng) -> Case {
    let n = rng.range(0, 80) as usize;
    let s: String = match rng.below(4) {
        0 => rng.bytes(n).iter().map(|b| (b % 95 + 32) as char).collect(),
        1 => {
            const AL: &[u8] = b"ABCDEFGHIJKLMNOPQRSTUVWXYZabcdefghijklmnopqrstuvwxyz0123456789-_..";
            rng.bytes(n).iter().map(|b| AL[*b as usize % AL.len()] as char).collect()
        }
        2 => String::from_utf8_lossy(&rng.bytes(n)).into_owned(),
        _ => {
            // three random base64url segments, the first one a random small JSON header
            let h = *rng.pick(&["{\"alg\":\"EdDSA\"}", "{\"alg\":\"none\"}", "{\"alg\":\"HS256\",\"typ\":\"JWT\"}", "{}", "[]"]);
            format!("{}.{}.{}", b64(h.as_bytes()), b64(&rng.bytes(n)), b64(&rng.bytes(64)))
        }
    };
    Case { kind: "random-string".into(), jwks: rng.chance(1, 3), raw: Some(s), hdr: Hdr::Text(String::new()), pay: Pay::Text(String::new()), sign: Sign::Empty, post: vec![] }
}

// ------------------------------------------------------------------------------------------------
// JWKS endpoint on the loop-back interface (feeds the real JwksKeyStore)
// ------------------------------------------------------------------------------------------------

async fn serve_jwks(listener: tokio::net::TcpListener, body: String) {
    use tokio::io::{AsyncReadExt, AsyncWriteExt};
    loop {
        let Ok((mut s, _)) = listener.accept().await else { return };
        let body = body.clone();
        tokio::spawn(async move {
            let mut buf = vec![0u8; 4096];
            let mut got = vec![];
            loop {
                match s.read(&mut buf).await {
                    Ok(0) | Err(_) => break,
                    Ok(n) => {
                        got.extend_from_slice(&buf[..n]);
                        if got.windows(4).any(|w| w == b"\r\n\r\n") {
                            break;
                        }
                    }
                }
            }
            let resp = format!("HTTP/1.1 200 OK\r\ncontent-type: application/json\r\ncontent-length: {}\r\nconnection: close\r\n\r\n{}", body.len(), body);
            let _ = s.write_all(resp.as_bytes()).await;
            let _ = s.shutdown().await;
        });
    }
}


// ------------------------------------------------------------------------------------------------
// end to end: the real control-plane router (AuthMiddleware + register_snaptun_identity_handler)
// ------------------------------------------------------------------------------------------------

/// A PocketSCION runtime with one SNAP: its control API is `snap_control::server::build_router` with the
/// `AuthMiddlewareLayer` around the Connect-RPC routes, verifier = static key (the repo's constant test key).
struct E2e {
    _rt: pocketscion::runtime::PocketScionRuntime,
    addr: std::net::SocketAddr,
}

fn start_e2e(env: &Env) -> Result<E2e, String> {
    use pocketscion::{
        network::scion::topology::{ScionAs, ScionTopologyBuilder},
        runtime::builder::PocketScionRuntimeBuilder,
        state::PocketScionState,
        util::topologies::IA132,
    };
    let r = catch(|| {
        env.rt.block_on(async {
            let mut pstate = PocketScionState::new(chrono::Utc::now());
            let mut topo = ScionTopologyBuilder::new();
            topo.add_as(ScionAs::new_core(IA132)).map_err(|e| format!("add_as: {e}"))?;
            pstate.set_topology(topo.build().map_err(|e| format!("topology: {e}"))?);
            let snap = pstate.add_snap(IA132).map_err(|e| format!("add_snap: {e}"))?;
            let rt = tokio::time::timeout(Duration::from_secs(20), PocketScionRuntimeBuilder::new().with_system_state(pstate).start())
                .await
                .map_err(|_| "pocketscion start timed out".to_string())?
                .map_err(|e| format!("pocketscion start: {e}"))?;
            let addr = rt.snap_control_addr(snap).ok_or("no snap control address")?;
            Ok::<E2e, String>(E2e { _rt: rt, addr })
        })
    });
    match r {
        Ok(x) => x,
        Err(m) => Err(format!("panic: {m}")),
    }
}

/// POST RegisterSnapTunIdentity with `Authorization: Bearer <token>`; returns the HTTP status (0 = the
/// connection was closed without a response) and the body text
fn e2e_register(env: &Env, e: &E2e, auth_field: Option<&str>) -> (u16, String) {
    use prost::Message;
    use tokio::io::{AsyncReadExt, AsyncWriteExt};
    let req = snap_control::proto::anapaya::snap::v1::RegisterSnapTunIdentityRequest { initiator_static_x25519: vec![7u8; 32], psk_share: vec![0u8; 32] };
    let body = req.encode_to_vec();
    // `auth_field` is everything between `authorization:` and CRLF (its own leading / trailing blanks included)
    let auth = match auth_field {
        Some(f) => format!("authorization:{f}\r\n"),
        None => String::new(),
    };
    let head = format!(
        "POST /anapaya.snap.v1.SnapControl/RegisterSnapTunIdentity HTTP/1.1\r\nhost: snap\r\n{auth}content-type: application/proto\r\ncontent-length: {}\r\nconnection: close\r\n\r\n",
        body.len()
    );
    let addr = e.addr;
    env.rt.block_on(async move {
        let fut = async {
            let mut s = tokio::net::TcpStream::connect(addr).await.ok()?;
            s.write_all(head.as_bytes()).await.ok()?;
            s.write_all(&body).await.ok()?;
            let mut out = vec![];
            let _ = s.read_to_end(&mut out).await;
            Some(out)
        };
        let out = tokio::time::timeout(Duration::from_secs(10), fut).await.ok().flatten().unwrap_or_default();
        let txt = String::from_utf8_lossy(&out).into_owned();
        let status = txt.strip_prefix("HTTP/1.1 ").and_then(|r| r.get(..3)).and_then(|c| c.parse::<u16>().ok()).unwrap_or(0);
        let body = txt.split("\r\n\r\n").nth(1).unwrap_or("").chars().filter(|c| !c.is_control()).take(160).collect();
        (status, body)
    })
}

/// spellings of the `Authorization` header field around a token (`extract_bearer_token` takes the text after the
/// exact prefix `Bearer ` verbatim; the HTTP layer strips blanks around the field value before that)
const AUTH_SHAPES: &[(&str, &str, &str)] = &[
    ("plain", " Bearer ", ""),
    ("no blank after colon", "Bearer ", ""),
    ("blanks around the value", "  \t Bearer ", " \t "),
    ("lower-case scheme", " bearer ", ""),
    ("upper-case scheme", " BEARER ", ""),
    ("two blanks after the scheme", " Bearer  ", ""),
    ("tab after the scheme", " Bearer\t", ""),
    ("no blank after the scheme", " Bearer", ""),
    ("no scheme", " ", ""),
    ("Basic scheme", " Basic ", ""),
    ("scheme twice", " Bearer Bearer ", ""),
    ("token then blank and text", " Bearer ", " x"),
    ("token=", " Bearer token=", ""),
    ("quoted token", " Bearer \"", "\""),
];

/// what the HTTP layer hands to the middleware as header value: blanks (SP / HTAB) around the field content removed
fn ows_trim(f: &str) -> &str {
    f.trim_matches(|c| c == ' ' || c == '\t')
}

/// one recipe through the real router; the model's verdict + lifetime predicts the status:
/// refused -> 401 (AuthMiddleware); accepted and exp in the future -> 200 (registered); accepted and exp
/// already past (inside the leeway) -> 400 "expiration time is in the past"; accepted and exp beyond
/// SystemTime -> the handler panics (no response)
fn run_e2e(c: &Case, shape: Option<usize>, env: &Env, e: &E2e, lean: &mut Lean, rep: &mut Report) {
    for _ in 0..4 {
        let t0 = now_secs();
        let tok = render(c, env, t0);
        if tok.is_empty() || !tok.bytes().all(|b| (0x21..=0x7e).contains(&b)) {
            rep.hit("e2e skipped (token is not a visible-ASCII header value)");
            return;
        }
        let field = shape.map(|i| format!("{}{tok}{}", AUTH_SHAPES[i].1, AUTH_SHAPES[i].2));
        let (status, body) = e2e_register(env, e, field.as_deref());
        let t1 = now_secs();
        if t1 != t0 {
            continue;
        }
        // the string the verifier gets: model of `extract_bearer_token` on the header value
        let presented: Option<String> = match &field {
            None => None,
            Some(f) => {
                let v = ows_trim(f);
                if lean.enabled {
                    let a = lean.ask(&format!("bearer {}", hex(v.as_bytes())));
                    a.strip_prefix("some ").map(|h| if h == "-" { String::new() } else { String::from_utf8(unhex(h).unwrap_or_default()).unwrap_or_default() })
                } else {
                    v.strip_prefix("Bearer ").map(|x| x.to_string())
                }
            }
        };
        let label = shape.map(|i| AUTH_SHAPES[i].0).unwrap_or("no Authorization header");
        if shape != Some(0) {
            rep.hit(&format!("e2e header shape: {label} -> http {status}"));
        }
        let Some(tok) = presented else {
            // no bearer token at all: 401 whatever the token is
            rep.traces += 1;
            if lean.enabled && status != 401 {
                rep.disagree("e2e-router", json!({"kind": c.kind, "recipe": serde_json::to_value(c).unwrap(), "authorization": field, "now": t0, "body": body}), &format!("http {status}"), "no bearer token => http [401]");
            }
            return;
        };
        let parsed = parse_token(&tok, env);
        let model = match &parsed {
            None => "err header".to_string(),
            Some(p) => lean.ask(&model_request(p, false, t0)),
        };
        let expect: Vec<u16> = if !lean.enabled {
            vec![status]
        } else if model.starts_with("err") {
            vec![401]
        } else {
            let exp: u128 = model.split(' ').nth(2).and_then(|x| x.parse().ok()).unwrap_or(0);
            let at_start = lean.ask(&format!("life {exp} {}", t0 as u128 * 1_000_000_000));
            let at_end = lean.ask(&format!("life {exp} {}", (t0 as u128 + 1) * 1_000_000_000));
            let st = |l: &str| if l == "panic" { 0 } else if l == "none" { 400 } else { 200 };
            vec![st(&at_start), st(&at_end)]
        };
        rep.hit(&format!("e2e status {status}"));
        rep.traces += 1;
        if !expect.contains(&status) {
            rep.disagree("e2e-router", json!({"kind": c.kind, "recipe": serde_json::to_value(c).unwrap(), "token": tok, "now": t0, "body": body}), &format!("http {status}"), &format!("{model} => http {expect:?}"));
        }
        // spec oracle on the middleware verdict
        let viol = spec_violations(&parsed, false, t0, env.leeway);
        if status != 401 && status != 0 {
            if let Some((k, what)) = viol.first() {
                rep.spec_fail(&format!("C10:accepted:{k}"), &format!("AuthMiddleware let the request through (http {status}) although {what}"), json!({"kind": c.kind, "recipe": serde_json::to_value(c).unwrap(), "token": tok, "now": t0}));
            }
        } else if status == 401 && viol.is_empty() {
            rep.spec_fail("C10:rejected-valid", &format!("AuthMiddleware answered 401 to a token that satisfies every conjunct: {body}"), json!({"kind": c.kind, "recipe": serde_json::to_value(c).unwrap(), "token": tok, "now": t0}));
        }
        if status == 0 {
            rep.hit("observation: e2e handler panic / connection closed without response");
        }
        return;
    }
}

// ------------------------------------------------------------------------------------------------
// replay-over-time: ONE long-lived verifier instance per construction, byte-identical token strings presented again
// and again while the real clock passes the end (exp + leeway) / the beginning (nbf - leeway) of their window
// ------------------------------------------------------------------------------------------------
//
// The property says a token is accepted "if and only if ... inside its validity window - not before its not-before
// time, not after its expiry, up to the verifier's fixed clock leeway": the verdict is a function of the string and of
// the clock at the moment of presentation, of nothing else - in particular not of what the same verifier instance
// answered before.  The oracle below is that sentence, evaluated with the clock second read around every single
// presentation (`spec_violations`, the same conjuncts as everywhere else): accepted => every conjunct holds at that
// second; every conjunct holds => accepted; and the long-lived instance answers exactly as an instance constructed
// for this one presentation.  A presentation during which the second ticked is not judged.

#[derive(Clone, Debug, Serialize, Deserialize, PartialEq)]
enum OtWindow {
    /// exp = t - leeway + d: inside its window up to second t + d, outside from t + d + 1 on
    Expiring(i64),
    /// nbf = t + leeway + d, exp = t + 3600: outside before second t + d, inside from then on
    Maturing(i64),
    /// nbf = t + leeway + a, exp = t - leeway + b: inside exactly during the seconds t + a ..= t + b
    Both(i64, i64),
    /// exp = t + 3600: accepted at every presentation
    Live,
    /// exp = t - leeway - 2: refused at every presentation
    Dead,
    /// nbf = t + leeway + 3600: refused at every presentation
    Unborn,
}

/// replayable description of one token of the stream (t = the second the stream starts in)
#[derive(Clone, Debug, Serialize, Deserialize)]
struct OtSpec {
    /// "verifier" (SnapTokenVerifier::verify in-process) | "router" (HTTP request to the real control-plane router)
    target: String,
    /// name of the base token (`bases`)
    base: String,
    window: OtWindow,
}

#[derive(Serialize, Deserialize)]
struct OtLine {
    over_time: OtSpec,
}

/// the base token with absolute times (so that the recipe renders to the same string whenever it is rendered)
fn ot_case(b: &Base, w: &OtWindow, t: u64, l: i64) -> Case {
    let abs = |o: i64| raw(&format!("{}", t as i64 + o));
    let mut pay: Vec<(String, V)> = b
        .pay
        .iter()
        .map(|(k, v)| {
            let v2 = match v {
                // nbf / iat of the base lie an hour back, so that only the member the window names is near the clock
                V::T(o) if k == "nbf" || k == "iat" => abs(*o - 3600),
                V::T(o) => abs(*o),
                V::TF(o, s) => raw(&format!("{}{}", t as i64 + o, s)),
                r => r.clone(),
            };
            (k.clone(), v2)
        })
        .collect();
    match w {
        OtWindow::Expiring(d) => pay = set(&pay, "exp", abs(-l + d)),
        OtWindow::Maturing(d) => pay = set(&pay, "nbf", abs(l + d)),
        OtWindow::Both(a, z) => pay = set(&set(&pay, "nbf", abs(l + a)), "exp", abs(-l + z)),
        OtWindow::Live => {}
        OtWindow::Dead => pay = set(&pay, "exp", abs(-l - 2)),
        OtWindow::Unborn => pay = set(&pay, "nbf", abs(l + 3600)),
    }
    let mut c = b.case(&format!("over-time {w:?} at {t}"));
    c.pay = Pay::Obj(pay);
    c
}

struct OtTok {
    spec: OtSpec,
    case: Case,
    token: String,
    parsed: Option<Parsed>,
    jwks: bool,
}

/// everything one instance was shown of one string: (second, verdict) of every judged presentation, in order.
/// Keyed by instance and STRING, not by recipe: the fresh control tokens of successive rounds coincide as strings
/// (`exp = t - leeway` made at second t is `exp = t' - leeway - 1` made at t' = t + 1), which makes them replays
/// across a one-second boundary.
#[derive(Default)]
struct OtHist {
    hist: Vec<(u64, String)>,
    reported: std::collections::HashSet<String>,
}

impl OtTok {
    fn claim(&self, k: &str) -> Option<u64> {
        match &self.parsed.as_ref()?.pay {
            PPay::Obj(ms) => match last(ms, k) {
                Some(JV::U(n)) => Some(*n),
                _ => None,
            },
            _ => None,
        }
    }
}

impl OtHist {
    fn seen(&self, accepted: bool) -> Option<&(u64, String)> {
        self.hist.iter().find(|(_, v)| ot_accepted(v) == accepted)
    }
    /// the history with runs of equal verdicts collapsed to their first and last second
    fn hist_json(&self) -> Value {
        let mut runs: Vec<(u64, u64, String, u64)> = vec![];
        for (t, v) in &self.hist {
            match runs.last_mut() {
                Some(r) if r.2 == *v => {
                    r.1 = *t;
                    r.3 += 1;
                }
                _ => runs.push((*t, *t, v.clone(), 1)),
            }
        }
        Value::Array(runs.iter().map(|(a, z, v, n)| json!({"from_second": a, "to_second": z, "presentations": n, "verdict": v})).collect())
    }
}

fn ot_accepted(verdict: &str) -> bool {
    verdict.starts_with("ok") || (verdict.starts_with("http ") && verdict != "http 401" && verdict != "http 0")
}

struct OverTime {
    /// the second the stream's tokens were made in
    t_a: u64,
    /// first second at which every expiring / maturing token of the stream is on the far side of its boundary
    t_last: u64,
    toks: Vec<OtTok>,
    /// instance + string -> what that instance was shown of that string
    hists: std::collections::HashMap<String, OtHist>,
    bases: Vec<Base>,
    ver_static: SnapTokenVerifier,
    ver_jwks: Option<SnapTokenVerifier>,
    last_round: Instant,
    rounds: u64,
    presentations: u64,
    unjudged: u64,
    controls: u64,
    done: bool,
}

impl OverTime {
    fn new(seed: u64, env: &Env, router: Option<(&Env, &E2e)>, thorough: bool, only: Option<Vec<OtSpec>>) -> OverTime {
        let l = env.leeway as i64;
        let mut rng = Rng::new(seed ^ 0x07_11E);
        let bs = bases(&mut rng, env.store.is_some());
        let rbs: Vec<Base> = bases(&mut rng, false).into_iter().take(2).collect();
        let specs: Vec<OtSpec> = match only {
            Some(s) => s,
            None => {
                let dmax: i64 = if thorough { 12 } else { 6 };
                let mut ws = vec![OtWindow::Live, OtWindow::Dead, OtWindow::Unborn, OtWindow::Both(2, dmax - 1)];
                for d in 3..=dmax {
                    ws.push(OtWindow::Expiring(d));
                    ws.push(OtWindow::Maturing(d));
                }
                let mut v = vec![];
                for b in &bs {
                    for w in &ws {
                        v.push(OtSpec { target: "verifier".into(), base: b.name.into(), window: w.clone() });
                    }
                }
                if router.is_some() {
                    for b in &rbs {
                        for w in &ws {
                            v.push(OtSpec { target: "router".into(), base: b.name.into(), window: w.clone() });
                        }
                    }
                }
                v
            }
        };
        let t_a = now_secs();
        let mut t_last = t_a + 1;
        let mut toks = vec![];
        for spec in specs {
            let (pool, e): (&Vec<Base>, &Env) = if spec.target == "router" {
                match router {
                    Some((e2, _)) => (&rbs, e2),
                    None => continue,
                }
            } else {
                (&bs, env)
            };
            let Some(b) = pool.iter().find(|b| b.name == spec.base) else { continue };
            let case = ot_case(b, &spec.window, t_a, l);
            let token = render(&case, e, t_a);
            let parsed = parse_token(&token, e);
            let far = match spec.window {
                OtWindow::Expiring(d) => d + 1,
                OtWindow::Maturing(d) => d,
                OtWindow::Both(_, z) => z + 1,
                _ => 0,
            };
            t_last = t_last.max((t_a as i64 + far) as u64);
            toks.push(OtTok { jwks: b.jwks && env.store.is_some(), spec, case, token, parsed });
        }
        OverTime {
            t_a,
            t_last,
            toks,
            hists: Default::default(),
            bases: bs,
            ver_static: new_verifier(env, false),
            ver_jwks: env.store.as_ref().map(|_| new_verifier(env, true)),
            last_round: Instant::now() - Duration::from_secs(1),
            rounds: 0,
            presentations: 0,
            unjudged: 0,
            controls: 0,
            done: false,
        }
    }

    /// called between the cases of the other streams: the waiting is shared with their work
    fn tick(&mut self, env: &Env, router: Option<(&Env, &E2e)>, lean: &mut Lean, rep: &mut Report) {
        if !self.done && self.last_round.elapsed() >= Duration::from_millis(250) {
            self.round(env, router, lean, rep);
        }
    }

    /// keep presenting until every boundary has been passed, then once more
    fn finish(&mut self, env: &Env, router: Option<(&Env, &E2e)>, lean: &mut Lean, rep: &mut Report) {
        while !self.done {
            let since = self.last_round.elapsed();
            if since < Duration::from_millis(250) {
                std::thread::sleep(Duration::from_millis(250) - since);
            }
            self.round(env, router, lean, rep);
        }
    }

    fn round(&mut self, env: &Env, router: Option<(&Env, &E2e)>, lean: &mut Lean, rep: &mut Report) {
        let started = now_secs();
        self.last_round = Instant::now();
        self.rounds += 1;
        for i in 0..self.toks.len() {
            self.present(i, env, router, lean, rep);
        }
        // fresh control tokens made in this round, on the same long-lived instances: on the last accepted and the first
        // refused second of either end of the window
        let l = env.leeway as i64;
        let mut fresh = vec![];
        for b in &self.bases {
            for w in [OtWindow::Expiring(0), OtWindow::Expiring(-1), OtWindow::Maturing(0), OtWindow::Maturing(1)] {
                let t = now_secs();
                let case = ot_case(b, &w, t, l);
                let token = render(&case, env, t);
                let parsed = parse_token(&token, env);
                fresh.push(OtTok {
                    jwks: b.jwks && env.store.is_some(),
                    spec: OtSpec { target: "verifier".into(), base: b.name.into(), window: w },
                    case,
                    token,
                    parsed,
                });
            }
        }
        let n_fixed = self.toks.len();
        self.toks.extend(fresh);
        for i in n_fixed..self.toks.len() {
            self.present(i, env, router, lean, rep);
            self.controls += 1;
        }
        self.toks.truncate(n_fixed);
        if started > self.t_last {
            self.done = true;
        }
    }

    fn present(&mut self, i: usize, env: &Env, router: Option<(&Env, &E2e)>, lean: &mut Lean, rep: &mut Report) {
        let is_router = self.toks[i].spec.target == "router";
        let jwks = self.toks[i].jwks;
        let token = self.toks[i].token.clone();
        self.presentations += 1;
        // ---- the presentation: long-lived instance, then an instance made for this presentation ----------------
        let (t0, t1, t2, verdict, fresh, panicked): (u64, u64, u64, String, Option<String>, Option<String>);
        if is_router {
            let Some((env2, e)) = router else { return };
            t0 = now_secs();
            let (status, _body) = e2e_register(env2, e, Some(&format!(" Bearer {token}")));
            t1 = now_secs();
            t2 = t1;
            verdict = format!("http {status}");
            fresh = None;
            panicked = None;
        } else {
            let ver = if jwks { self.ver_jwks.as_ref().unwrap_or(&self.ver_static) } else { &self.ver_static };
            t0 = now_secs();
            let r = catch(|| env.rt.block_on(ver.verify(&token)));
            t1 = now_secs();
            let fv = new_verifier(env, jwks);
            let rf = catch(|| env.rt.block_on(fv.verify(&token)));
            t2 = now_secs();
            verdict = impl_label(&r);
            fresh = Some(impl_label(&rf));
            panicked = r.err();
        }
        if t0 != t1 {
            self.unjudged += 1;
            return;
        }
        let now = t0;
        let leeway = env.leeway;
        let accepted = ot_accepted(&verdict);
        let viol = spec_violations(&self.toks[i].parsed, jwks, now, leeway);
        let model = match &self.toks[i].parsed {
            None => "err header".to_string(),
            Some(p) => lean.ask(&model_request(p, jwks, now)),
        };
        let t_a = self.t_a;
        let tok = &self.toks[i];
        let h = self.hists.entry(Self::hist_key(tok)).or_default();
        let first_ok = h.seen(true).cloned();
        let first_err = h.seen(false).cloned();
        h.hist.push((now, verdict.clone()));
        let who = if is_router { "router" } else { "verifier" };
        let inst = if is_router {
            "the running control-plane router (AuthMiddleware, one SnapTokenVerifier for the life of the process)".to_string()
        } else {
            format!("one long-lived SnapTokenVerifier ({})", if jwks { "static key + JWKS store" } else { "static key" })
        };
        let (exp, nbf) = (tok.claim("exp"), tok.claim("nbf"));
        let mut fails: Vec<(String, String)> = vec![];
        if let Some(p) = panicked {
            fails.push((format!("C10:over-time:{who}:panic"), format!("verify panicked at second {now}: {p}")));
        }
        if accepted {
            if let Some((k, what)) = viol.first() {
                if *k == "expiry" {
                    let e = exp.unwrap_or(0);
                    let earlier = match &first_ok {
                        Some((t, v)) => format!("the same instance first accepted it at second {t} ({v})"),
                        None => "no earlier judged presentation of this string to this instance had that outcome".to_string(),
                    };
                    fails.push((
                        format!("C10:over-time:{who}:accepted-after-expiry"),
                        format!(
                            "token with exp = {e} (leeway {leeway}: to be refused from second {} on) was accepted ({verdict}) at second {now}, {} s after exp + leeway, by {inst}; {earlier}; the string is byte-identical at every presentation ({what}){}",
                            e + leeway + 1,
                            now.saturating_sub(e + leeway),
                            match &fresh { Some(f) if t0 == t2 => format!("; a verifier constructed for this presentation answers: {f}"), _ => String::new() }
                        ),
                    ));
                } else {
                    fails.push((format!("C10:over-time:{who}:accepted:{k}"), format!("{inst} accepted ({verdict}) at second {now} although {what}")));
                }
            }
        } else if viol.is_empty() && verdict != "panic" {
            let key = if first_err.is_some() && nbf.map(|n| n > t_a + leeway).unwrap_or(false) { "still-refused-after-not-before" } else { "rejected-valid" };
            let earlier = match &first_err {
                Some((t, v)) => format!("it was first refused by this instance at second {t} ({v})"),
                None => "no earlier judged presentation of this string to this instance had that outcome".to_string(),
            };
            fails.push((
                format!("C10:over-time:{who}:{key}"),
                format!(
                    "{inst} refused ({verdict}) at second {now} a token that satisfies every conjunct of the property at that second (nbf = {nbf:?}, exp = {exp:?}, leeway {leeway}); {earlier}{}",
                    match &fresh { Some(f) if t0 == t2 => format!("; a verifier constructed for this presentation answers: {f}"), _ => String::new() }
                ),
            ));
        }
        if let Some(f) = &fresh {
            if t0 == t2 && *f != verdict {
                fails.push((
                    format!("C10:over-time:{who}:differs-from-fresh-verifier"),
                    format!("at second {now} {inst} answers {verdict}, a verifier constructed for this presentation answers {f}: the verdict depends on what the instance was shown before (first presented at second {})", h.hist[0].0),
                ));
            }
        }
        let case_json = |tok: &OtTok, h: &OtHist| {
            json!({
                "stream": "replay-over-time", "target": tok.spec.target, "kind": tok.case.kind, "recipe": serde_json::to_value(&tok.case).unwrap(),
                "token": tok.token, "exp": exp, "nbf": nbf, "leeway": leeway,
                "first_presented_at_second": h.hist[0].0, "first_verdict": h.hist[0].1,
                "presented_again_at_second": now, "verdict": verdict, "fresh_verifier_verdict": fresh,
                "presentations": h.hist_json(),
                "line": serde_json::to_string(&OtLine { over_time: tok.spec.clone() }).unwrap(),
            })
        };
        for (key, what) in fails {
            if h.reported.insert(key.clone()) {
                rep.spec_fail(&key, &what, case_json(tok, h));
            }
        }
        // correspondence: the model is a function of (token, now)
        let imp_for_model = if is_router { if accepted { "ok".to_string() } else { "err".to_string() } } else { verdict.clone() };
        let model_cmp = if is_router { model.split(' ').next().unwrap_or("").to_string() } else { model.clone() };
        if lean.differs(&model_cmp, &imp_for_model) && h.reported.insert("DISAGREE".into()) {
            rep.disagree("verify-over-time", case_json(tok, h), &verdict, &model);
        }
    }

    fn hist_key(t: &OtTok) -> String {
        format!("{}/{}/{}", t.spec.target, t.jwks, t.token)
    }

    fn summary(&self, rep: &mut Report) {
        let empty = OtHist::default();
        let (mut exp_both, mut exp_n, mut mat_both, mut mat_n, mut both3) = (0u64, 0u64, 0u64, 0u64, 0u64);
        for t in &self.toks {
            let canon = format!("over-time {}", serde_json::to_string(&t.spec).unwrap());
            rep.case(&canon, t.parsed.is_some());
            rep.traces += 1;
            rep.hit(&format!("base over-time {} {}", t.spec.target, t.spec.base));
            let h = self.hists.get(&Self::hist_key(t)).unwrap_or(&empty);
            let ok_then_err = h.hist.iter().position(|(_, v)| ot_accepted(v)).map(|p| h.hist[p..].iter().any(|(_, v)| !ot_accepted(v))).unwrap_or(false);
            let err_then_ok = h.hist.iter().position(|(_, v)| !ot_accepted(v)).map(|p| h.hist[p..].iter().any(|(_, v)| ot_accepted(v))).unwrap_or(false);
            match t.spec.window {
                OtWindow::Expiring(_) => {
                    exp_n += 1;
                    exp_both += ok_then_err as u64;
                }
                OtWindow::Maturing(_) => {
                    mat_n += 1;
                    mat_both += err_then_ok as u64;
                }
                OtWindow::Both(..) => both3 += (ok_then_err && err_then_ok) as u64,
                _ => {}
            }
        }
        rep.hit_n("over-time: rounds on the long-lived instances", self.rounds);
        rep.hit_n("over-time: presentations (long-lived instance + fresh instance each)", self.presentations);
        rep.hit_n("over-time: presentations not judged (the second ticked during the call)", self.unjudged);
        rep.hit_n("over-time: fresh control tokens (last accepted / first refused second of either window end)", self.controls);
        rep.hit_n("over-time: expiring tokens observed accepted, then refused, by the same instance", exp_both);
        rep.hit_n("over-time: maturing tokens observed refused, then accepted, by the same instance", mat_both);
        rep.hit_n("over-time: tokens observed refused, accepted, refused by the same instance", both3);
        if exp_both < exp_n || mat_both < mat_n {
            rep.notes.push(format!(
                "replay-over-time: only {exp_both} of {exp_n} expiring and {mat_both} of {mat_n} maturing tokens were observed on both sides of their boundary (stalled machine, or the verdicts are wrong - see the spec failures)"
            ));
        }
        if let Some(t) = self.toks.iter().find(|t| matches!(t.spec.window, OtWindow::Expiring(_)) && t.spec.target == "verifier") {
            rep.sample(json!({"stream": "replay-over-time", "kind": t.case.kind, "token": t.token, "made_at_second": self.t_a, "presentations": self.hists.get(&Self::hist_key(t)).unwrap_or(&empty).hist_json()}));
        }
    }
}

fn make_env(seed: u64, const_static_key: bool, notes: &mut Vec<String>) -> Env {
    let mut krng = Rng::new(seed ^ 0xC10);
    let sk: Vec<SigningKey> = (0..N_KEYS)
        .map(|_| {
            let b = krng.bytes(32);
            SigningKey::from_bytes(&b.try_into().unwrap())
        })
        .collect();
    let mut sk = sk;
    if const_static_key {
        // the key pocketscion's SNAP control plane trusts by default (`insecure_const_ed25519_key_pair_pem`)
        sk[K_STATIC] = scion_sdk_token_validator::validator::insecure_const_ed25519_signing_key();
    }
    let vk: Vec<VerifyingKey> = sk.iter().map(|k| k.verifying_key()).collect();
    let rt = tokio::runtime::Builder::new_multi_thread().worker_threads(2).enable_all().build().unwrap();
    let static_key = DecodingKey::from_ed_der(vk[K_STATIC].as_bytes());
    let ver_static = SnapTokenVerifier::new(static_key.clone());
    // JWKS store: real JwksKeyStore fetching from a loop-back endpoint served by this process
    let jwks_body = json!({"keys": [
        {"kid": JWKS_KID, "kty": "OKP", "use": "sig", "alg": "EdDSA", "crv": "Ed25519", "x": b64(vk[K_JWKS].as_bytes())},
        {"kid": JWKS_EC_KID, "kty": "EC", "use": "sig", "alg": "ES256", "crv": "P-256", "x": b64(&krng.bytes(32)), "y": b64(&krng.bytes(32))},
        {"kty": "OKP", "use": "sig", "alg": "EdDSA", "crv": "Ed25519", "x": b64(vk[K_OTHER].as_bytes())},
        {"kid": JWKS_DUP_KID, "kty": "OKP", "use": "sig", "alg": "EdDSA", "crv": "Ed25519", "x": b64(vk[K_OTHER].as_bytes())},
        {"kid": JWKS_DUP_KID, "kty": "OKP", "use": "sig", "alg": "EdDSA", "crv": "Ed25519", "x": b64(vk[K_DUP].as_bytes())},
        {"kid": JWKS_ENC_KID, "kty": "OKP", "use": "enc", "alg": "EdDSA", "crv": "Ed25519", "x": b64(vk[K_ENC].as_bytes())},
        {"kid": JWKS_MIS_KID, "kty": "OKP", "use": "sig", "alg": "ES256", "crv": "Ed25519", "x": b64(vk[K_MIS].as_bytes())}
    ]}).to_string();
    let ver_jwks = catch(|| {
        scion_sdk_utils::rustls::select_ring_crypto_provider();
        rt.block_on(async {
            let listener = tokio::net::TcpListener::bind("127.0.0.1:0").await.ok()?;
            let addr = listener.local_addr().ok()?;
            tokio::spawn(serve_jwks(listener, jwks_body));
            let url = format!("http://{addr}/.well-known/jwks.json").parse().ok()?;
            let store = Arc::new(JwksKeyStore::new(url, Duration::from_secs(3600), tokio_util::sync::CancellationToken::new()));
            let got = tokio::time::timeout(Duration::from_secs(10), store.await_key(JWKS_KID)).await.ok().flatten();
            got.map(|_| store)
        })
    });
    let store = match &ver_jwks {
        Ok(Some(s)) => Some(s.clone()),
        _ => None,
    };
    let ver_jwks = match ver_jwks {
        Ok(Some(store)) => Some(SnapTokenVerifier::new(static_key.clone()).with_jwks_store(store)),
        Ok(None) => {
            notes.push("JWKS store could not be populated from the loop-back endpoint: kid/JWKS cases run against the static-key verifier only".into());
            None
        }
        Err(m) => {
            notes.push(format!("JWKS setup panicked ({m}): kid/JWKS cases run against the static-key verifier only"));
            None
        }
    };
    let leeway = jsonwebtoken::Validation::new(jsonwebtoken::Algorithm::EdDSA).leeway;
    Env { sk, vk, rt, ver_static, ver_jwks, static_dk: static_key, store, leeway }
}

fn shrink(c: &Case, env: &Env, lean: &mut Lean, fails: &dyn Fn(&Outcome) -> bool) -> Case {
    let mut cur = c.clone();
    loop {
        let mut progressed = false;
        // drop post-mutations, then payload members, then header members
        for i in 0..cur.post.len() {
            let mut t = cur.clone();
            t.post.remove(i);
            if fails(&run_case(&t, env, lean)) {
                cur = t;
                progressed = true;
                break;
            }
        }
        if progressed {
            continue;
        }
        if let Pay::Obj(ms) = &cur.pay {
            for i in 0..ms.len() {
                let mut t = cur.clone();
                let mut m2 = ms.clone();
                m2.remove(i);
                t.pay = Pay::Obj(m2);
                if fails(&run_case(&t, env, lean)) {
                    cur = t;
                    progressed = true;
                    break;
                }
            }
        }
        if progressed {
            continue;
        }
        if let Hdr::Obj(ms) = &cur.hdr {
            for i in 0..ms.len() {
                let mut t = cur.clone();
                let mut m2 = ms.clone();
                m2.remove(i);
                t.hdr = Hdr::Obj(m2);
                if fails(&run_case(&t, env, lean)) {
                    cur = t;
                    progressed = true;
                    break;
                }
            }
        }
        if !progressed {
            return cur;
        }
    }
}

fn main() {
    let args = Args::parse();
    if std::env::var("HX_LOUD").is_err() { quiet_panics(); }
    let mut rep = Report::new(
        "C10",
        "case = token recipe (header members, payload members with times relative to now, signer, string-level \
         post-mutations) or raw string, rendered at the current second and given to the real SnapTokenVerifier \
         (static key / static key + JwksKeyStore) and, parsed by the harness' own JWT reader, to the Lean model; \
         systematic single-field mutations of valid v0/v1 tokens + random multi-edits + random strings. \
         Non-trivial = the header segment decodes (the verdict depends on verifier logic beyond decode_header); \
         distinct by hash of the recipe (times relative). Stream replay-over-time: a case = one token (base x window \
         position relative to the start second) shown repeatedly to one long-lived verifier instance / the running \
         router while the clock passes its window's end or beginning; counted once per token, distinct by its spec",
    );
    let mut lean = Lean::spawn(&args.driver);
    let mut notes = vec![];
    let env = make_env(args.seed, false, &mut notes);
    rep.notes.extend(notes);
    let cfg = lean.ask("cfg");
    rep.notes.push(format!("model configuration (Generated/Token.lean): {cfg}; jsonwebtoken default leeway read through the API: {}", env.leeway));
    // the oracle's leeway is the verifier's *configured* leeway (the property says "the verifier's fixed clock
    // leeway"): extracted from build_validation()/jsonwebtoken by the translator; a wrong extraction shows up as
    // accepted/refused mismatches on the window grid (exp = now-leeway-1 / now-leeway, nbf = now+leeway / +1)
    let mut env = env;
    if lean.enabled {
        if let Some(ml) = cfg.split(' ').nth(3).and_then(|x| x.parse::<u64>().ok()) {
            env.leeway = ml;
        }
    }
    let mut rng = Rng::new(args.seed);
    let mut cases: Vec<Case> = vec![];
    for l in read_corpus(&args.corpus) {
        match serde_json::from_str::<Case>(&l) {
            Ok(c) => cases.push(c),
            Err(e) => rep.notes.push(format!("unparseable corpus line ({e}): {}", &l[..l.len().min(60)])),
        }
    }
    let n_corpus = cases.len();
    let mut ot_only: Option<Vec<OtSpec>> = None;
    rep.hit_n("corpus cases", n_corpus as u64);
    if let Some(p) = &args.replay {
        let txt = std::fs::read_to_string(p).expect("replay file");
        cases = txt.lines().filter(|l| !l.trim().is_empty() && !l.starts_with('#')).filter_map(|l| serde_json::from_str::<Case>(l).ok()).collect();
        // lines of the replay-over-time stream: the token is made again at the current second and presented over time
        ot_only = Some(txt.lines().filter_map(|l| serde_json::from_str::<OtLine>(l).ok()).map(|l| l.over_time).collect());
    } else {
        let with_jwks = env.ver_jwks.is_some();
        let l = env.leeway as i64;
        cases.extend(systematic(&mut rng, with_jwks, args.thorough(), l));
        let bs = bases(&mut rng, with_jwks);
        let pool = value_pool(&mut rng, l);
        for _ in 0..args.scale(4000, 150000) {
            cases.push(random_case(&mut rng, &bs, &pool, l));
        }
        for _ in 0..args.scale(500, 20000) {
            cases.push(random_string(&mut rng));
        }
    }
    // pssid text forms: model vs the real parsers, directly
    if args.replay.is_none() {
        let pool = value_pool(&mut rng, 60);
        let mut strs: Vec<String> = pool.iter().filter_map(|v| if let V::Raw(s) = v { serde_json::from_str::<String>(s).ok() } else { None }).collect();
        for _ in 0..args.scale(300, 5000) {
            let mut s = if rng.chance(1, 2) { uuid_of(&mut rng) } else { pssid1_of(&mut rng) };
            match rng.below(6) {
                0 => s = s.to_uppercase(),
                1 => s = s.replace('-', ""),
                2 => {
                    let i = rng.below(s.len() as u64) as usize;
                    let ch = *rng.pick(&['g', '-', '_', 'A', 'Q', '0', '=', '{', 'é']);
                    let mut cs: Vec<char> = s.chars().collect();
                    cs[i] = ch;
                    s = cs.into_iter().collect();
                }
                3 => s = format!("{{{s}}}"),
                4 => s = format!("urn:uuid:{s}"),
                _ => {}
            }
            strs.push(s);
        }
        for s in strs {
            let i0 = snap_tokens::v0::Pssid::from_str(&s).is_ok().to_string();
            let m0 = lean.ask(&format!("uuid {}", hex(s.as_bytes())));
            rep.hit(&format!("pssid-v0 parse {i0}"));
            if lean.differs(&m0, &i0) {
                rep.disagree("pssid-v0", json!({"string": s}), &i0, &m0);
            }
            let i1 = serde_json::from_value::<snap_tokens::v1::Pssid>(Value::String(s.clone())).is_ok().to_string();
            let m1 = lean.ask(&format!("pssid1 {}", hex(s.as_bytes())));
            rep.hit(&format!("pssid-v1 parse {i1}"));
            if lean.differs(&m1, &i1) {
                rep.disagree("pssid-v1", json!({"string": s}), &i1, &m1);
            }
        }
    }
    // ---- the real router (started here: the over-time stream presents to it as well) and the over-time stream ----
    let need_router = match &ot_only {
        None => true,
        Some(v) => v.iter().any(|s| s.target == "router"),
    };
    let e2e_env: Option<(Env, E2e)> = if need_router {
        let mut n2 = vec![];
        let mut env2 = make_env(args.seed, true, &mut n2);
        env2.leeway = env.leeway;
        match start_e2e(&env2) {
            Ok(e) => Some((env2, e)),
            Err(m) => {
                rep.notes.push(format!("end-to-end stream not run: {m}"));
                None
            }
        }
    } else {
        None
    };
    let router: Option<(&Env, &E2e)> = e2e_env.as_ref().map(|(a, b)| (a, b));
    let mut ot: Option<OverTime> = match &ot_only {
        Some(v) if v.is_empty() => None,
        _ => Some(OverTime::new(args.seed, &env, router, args.thorough(), ot_only.clone())),
    };
    if let Some(o) = ot.as_mut() {
        o.round(&env, router, &mut lean, &mut rep);
    }
    for c in &cases {
        if let Some(o) = ot.as_mut() {
            o.tick(&env, router, &mut lean, &mut rep);
        }
        let o = run_case(c, &env, &mut lean);
        let canon = serde_json::to_string(c).unwrap();
        rep.case(&canon, o.parsed);
        rep.traces += 1;
        let stream = c.kind.split('/').next().unwrap_or("?");
        rep.hit(&format!("base {stream}"));
        rep.hit(&format!("impl {}", if o.imp.starts_with("ok") { o.imp.split(' ').take(2).collect::<Vec<_>>().join(" v") } else { o.imp.clone() }));
        if o.exp_time_panic {
            rep.hit("observation: the registration handler panics on the accepted claims (Token::exp_time(): exp beyond SystemTime range)");
        }
        for h in &o.handler_obs {
            rep.hit(h);
        }
        if c.kind.contains("/jwks kid=") {
            rep.hit(&format!("{} -> {}", c.kind, o.imp.split(' ').take(2).collect::<Vec<_>>().join(" ")));
        }
        if !o.parsed {
            rep.hit("harness reader: not a JWT");
        }
        if rep.samples.len() < 5 && o.parsed && (rep.samples.len() % 2 == 0) == o.imp.starts_with("ok") {
            rep.sample(json!({"kind": c.kind, "token": o.token, "now": o.now, "impl": o.imp, "model": o.model}));
        }
        if let Some(g) = &o.glue {
            rep.hit("GLUE header parseability differs");
            rep.disagree("glue-header", json!({"kind": c.kind, "token": o.token}), g, g);
        }
        if o.disagree {
            let small = shrink(c, &env, &mut lean, &|o: &Outcome| o.disagree);
            let o2 = run_case(&small, &env, &mut lean);
            let (o2, small) = if o2.disagree { (o2, small) } else { (run_case(c, &env, &mut lean), c.clone()) };
            rep.disagree("verify", json!({"kind": small.kind, "recipe": serde_json::to_value(&small).unwrap(), "token": o2.token, "now": o2.now}), &o2.imp, &o2.model);
        }
        let mut seen = std::collections::HashSet::new();
        for (key, what) in &o.spec {
            if !seen.insert(key.clone()) {
                continue;
            }
            let k = key.clone();
            let already = rep.spec_failures.iter().filter(|f| f["key"] == k.as_str()).count() >= 3;
            let small = if already { c.clone() } else { shrink(c, &env, &mut lean, &|o: &Outcome| o.spec.iter().any(|(kk, _)| *kk == k)) };
            let o2 = run_case(&small, &env, &mut lean);
            rep.spec_fail(key, what, json!({"kind": small.kind, "recipe": serde_json::to_value(&small).unwrap(), "token": o2.token, "now": o2.now, "impl": o2.imp}));
        }
    }
    // ---- end to end through the real router ---------------------------------------------------------
    if args.replay.is_none() {
        match &e2e_env {
            None => {}
            Some((env2, e)) => {
                let (env2, e) = (env2, e);
                let mut r2 = Rng::new(args.seed ^ 0xE2E);
                let sys = systematic(&mut r2, false, false, env.leeway as i64);
                let stride = args.scale(4, 1);
                let mut n = 0u64;
                for (i, c) in sys.iter().enumerate() {
                    if i % stride != 0 && !c.kind.contains("valid") && !c.kind.contains("window") && !c.kind.contains("probe") {
                        continue;
                    }
                    if let Some(o) = ot.as_mut() {
                        o.tick(&env, router, &mut lean, &mut rep);
                    }
                    run_e2e(c, Some(0), env2, e, &mut lean, &mut rep);
                    n += 1;
                }
                // header spellings around valid and invalid tokens
                let picks: Vec<&Case> = sys.iter().filter(|c| c.kind.ends_with("/valid") || c.kind.contains("probe nbf") || c.kind.ends_with("alg=EdDSA/other-key")).collect();
                for c in &picks {
                    if let Some(o) = ot.as_mut() {
                        o.tick(&env, router, &mut lean, &mut rep);
                    }
                    run_e2e(c, None, env2, e, &mut lean, &mut rep);
                    n += 1;
                    for i in 1..AUTH_SHAPES.len() {
                        run_e2e(c, Some(i), env2, e, &mut lean, &mut rep);
                        n += 1;
                    }
                }
                rep.hit_n("e2e cases (real router: AuthMiddleware + register handler)", n);
            }
        }
    }
    if let Some(o) = ot.as_mut() {
        o.finish(&env, router, &mut lean, &mut rep);
        o.summary(&mut rep);
    }
    rep.write(&args.out);
    std::process::exit(if rep.ok() { 0 } else { 1 });
}
