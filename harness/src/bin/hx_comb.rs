//! Correspondence harness + spec oracle for the path combinator (C19, C04; `--prop` selects the streams).
//!
//! Real code: `sciparse::path::combinator::combine` (in-process, under `catch`).
//! Model: `drv_comb` (Lean `ScionVerif.Comb.combine`), same segment set on one request line.
//!
//! Compared: the ordered list of offered paths, each as (src, dst, mtu, expiry, interface list, per
//! segment flags / SegID / timestamp / hop fields incl. MAC bytes).  When the model reports that two
//! candidate solutions with *equal sort keys* yield different paths (`tie=1`; only possible when two
//! different segments have the same `PathSegment::id()`), the implementation's order depends on
//! hash-map iteration order and only the set of data-plane fingerprints is compared.
//!
//! Spec oracle on the implementation's own output (independent of the model):
//!   C19: no panic; wall-time bound; every path's bytes parse and re-encode identically; fingerprint,
//!        expiry, src/dst and interface ids consistent with the decoded hop fields; deterministic.
//!   C04 (well-formed sets from a topology): additionally interface list = the links encoded in the hop
//!        fields in travel order, MTU = min over traversed ASes and links of the topology, expiry =
//!        earliest hop expiry, src/dst = request, no AS twice, no two paths with one interface list,
//!        sorted by hop count, result independent of input order / duplication, and the set of interface
//!        lists equals that of an independent enumerator of the SCION combination rules; the path offered
//!        for an interface sequence expires as late as the latest-expiring combination of the given segments
//!        over that sequence (C04:dedup-keeps-latest-expiry; the enumerator carries the hop-field lifetimes),
//!        also when two given segments have the same id (two beaconings of one segment: `rebeacon` stream,
//!        staler version listed first / last / shuffled; C04:order-independent:rebeaconed-segment,
//!        C04:order-independent:latest-expiry compare interface lists + expiry across the orders).
use std::collections::{BTreeMap, BTreeSet, HashMap, HashSet};
use std::time::Instant;

use serde_json::json;
use sha2::{Digest, Sha256};
use sciparse::{
    core::{convert::FromView, encode::WireEncode, view::View},
    dataplane_path::{
        standard::{
            model::StandardPath,
            types::{HopFieldMac, InfoFieldFlags},
            view::StandardPathView,
        },
        view::ScionDpPathView,
    },
    identifier::isd_asn::IsdAsn,
    path::{ScionPath, combinator::combine, fingerprint::data_plane::DpPathFingerprint},
    segment::{AsEntry, HopEntry, PeerEntry, SegmentHopField, UnsignedPathSegment},
};
use verif_harness::*;

// ------------------------------------------------------------------------------------------------
// plain representation of a segment set (one format for generator, driver line, corpus, replay)

#[derive(Clone, Debug, PartialEq, Eq, Hash)]
struct MHop {
    exp: u8,
    ing: u16,
    eg: u16,
    mac: [u8; 6],
}
#[derive(Clone, Debug, PartialEq, Eq, Hash)]
struct MPeer {
    peer: u64,
    pif: u16,
    pmtu: u16,
    hop: MHop,
}
#[derive(Clone, Debug, PartialEq, Eq, Hash)]
struct MEnt {
    ia: u64,
    mtu: u32,
    imtu: u16,
    hop: MHop,
    peers: Vec<MPeer>,
}
#[derive(Clone, Debug, PartialEq, Eq, Hash)]
struct MSeg {
    ts: u32,
    segid: u16,
    ents: Vec<MEnt>,
}
#[derive(Clone, Debug)]
struct Case {
    kind: String,
    src: u64,
    dst: u64,
    cores: Vec<MSeg>,
    noncores: Vec<MSeg>,
    /// Some(topology) iff the set is well-formed (derived from it without mutation)
    topo: Option<std::rc::Rc<Topo>>,
}

fn mac_num(m: &[u8; 6]) -> u64 {
    m.iter().fold(0u64, |a, b| a * 256 + *b as u64)
}
fn num_mac(n: u64) -> [u8; 6] {
    let b = n.to_be_bytes();
    [b[2], b[3], b[4], b[5], b[6], b[7]]
}

impl MSeg {
    fn real(&self) -> UnsignedPathSegment {
        let ents = self
            .ents
            .iter()
            .enumerate()
            .map(|(i, e)| AsEntry {
                local: IsdAsn(e.ia),
                next: IsdAsn(self.ents.get(i + 1).map(|n| n.ia).unwrap_or(0)),
                mtu: e.mtu,
                hop_entry: HopEntry { ingress_mtu: e.imtu, hop_field: hop_real(&e.hop) },
                peer_entries: e
                    .peers
                    .iter()
                    .map(|p| PeerEntry { peer: IsdAsn(p.peer), peer_interface: p.pif, peer_mtu: p.pmtu, hop_field: hop_real(&p.hop) })
                    .collect(),
                extensions: vec![],
                unsigned_extensions: vec![],
            })
            .collect();
        UnsignedPathSegment::new(self.ts, self.segid, ents)
    }
    /// SHA-256 over (local, cons_ingress, cons_egress) of every entry = `PathSegment::id()`
    /// (cross-checked against the real `id()` through its `Debug` form in `check_segid`)
    fn id(&self) -> [u8; 32] {
        let mut h = Sha256::new();
        for e in &self.ents {
            h.update(e.ia.to_be_bytes());
            h.update(e.hop.ing.to_be_bytes());
            h.update(e.hop.eg.to_be_bytes());
        }
        h.finalize().into()
    }
    fn line(&self, out: &mut String) {
        out.push_str(&format!(" S {} {} {} {}", self.ts, self.segid, hex(&self.id()), self.ents.len()));
        for e in &self.ents {
            out.push_str(&format!(" E {} {} {} {} {} {} {} {}", e.ia, e.mtu, e.imtu, e.hop.exp, e.hop.ing, e.hop.eg, mac_num(&e.hop.mac), e.peers.len()));
            for p in &e.peers {
                out.push_str(&format!(" P {} {} {} {} {} {} {}", p.peer, p.pif, p.pmtu, p.hop.exp, p.hop.ing, p.hop.eg, mac_num(&p.hop.mac)));
            }
        }
    }
}
fn hop_real(h: &MHop) -> SegmentHopField {
    SegmentHopField { expiration_units: h.exp, cons_ingress: h.ing, cons_egress: h.eg, mac: HopFieldMac(h.mac) }
}

impl Case {
    fn line(&self) -> String {
        let mut s = format!("combine {} {} {} {}", self.src, self.dst, self.cores.len(), self.noncores.len());
        for c in &self.cores {
            c.line(&mut s);
        }
        for c in &self.noncores {
            c.line(&mut s);
        }
        s
    }
    fn n_entries(&self) -> usize {
        self.cores.iter().chain(self.noncores.iter()).map(|s| s.ents.len()).sum()
    }
    /// E of DESIGN §C19: Σ (len + 2·peers)
    fn size_e(&self) -> usize {
        self.cores.iter().chain(self.noncores.iter()).map(|s| s.ents.len() + 2 * s.ents.iter().map(|e| e.peers.len()).sum::<usize>()).sum()
    }
}

fn parse_case(l: &str) -> Option<Case> {
    let mut kind = "corpus".to_string();
    let mut l = l.trim();
    if let Some(rest) = l.strip_prefix('@') {
        let (k, r) = rest.split_once(' ')?;
        kind = k.to_string();
        l = r.trim();
    }
    let t: Vec<&str> = l.split_whitespace().collect();
    let mut i = 0usize;
    let next = |i: &mut usize| -> Option<&str> {
        let r = t.get(*i).copied();
        *i += 1;
        r
    };
    if next(&mut i)? != "combine" {
        return None;
    }
    let src: u64 = next(&mut i)?.parse().ok()?;
    let dst: u64 = next(&mut i)?.parse().ok()?;
    let nc: usize = next(&mut i)?.parse().ok()?;
    let nn: usize = next(&mut i)?.parse().ok()?;
    let mut segs = vec![];
    for _ in 0..nc + nn {
        if next(&mut i)? != "S" {
            return None;
        }
        let ts = next(&mut i)?.parse().ok()?;
        let segid = next(&mut i)?.parse().ok()?;
        let _id = next(&mut i)?;
        let ne: usize = next(&mut i)?.parse().ok()?;
        let mut ents = vec![];
        for _ in 0..ne {
            if next(&mut i)? != "E" {
                return None;
            }
            let ia = next(&mut i)?.parse().ok()?;
            let mtu = next(&mut i)?.parse().ok()?;
            let imtu = next(&mut i)?.parse().ok()?;
            let exp = next(&mut i)?.parse().ok()?;
            let ing = next(&mut i)?.parse().ok()?;
            let eg = next(&mut i)?.parse().ok()?;
            let mac = num_mac(next(&mut i)?.parse().ok()?);
            let np: usize = next(&mut i)?.parse().ok()?;
            let mut peers = vec![];
            for _ in 0..np {
                if next(&mut i)? != "P" {
                    return None;
                }
                let peer = next(&mut i)?.parse().ok()?;
                let pif = next(&mut i)?.parse().ok()?;
                let pmtu = next(&mut i)?.parse().ok()?;
                let exp = next(&mut i)?.parse().ok()?;
                let ing = next(&mut i)?.parse().ok()?;
                let eg = next(&mut i)?.parse().ok()?;
                let mac = num_mac(next(&mut i)?.parse().ok()?);
                peers.push(MPeer { peer, pif, pmtu, hop: MHop { exp, ing, eg, mac } });
            }
            ents.push(MEnt { ia, mtu, imtu, hop: MHop { exp, ing, eg, mac }, peers });
        }
        segs.push(MSeg { ts, segid, ents });
    }
    if i != t.len() {
        return None;
    }
    let noncores = segs.split_off(nc);
    Some(Case { kind, src, dst, cores: segs, noncores, topo: None })
}

// ------------------------------------------------------------------------------------------------
// observable output

#[derive(Clone, Debug, PartialEq, Eq)]
struct OSeg {
    cons: bool,
    peer: bool,
    segid: u16,
    ts: u32,
    hops: Vec<MHop>,
}
#[derive(Clone, Debug, PartialEq, Eq)]
struct OPath {
    src: u64,
    dst: u64,
    mtu: u16,
    exp: u64,
    ifs: Vec<(u64, u16)>,
    segs: Vec<OSeg>,
}
fn sep(s: &str, xs: Vec<String>) -> String {
    if xs.is_empty() { "-".into() } else { xs.join(s) }
}
impl OPath {
    fn canon(&self) -> String {
        format!(
            "{}|{}|{}|{}|{}|{}",
            self.src,
            self.dst,
            self.mtu,
            self.exp,
            sep(",", self.ifs.iter().map(|(a, i)| format!("{a}#{i}")).collect()),
            sep(
                ";",
                self.segs
                    .iter()
                    .map(|s| {
                        format!(
                            "{}{}:{}:{}:{}",
                            if s.cons { "C" } else { "c" },
                            if s.peer { "P" } else { "p" },
                            s.segid,
                            s.ts,
                            sep("/", s.hops.iter().map(|h| format!("{}.{}.{}.{}", h.exp, h.ing, h.eg, mac_num(&h.mac))).collect())
                        )
                    })
                    .collect()
            )
        )
    }
    fn fpr(&self) -> String {
        format!("{}|{}|{}", self.src, self.dst, self.segs.iter().flat_map(|s| s.hops.iter().map(|h| format!("{}.{}", h.ing, h.eg))).collect::<Vec<_>>().join("/"))
    }
}
/// fingerprint tuple out of a canonical path string (model side)
#[allow(dead_code)]
fn fpr_of_canon(c: &str) -> Option<String> {
    let f: Vec<&str> = c.split('|').collect();
    if f.len() != 6 {
        return None;
    }
    let mut hops = vec![];
    if f[5] != "-" {
        for seg in f[5].split(';') {
            let hs = seg.rsplit(':').next()?;
            if hs != "-" {
                for h in hs.split('/') {
                    let p: Vec<&str> = h.split('.').collect();
                    hops.push(format!("{}.{}", p.get(1)?, p.get(2)?));
                }
            }
        }
    }
    Some(format!("{}|{}|{}", f[0], f[1], hops.join("/")))
}

fn exp_secs(e: u8) -> u64 {
    337_500u64 * (e as u64 + 1) / 1000
}

struct ImplOut {
    paths: Vec<OPath>,
    /// (key, what) violations of the per-path self-consistency oracle
    self_spec: Vec<(String, String)>,
    micros: u128,
}

fn decode_path(p: &ScionPath, spec: &mut Vec<(String, String)>) -> OPath {
    let md = p.metadata();
    let mut o = OPath {
        src: p.src_ia().to_u64(),
        dst: p.dst_ia().to_u64(),
        mtu: md.map(|m| m.mtu).unwrap_or(0),
        exp: md.map(|m| m.expiration).unwrap_or(u64::MAX),
        ifs: md.and_then(|m| m.interfaces.as_ref()).map(|v| v.iter().map(|i| (i.interface.isd_asn.to_u64(), i.interface.id)).collect()).unwrap_or_default(),
        segs: vec![],
    };
    if md.is_none() || md.unwrap().interfaces.is_none() {
        spec.push(("C19:self-consistent:no-metadata".into(), "offered path without metadata / interface list".into()));
    }
    match p.dp_path() {
        ScionDpPathView::Standard(v) => {
            let bytes = v.as_slice().to_vec();
            // parse back
            match StandardPathView::try_from_slice(&bytes) {
                Ok((view, rest)) => {
                    if !rest.is_empty() {
                        spec.push(("C19:parse-back".into(), "encoded path has trailing bytes".into()));
                    }
                    let m = StandardPath::from_view(view);
                    match m.try_encode_to_vec() {
                        Ok(b2) if b2 == bytes => {}
                        Ok(_) => spec.push(("C19:parse-back".into(), "decode→encode is not the identity on an offered path".into())),
                        Err(e) => spec.push(("C19:parse-back".into(), format!("offered path does not re-encode: {e:?}"))),
                    }
                    if m.current_hop_field != 0 || m.current_info_field != 0 {
                        spec.push(("C19:self-consistent:cursor".into(), "offered path does not start at hop 0".into()));
                    }
                    for s in m.segments.iter() {
                        o.segs.push(OSeg {
                            cons: s.info_field.flags.contains(InfoFieldFlags::CONS_DIR),
                            peer: s.info_field.flags.contains(InfoFieldFlags::PEERING),
                            segid: s.info_field.segment_id,
                            ts: s.info_field.timestamp,
                            hops: s.hop_fields.iter().map(|h| MHop { exp: h.expiration_units, ing: h.cons_ingress, eg: h.cons_egress, mac: h.mac.0 }).collect(),
                        });
                        if !h_flags_empty(s) {
                            spec.push(("C19:self-consistent:hop-flags".into(), "hop field with alert flags offered".into()));
                        }
                    }
                }
                Err(e) => spec.push(("C19:parse-back".into(), format!("offered path does not parse: {e:?}"))),
            }
        }
        _ => spec.push(("C19:parse-back".into(), "offered path is not a standard path".into())),
    }
    // expiry from the decoded hop fields
    let want_exp = o.segs.iter().map(|s| (s.ts as u64 + exp_secs(s.hops.iter().map(|h| h.exp).min().unwrap_or(0))).min(u32::MAX as u64)).min().unwrap_or(0);
    if o.exp != want_exp || p.expiration() != Some(want_exp as u32) {
        spec.push(("C19:self-consistent:expiry".into(), format!("metadata expiry {} / expiration() {:?} but earliest hop expiry of the encoded path is {}", o.exp, p.expiration(), want_exp)));
    }
    // fingerprint recomputed
    if p.fingerprint() != DpPathFingerprint::from_scion_path(p) {
        spec.push(("C19:self-consistent:fingerprint".into(), "stored fingerprint differs from recomputation".into()));
    }
    // src / dst vs interface list
    if o.ifs.first().map(|x| x.0) != Some(o.src) || o.ifs.last().map(|x| x.0) != Some(o.dst) {
        spec.push(("C19:self-consistent:endpoints".into(), "src_ia/dst_ia differ from first/last interface".into()));
    }
    // interface ids must occur, in order, among the hop-field interface ids in travel order
    let mut all = vec![];
    for s in &o.segs {
        for h in &s.hops {
            let (a, b) = if s.cons { (h.ing, h.eg) } else { (h.eg, h.ing) };
            all.push(a);
            all.push(b);
        }
    }
    let mut k = 0;
    for (_, id) in &o.ifs {
        while k < all.len() && all[k] != *id {
            k += 1;
        }
        if k == all.len() {
            spec.push(("C19:self-consistent:interfaces".into(), format!("metadata interface id {id} is not encoded in the hop fields (in travel order)")));
            break;
        }
        k += 1;
    }
    if o.ifs.iter().any(|x| x.1 == 0) {
        spec.push(("C19:self-consistent:interfaces".into(), "metadata lists interface id 0".into()));
    }
    o
}
fn h_flags_empty(s: &sciparse::dataplane_path::standard::model::Segment) -> bool {
    s.hop_fields.iter().all(|h| h.flags.is_empty())
}

fn run_impl(c: &Case) -> Result<ImplOut, String> {
    let cores: Vec<UnsignedPathSegment> = c.cores.iter().map(|s| s.real()).collect();
    let noncores: Vec<UnsignedPathSegment> = c.noncores.iter().map(|s| s.real()).collect();
    let (src, dst) = (IsdAsn(c.src), IsdAsn(c.dst));
    let t = Instant::now();
    let r = catch(move || combine(src, dst, cores, noncores));
    let micros = t.elapsed().as_micros();
    let paths = r?;
    let mut spec = vec![];
    let out = catch(|| paths.iter().map(|p| decode_path(p, &mut spec)).collect::<Vec<_>>()).map_err(|e| format!("decode: {e}"))?;
    Ok(ImplOut { paths: out, self_spec: spec, micros })
}
fn impl_string(r: &Result<ImplOut, String>) -> String {
    match r {
        Ok(o) => format!("ok{}", o.paths.iter().map(|p| format!(" {}", p.canon())).collect::<String>()),
        Err(e) => format!("panic {}", e.chars().take(80).collect::<String>()),
    }
}

struct ModelOut {
    raw: String,
    tie: bool,
    cands: u64,
    paths: Vec<String>,
    panic: bool,
}
fn run_model(lean: &mut Lean, c: &Case) -> ModelOut {
    let raw = lean.ask(&c.line());
    let w: Vec<&str> = raw.split(' ').collect();
    let mut m = ModelOut { raw: raw.clone(), tie: false, cands: 0, paths: vec![], panic: false };
    if w.first() == Some(&"ok") && w.len() >= 3 {
        m.tie = w[1] == "tie=1";
        m.cands = w[2].trim_start_matches("cands=").parse().unwrap_or(0);
        m.paths = w[3..].iter().map(|s| s.to_string()).collect();
    } else if w.first() == Some(&"panic") {
        m.panic = true;
    }
    m
}

// ------------------------------------------------------------------------------------------------
// topologies and beacons

#[derive(Clone, Debug)]
struct TAs {
    ia: u64,
    core: bool,
    mtu: u32,
}
#[derive(Clone, Copy, Debug, PartialEq, Eq)]
enum LK {
    Core,
    /// a = parent, b = child
    Child,
    Peer,
}
#[derive(Clone, Debug)]
struct TLink {
    a: usize,
    a_if: u16,
    b: usize,
    b_if: u16,
    kind: LK,
    mtu: u16,
}
#[derive(Clone, Debug, Default)]
struct Topo {
    ases: Vec<TAs>,
    links: Vec<TLink>,
    name: String,
}
impl Topo {
    fn idx(&self, ia: u64) -> Option<usize> {
        self.ases.iter().position(|a| a.ia == ia)
    }
    fn link_of(&self, ia: u64, ifid: u16) -> Option<&TLink> {
        let i = self.idx(ia)?;
        self.links.iter().find(|l| (l.a == i && l.a_if == ifid) || (l.b == i && l.b_if == ifid))
    }
    /// (local if, remote as, remote if, link) of every link of `i` of the given kind seen from `i`
    fn out(&self, i: usize) -> Vec<(u16, usize, u16, &TLink, bool)> {
        let mut v = vec![];
        for l in &self.links {
            if l.a == i {
                v.push((l.a_if, l.b, l.b_if, l, true));
            }
            if l.b == i {
                v.push((l.b_if, l.a, l.a_if, l, false));
            }
        }
        v
    }
}

fn ia(isd: u64, asn: u64) -> u64 {
    (isd << 48) | asn
}

fn gen_topo(rng: &mut Rng, small: bool) -> Topo {
    let mut t = Topo { name: "random".into(), ..Default::default() };
    let n_core = if small { rng.range(1, 2) } else { rng.range(1, 4) } as usize;
    let n_non = if small { rng.range(1, 4) } else { rng.range(2, 9) } as usize;
    let mut next_if: Vec<u16> = vec![];
    // AsEntry::mtu is a u32: values beyond u16::MAX are legal on the wire (path MTU is a u16)
    let mtus = [1280u32, 1400, 1472, 1500, 2000, 9000, 1280, 1400, 1472, 1500, 2000, 9000, 9000, 1500, 1400, 65535, 65536, 65536 + 1400, 131072 + 1300];
    for i in 0..n_core + n_non {
        let isd = if i < n_core { 1 + (i as u64 % 2) } else { 1 + rng.below(2) };
        t.ases.push(TAs { ia: ia(isd, 0xff00_0000_0100 + i as u64), core: i < n_core, mtu: *rng.pick(&mtus) });
        next_if.push(rng.range(1, 40) as u16);
    }
    let mut add = |t: &mut Topo, rng: &mut Rng, a: usize, b: usize, kind: LK| {
        let (ai, bi) = (next_if[a], next_if[b]);
        next_if[a] += rng.range(1, 3) as u16;
        next_if[b] += rng.range(1, 3) as u16;
        t.links.push(TLink { a, a_if: ai, b, b_if: bi, kind, mtu: *rng.pick(&[1280u16, 1350, 1400, 1472, 1500, 4000]) });
    };
    // core mesh: spanning chain + extra links (parallel links allowed)
    for i in 1..n_core {
        let j = rng.below(i as u64) as usize;
        add(&mut t, rng, j, i, LK::Core);
    }
    for _ in 0..rng.below(n_core as u64) {
        let (a, b) = (rng.below(n_core as u64) as usize, rng.below(n_core as u64) as usize);
        if a != b {
            add(&mut t, rng, a, b, LK::Core);
        }
    }
    // parent/child DAG: every non-core AS gets 1..2 parents among earlier ASes
    for i in n_core..n_core + n_non {
        let np = if rng.chance(2, 5) { 2 } else { 1 };
        for _ in 0..np {
            let p = rng.below(i as u64) as usize;
            add(&mut t, rng, p, i, LK::Child);
        }
    }
    // peering links between non-core ASes (occasionally to a core)
    let n_peer = rng.below(if small { 2 } else { 4 });
    for _ in 0..n_peer {
        let a = n_core + rng.below(n_non as u64) as usize;
        let b = if rng.chance(1, 6) { rng.below(n_core as u64) as usize } else { n_core + rng.below(n_non as u64) as usize };
        if a != b {
            add(&mut t, rng, a, b, LK::Peer);
        }
    }
    t
}

/// the 20-AS graph of combinator.rs `mod tests` (test_graph.rs default_graph)
fn repo_topo() -> Topo {
    let mut t = Topo { name: "repo-default-graph".into(), ..Default::default() };
    let names: [(u64, u64, bool); 16] = [
        (1, 0x110, true), (1, 0x120, true), (1, 0x130, true), (2, 0x210, true), (2, 0x220, true),
        (1, 0x111, false), (1, 0x112, false), (1, 0x121, false), (1, 0x122, false), (1, 0x131, false), (1, 0x132, false),
        (1, 0x133, false), (2, 0x211, false), (2, 0x212, false), (2, 0x221, false), (2, 0x222, false),
    ];
    for (isd, a, core) in names {
        t.ases.push(TAs { ia: ia(isd, 0xff00_0000_0000 + a), core, mtu: 2000 });
    }
    let ix = |t: &Topo, a: u64| t.ases.iter().position(|x| x.ia & 0xfff == a).unwrap();
    let l: [(u64, u16, u64, u16, LK); 29] = [
        (0x110, 1, 0x120, 6, LK::Core), (0x110, 2, 0x130, 104, LK::Core), (0x110, 3, 0x210, 453, LK::Core),
        (0x120, 1, 0x130, 105, LK::Core), (0x120, 2, 0x220, 501, LK::Core), (0x120, 3, 0x220, 502, LK::Core),
        (0x210, 450, 0x220, 503, LK::Core),
        (0x120, 4, 0x121, 3, LK::Child), (0x120, 5, 0x111, 104, LK::Child), (0x130, 111, 0x131, 479, LK::Child),
        (0x130, 112, 0x111, 105, LK::Child), (0x130, 113, 0x112, 495, LK::Child), (0x111, 103, 0x112, 494, LK::Child),
        (0x121, 2, 0x122, 2, LK::Child), (0x131, 478, 0x132, 2, LK::Child), (0x132, 1, 0x133, 2, LK::Child),
        (0x210, 451, 0x211, 7, LK::Child), (0x210, 452, 0x211, 8, LK::Child), (0x220, 500, 0x221, 2, LK::Child),
        (0x211, 2, 0x212, 201, LK::Child), (0x211, 3, 0x212, 200, LK::Child), (0x211, 4, 0x222, 301, LK::Child),
        (0x221, 1, 0x222, 302, LK::Child),
        (0x111, 100, 0x121, 4, LK::Peer), (0x111, 101, 0x211, 5, LK::Peer), (0x111, 102, 0x211, 6, LK::Peer),
        (0x121, 1, 0x131, 480, LK::Peer), (0x122, 1, 0x133, 1, LK::Peer), (0x211, 1, 0x221, 3, LK::Peer),
    ];
    for (a, ai, b, bi, k) in l {
        let (a, b) = (ix(&t, a), ix(&t, b));
        t.links.push(TLink { a, a_if: ai, b, b_if: bi, kind: k, mtu: 1280 });
    }
    t
}

struct Beacons {
    /// core segments (first AS = origin)
    cores: Vec<MSeg>,
    /// non-core segments (first AS = core origin, last = leaf)
    noncores: Vec<MSeg>,
}

/// segment along `path` = [(as, ingress if, ingress link mtu)], peers attached when `with_peers`
fn mk_seg(t: &Topo, rng: &mut Rng, path: &[(usize, u16, u16)], egress: &[u16], with_peers: bool, fixed: bool) -> MSeg {
    let ts = if fixed { 0 } else { 1_700_000_000 + rng.below(100_000) as u32 };
    let base_exp = if fixed { 63 } else { *rng.pick(&[63u8, 63, 63, 10, 200, 255, 0]) };
    let mut ents = vec![];
    for (k, (a, ing, imtu)) in path.iter().enumerate() {
        let eg = egress[k];
        let exp = if fixed || rng.chance(3, 4) { base_exp } else { rng.below(256) as u8 };
        let mut peers = vec![];
        if with_peers {
            for (lif, ras, rif, l, _) in t.out(*a) {
                if l.kind == LK::Peer {
                    peers.push(MPeer {
                        peer: t.ases[ras].ia,
                        pif: rif,
                        pmtu: l.mtu,
                        hop: MHop { exp: if fixed || rng.chance(3, 4) { exp } else { rng.below(256) as u8 }, ing: lif, eg, mac: if fixed { [0; 6] } else { rng.bytes(6).try_into().unwrap() } },
                    });
                }
            }
        }
        ents.push(MEnt {
            ia: t.ases[*a].ia,
            mtu: t.ases[*a].mtu,
            imtu: *imtu,
            hop: MHop { exp, ing: *ing, eg, mac: if fixed { [0; 6] } else { rng.bytes(6).try_into().unwrap() } },
            peers,
        });
    }
    MSeg { ts, segid: if fixed { 42 } else { rng.below(65536) as u16 }, ents }
}

fn beacons(t: &Topo, rng: &mut Rng, max_len: usize, cap: usize, fixed: bool) -> Beacons {
    let mut b = Beacons { cores: vec![], noncores: vec![] };
    // DFS over simple paths
    fn dfs(
        t: &Topo, rng: &mut Rng, kind: LK, path: &mut Vec<(usize, u16, u16)>, egress: &mut Vec<u16>, out: &mut Vec<MSeg>, max_len: usize, cap: usize, fixed: bool,
    ) {
        let cur = path.last().unwrap().0;
        if path.len() >= 2 && out.len() < cap {
            let mut eg = egress.clone();
            eg.push(0);
            out.push(mk_seg(t, rng, path, &eg, kind == LK::Child, fixed));
        }
        if path.len() >= max_len {
            return;
        }
        for (lif, ras, rif, l, from_a) in t.out(cur) {
            if l.kind != kind || (kind == LK::Child && !from_a) {
                continue;
            }
            if path.iter().any(|p| p.0 == ras) {
                continue;
            }
            path.push((ras, rif, l.mtu));
            egress.push(lif);
            dfs(t, rng, kind, path, egress, out, max_len, cap, fixed);
            egress.pop();
            path.pop();
        }
    }
    for (i, a) in t.ases.iter().enumerate() {
        if a.core {
            dfs(t, rng, LK::Core, &mut vec![(i, 0, 0)], &mut vec![], &mut b.cores, max_len, cap, fixed);
            dfs(t, rng, LK::Child, &mut vec![(i, 0, 0)], &mut vec![], &mut b.noncores, max_len, cap, fixed);
        }
    }
    b
}

/// what a path server would answer for (src, dst): up-segments of src, down-segments of dst, core segments
fn request(t: &std::rc::Rc<Topo>, b: &Beacons, src: u64, dst: u64, rng: &mut Rng, kind: &str) -> Case {
    let mut noncores: Vec<MSeg> = b.noncores.iter().filter(|s| s.ents.last().map(|e| e.ia == src || e.ia == dst).unwrap_or(false)).cloned().collect();
    let mut cores: Vec<MSeg> = b.cores.clone();
    // a path server returns core segments between the cores of the up and down segments; passing all of
    // them is a superset.  Sometimes thin out.
    if rng.chance(1, 4) {
        cores.retain(|_| rng.chance(2, 3));
    }
    if rng.chance(1, 6) {
        noncores.retain(|_| rng.chance(3, 4));
    }
    Case { kind: kind.into(), src, dst, cores, noncores, topo: Some(t.clone()) }
}

/// all beacons of the topology, including non-core segments whose leaf is neither src nor dst (a cache, or a
/// control service answering more than it was asked): the SCION rules still only allow up? core? down?
fn request_all(t: &std::rc::Rc<Topo>, b: &Beacons, src: u64, dst: u64, rng: &mut Rng, kind: &str) -> Case {
    let mut noncores: Vec<MSeg> = b.noncores.clone();
    // keep every segment of src / dst, thin the foreign ones to bound the search
    let mut foreign = 0;
    noncores.retain(|s| {
        let own = s.ents.last().map(|e| e.ia == src || e.ia == dst).unwrap_or(false);
        if !own {
            foreign += 1;
        }
        own || foreign <= 24
    });
    rng.shuffle(&mut noncores);
    Case { kind: kind.into(), src, dst, cores: b.cores.clone(), noncores, topo: Some(t.clone()) }
}

/// "long" stream: loop-free paths at the limits of the path header.  A chain topology
/// src = U[a-1] .. U[0] (= K[0]) == K[1] == .. K[b-1] (= D[0]) .. D[c-1] = dst with `a` / `b` / `c` ASes on the up /
/// core / down part (0 = part absent), all ASes distinct, all interface ids distinct and non-zero; exactly one
/// segment per part, so that the offered path has a + b + c hop fields.
fn chain_case(rng: &mut Rng, a: usize, b: usize, c: usize) -> Case {
    let mut t = Topo { name: format!("chain-{a}-{b}-{c}"), ..Default::default() };
    let mtus = [1280u32, 1400, 1472, 1500, 2000, 9000];
    let mut next_if: Vec<u16> = vec![];
    let mut new_as = |t: &mut Topo, rng: &mut Rng, core: bool| -> usize {
        let i = t.ases.len();
        t.ases.push(TAs { ia: ia(1, 0xff00_0000_4000 + i as u64), core, mtu: *rng.pick(&mtus) });
        next_if.push(rng.range(1, 30) as u16);
        i
    };
    // the AS indices of the three parts; consecutive parts share their end AS
    let nb = b.max(1);
    let ks: Vec<usize> = (0..nb).map(|_| new_as(&mut t, rng, true)).collect();
    let mut us = vec![ks[0]];
    for _ in 1..a {
        us.push(new_as(&mut t, rng, false));
    }
    let mut ds = vec![ks[nb - 1]];
    for _ in 1..c {
        ds.push(new_as(&mut t, rng, false));
    }
    let mut link = |t: &mut Topo, rng: &mut Rng, x: usize, y: usize, kind: LK| {
        let (xi, yi) = (next_if[x], next_if[y]);
        next_if[x] += rng.range(1, 3) as u16;
        next_if[y] += rng.range(1, 3) as u16;
        t.links.push(TLink { a: x, a_if: xi, b: y, b_if: yi, kind, mtu: *rng.pick(&[1280u16, 1350, 1400, 1472, 1500, 4000]) });
    };
    for w in ks.windows(2) {
        link(&mut t, rng, w[0], w[1], LK::Core);
    }
    for w in us.windows(2) {
        link(&mut t, rng, w[0], w[1], LK::Child);
    }
    for w in ds.windows(2) {
        link(&mut t, rng, w[0], w[1], LK::Child);
    }
    // a beacon along a chain of ASes (construction order)
    let seg = |t: &Topo, rng: &mut Rng, chain: &[usize]| -> MSeg {
        let mut path = vec![(chain[0], 0u16, 0u16)];
        let mut egress = vec![];
        for w in chain.windows(2) {
            let l = t.links.iter().find(|l| (l.a == w[0] && l.b == w[1]) || (l.a == w[1] && l.b == w[0])).unwrap();
            let (eg, ing) = if l.a == w[0] { (l.a_if, l.b_if) } else { (l.b_if, l.a_if) };
            egress.push(eg);
            path.push((w[1], ing, l.mtu));
        }
        egress.push(0);
        mk_seg(t, rng, &path, &egress, false, false)
    };
    let mut cores = vec![];
    let mut noncores = vec![];
    if b >= 2 {
        let mut k = ks.clone();
        if rng.chance(1, 2) {
            k.reverse();
        }
        cores.push(seg(&t, rng, &k));
    }
    if a >= 2 {
        noncores.push(seg(&t, rng, &us));
    }
    if c >= 2 {
        noncores.push(seg(&t, rng, &ds));
    }
    let src = t.ases[*us.last().unwrap()].ia;
    let dst = t.ases[*ds.last().unwrap()].ia;
    Case { kind: "long".into(), src, dst, cores, noncores, topo: Some(std::rc::Rc::new(t)) }
}

/// (a, b, c) of the long stream: around 63 hop fields per segment and 64 per path
fn chain_shapes(rng: &mut Rng, thorough: bool) -> Vec<(usize, usize, usize)> {
    let mut v = vec![
        // one segment: 62, 63 fit, 64, 65 do not (SegLen has 6 bits)
        (62, 0, 0), (63, 0, 0), (64, 0, 0), (65, 0, 0), (0, 0, 63), (0, 0, 64), (0, 63, 0), (0, 64, 0),
        // two segments joined at the core: 64 hop fields fit, 65 do not (CurrHF has 6 bits)
        (32, 0, 32), (33, 0, 32), (62, 0, 2), (63, 0, 2), (2, 0, 63), (2, 62, 0), (0, 62, 3),
        // three segments
        (22, 22, 20), (22, 22, 21), (22, 22, 22), (2, 60, 2), (2, 61, 2), (2, 63, 2), (30, 4, 30), (30, 5, 30),
    ];
    let extra = if thorough { 60 } else { 6 };
    for _ in 0..extra {
        // random split of 62..66 hop fields over the parts
        let total = rng.range(62, 66) as usize;
        let a = rng.range(2, total as u64 - 4) as usize;
        let rest = total - a;
        if rng.chance(1, 2) {
            v.push((a, 0, rest));
        } else {
            let bb = rng.range(2, rest as u64 - 2) as usize;
            v.push((a, bb, rest - bb));
        }
    }
    v
}

/// segments that cannot contribute a valid path, whatever else is given (C19: "are ignored without affecting
/// paths built from the others"): no AS entries / one AS entry; ASes that occur nowhere else; from src to dst
/// but without any interface id; from src to dst over more ASes than a segment of a path can hold
fn garbage(rng: &mut Rng, c: &Case) -> (Case, &'static str) {
    let mut g = c.clone();
    g.topo = None;
    let fresh = |k: u64| ia(7, 0xff00_0000_9000 + k);
    let ent = |a: u64, ing: u16, eg: u16| MEnt { ia: a, mtu: 1500, imtu: if ing == 0 { 0 } else { 1400 }, hop: MHop { exp: 255, ing, eg, mac: [3; 6] }, peers: vec![] };
    let (x, y) = if rng.chance(1, 2) { (c.src, c.dst) } else { (c.dst, c.src) };
    // a segment without interface ids contributes hop fields but no interface: together with *another* malformed
    // segment (e.g. a single-AS core segment with an interface id) the code builds a path from it, so it is
    // "garbage whatever else is given" only next to a well-formed set
    let kind = match rng.below(5) {
        3 if c.topo.is_none() => 2,
        k => k,
    };
    let (seg, tag) = match kind {
        0 => (MSeg { ts: 5, segid: 5, ents: vec![] }, "garbage empty"),
        1 => (MSeg { ts: 5, segid: 5, ents: vec![ent(fresh(0), 0, 0)] }, "garbage single foreign AS"),
        2 => {
            let n = rng.range(2, 5);
            let ents = (0..n).map(|k| ent(fresh(k), if k == 0 { 0 } else { 10 + k as u16 }, if k + 1 == n { 0 } else { 20 + k as u16 })).collect();
            (MSeg { ts: 1_800_000_000, segid: 9, ents }, "garbage foreign ASes")
        }
        3 => {
            let n = rng.range(2, 4);
            let ents = (0..n).map(|k| ent(if k == 0 { x } else if k + 1 == n { y } else { fresh(k) }, 0, 0)).collect();
            (MSeg { ts: 1_800_000_000, segid: 9, ents }, "garbage src-dst without interface ids")
        }
        _ => {
            let n = *rng.pick(&[64u64, 65, 70, 100]);
            let ents = (0..n).map(|k| ent(if k == 0 { x } else if k + 1 == n { y } else { fresh(k) }, if k == 0 { 0 } else { 100 + k as u16 }, if k + 1 == n { 0 } else { 300 + k as u16 })).collect();
            (MSeg { ts: 1_800_000_000, segid: 9, ents }, "garbage src-dst over more than 63 ASes")
        }
    };
    let n_more = rng.below(2);
    for k in 0..=n_more {
        let mut s2 = seg.clone();
        s2.segid = s2.segid.wrapping_add(k as u16);
        if rng.chance(1, 2) {
            let at = rng.below(g.cores.len() as u64 + 1) as usize;
            g.cores.insert(at, s2);
        } else {
            let at = rng.below(g.noncores.len() as u64 + 1) as usize;
            g.noncores.insert(at, s2);
        }
    }
    (g, tag)
}

// ------------------------------------------------------------------------------------------------
// C19: structural mutations and soup

fn mutate(rng: &mut Rng, c: &Case) -> Case {
    let mut c = c.clone();
    c.topo = None;
    let n_mut = rng.range(1, 3);
    let mut tags = vec![];
    for _ in 0..n_mut {
        let total = c.cores.len() + c.noncores.len();
        if total == 0 {
            c.noncores.push(MSeg { ts: 0, segid: 0, ents: vec![] });
            tags.push("add-empty");
            continue;
        }
        let pick = rng.below(total as u64) as usize;
        let is_core = pick < c.cores.len();
        let mut pool: Vec<u64> = c.cores.iter().chain(c.noncores.iter()).flat_map(|s| s.ents.iter().map(|e| e.ia)).collect();
        pool.push(c.src);
        pool.push(c.dst);
        let seg = if is_core { &mut c.cores[pick] } else { &mut c.noncores[pick - c.cores.len()] };
        let n = seg.ents.len();
        let m = rng.below(20);
        match m {
            0 if n > 0 => {
                seg.ents.remove(rng.below(n as u64) as usize);
                tags.push("delete-entry");
            }
            1 if n > 0 => {
                let i = rng.below(n as u64) as usize;
                let e = seg.ents[i].clone();
                seg.ents.insert(rng.below(n as u64 + 1) as usize, e);
                tags.push("duplicate-entry");
            }
            2 if n > 1 => {
                let (i, j) = (rng.below(n as u64) as usize, rng.below(n as u64) as usize);
                seg.ents.swap(i, j);
                tags.push("reorder-entries");
            }
            3 => {
                seg.ents.reverse();
                tags.push("reverse-entries");
            }
            4 if n > 0 => {
                let i = rng.below(n as u64) as usize;
                match rng.below(3) {
                    0 => seg.ents[i].hop.ing = 0,
                    1 => seg.ents[i].hop.eg = 0,
                    _ => {
                        seg.ents[i].hop.ing = 0;
                        seg.ents[i].hop.eg = 0
                    }
                }
                tags.push("zero-ifid");
            }
            5 => {
                for e in seg.ents.iter_mut() {
                    e.hop.ing = 0;
                    e.hop.eg = 0;
                    if rng.chance(1, 2) {
                        for p in e.peers.iter_mut() {
                            p.hop.ing = 0;
                            p.hop.eg = 0;
                        }
                    }
                }
                tags.push("zero-all-ifids");
            }
            6 if n > 1 => {
                let (i, j) = (rng.below(n as u64) as usize, rng.below(n as u64) as usize);
                seg.ents[i].hop.ing = seg.ents[j].hop.ing;
                seg.ents[i].hop.eg = seg.ents[j].hop.ing;
                tags.push("alias-ifids");
            }
            7 if n > 0 => {
                let i = rng.below(n as u64) as usize;
                let other = *rng.pick(&pool);
                if let Some(p) = seg.ents[i].peers.first_mut() {
                    match rng.below(3) {
                        0 => p.peer = other,
                        1 => p.pif = rng.below(4) as u16,
                        _ => p.hop.ing = rng.below(4) as u16,
                    }
                } else {
                    let eg = seg.ents[i].hop.eg;
                    seg.ents[i].peers.push(MPeer { peer: other, pif: rng.below(50) as u16, pmtu: rng.below(2000) as u16, hop: MHop { exp: rng.below(256) as u8, ing: rng.below(50) as u16, eg, mac: [1; 6] } });
                }
                tags.push("cross-wire-peer");
            }
            8 if n > 0 => {
                // oversize: > 63 hops
                let want = *rng.pick(&[64usize, 65, 70, 100, 255, 256, 257, 300]);
                let mut k = 0u64;
                while seg.ents.len() < want {
                    let mut e = seg.ents[rng.below(n as u64) as usize].clone();
                    if rng.chance(1, 2) {
                        e.ia = ia(3, 0x1000 + k);
                    }
                    k += 1;
                    let at = rng.below(seg.ents.len() as u64 + 1) as usize;
                    seg.ents.insert(at, e);
                }
                tags.push("oversize");
            }
            9 => {
                seg.ents.truncate(rng.below(2) as usize);
                tags.push("degenerate-0-1");
            }
            10 if n > 0 => {
                let i = rng.below(n as u64) as usize;
                seg.ents.swap(0, i);
                seg.ents.truncate(1);
                tags.push("single-as");
            }
            11 if n > 0 => {
                let i = rng.below(n as u64) as usize;
                seg.ents[i].mtu = *rng.pick(&[0u32, 1, 65535, 65536, 65537, 70000, 131072 + 100, u32::MAX]);
                tags.push("mtu-range");
            }
            12 if n > 0 => {
                let i = rng.below(n as u64) as usize;
                seg.ents[i].imtu = *rng.pick(&[0u16, 1, 65535]);
                for p in seg.ents[i].peers.iter_mut() {
                    p.pmtu = *rng.pick(&[0u16, 1, 65535]);
                }
                tags.push("link-mtu-range");
            }
            13 if n > 1 => {
                let (i, j) = (rng.below(n as u64) as usize, rng.below(n as u64) as usize);
                seg.ents[i].ia = seg.ents[j].ia;
                tags.push("repeat-as");
            }
            14 => {
                seg.ts = *rng.pick(&[0u32, u32::MAX, u32::MAX - 100, u32::MAX - 86_400]);
                for e in seg.ents.iter_mut() {
                    e.hop.exp = *rng.pick(&[0u8, 255, 1]);
                }
                tags.push("time-range");
            }
            15 => {
                // move between the core and non-core lists
                let s = if is_core { c.cores.remove(pick) } else { c.noncores.remove(pick - c.cores.len()) };
                if is_core { c.noncores.push(s) } else { c.cores.push(s) }
                tags.push("swap-kind");
            }
            16 => {
                // same hops, other timestamp / MACs (equal PathSegment::id())
                let mut s = seg.clone();
                s.ts = s.ts.wrapping_add(rng.below(1000) as u32);
                for e in s.ents.iter_mut() {
                    e.hop.mac = rng.bytes(6).try_into().unwrap();
                    if rng.chance(1, 3) {
                        e.hop.exp = rng.below(256) as u8;
                    }
                }
                if is_core { c.cores.push(s) } else { c.noncores.push(s) }
                tags.push("rebeaconed-copy");
            }
            17 if n > 0 => {
                let i = rng.below(n as u64) as usize;
                for _ in 0..rng.range(1, 3) {
                    if let Some(p) = seg.ents[i].peers.first().cloned() {
                        seg.ents[i].peers.push(p);
                    }
                }
                tags.push("duplicate-peer");
            }
            18 => {
                if rng.chance(1, 2) {
                    c.src = *rng.pick(&pool);
                } else {
                    c.dst = *rng.pick(&pool);
                }
                tags.push("other-endpoint");
            }
            _ => {
                let s = seg.clone();
                if is_core { c.cores.push(s) } else { c.noncores.push(s) }
                tags.push("duplicate-segment");
            }
        }
    }
    tags.sort();
    tags.dedup();
    c.kind = format!("mut:{}", tags.join("+"));
    c
}

/// "twin" stream: for segments of a (well-formed) set add a second version that agrees on everything
/// `PathSegment::id()` hashes (ASes, hop-field interface ids) but differs elsewhere: peer entries
/// prepended / dropped / re-ordered (so the same peering link sits at another index), timestamps,
/// MACs, expiry, MTUs.  The graph must keep the versions apart (its edge maps are keyed by the whole
/// segment); only the order among equal sort keys may depend on hash-map iteration.
fn twins(rng: &mut Rng, c: &Case) -> Case {
    let mut c = c.clone();
    c.topo = None;
    let pool: Vec<u64> = c.cores.iter().chain(c.noncores.iter()).flat_map(|s| s.ents.iter().map(|e| e.ia)).collect();
    let mut tags = BTreeSet::new();
    for core in [false, true] {
        let n = if core { c.cores.len() } else { c.noncores.len() };
        let mut add: Vec<(usize, MSeg, bool)> = vec![];
        for i in 0..n {
            let orig = if core { &c.cores[i] } else { &c.noncores[i] };
            let has_peers = orig.ents.iter().any(|e| !e.peers.is_empty());
            if !(has_peers || rng.chance(1, 4)) {
                continue;
            }
            let mut t = orig.clone();
            let mode = if has_peers { rng.below(6) } else { 4 + rng.below(2) };
            for e in t.ents.iter_mut() {
                match mode {
                    0 => {
                        // another peering link in front: every real link moves one index up
                        let k = rng.range(1, 2);
                        for j in 0..k {
                            e.peers.insert(0, MPeer { peer: if pool.is_empty() { ia(9, 9) } else { *rng.pick(&pool) }, pif: 900 + j as u16, pmtu: 1300, hop: MHop { exp: 63, ing: 900 + j as u16, eg: e.hop.eg, mac: [7; 6] } });
                        }
                        tags.insert("peer-prepended");
                    }
                    1 => {
                        if !e.peers.is_empty() {
                            e.peers.remove(0);
                        }
                        tags.insert("peer-dropped");
                    }
                    2 => {
                        e.peers.reverse();
                        if e.peers.len() < 2 {
                            e.peers.insert(0, MPeer { peer: ia(9, 8), pif: 901, pmtu: 1300, hop: MHop { exp: 63, ing: 901, eg: e.hop.eg, mac: [8; 6] } });
                        }
                        tags.insert("peers-reordered");
                    }
                    3 => {
                        e.peers.clear();
                        tags.insert("peers-removed");
                    }
                    4 => {
                        e.mtu = *rng.pick(&[1200u32, 1300, 8000]);
                        if e.imtu != 0 {
                            e.imtu = *rng.pick(&[1200u16, 1290]);
                        }
                        for p in e.peers.iter_mut() {
                            p.pmtu = 1210;
                        }
                        tags.insert("other-mtus");
                    }
                    _ => {
                        e.hop.mac = rng.bytes(6).try_into().unwrap();
                        e.hop.exp = e.hop.exp.wrapping_sub(1);
                        tags.insert("other-time-macs");
                    }
                }
            }
            if mode >= 5 {
                t.ts = t.ts.wrapping_add(600);
                t.segid ^= 0x5a5a;
            }
            add.push((i, t, rng.chance(1, 2)));
        }
        // insert from the back so that indices stay valid; before or after the original
        for (i, t, before) in add.into_iter().rev() {
            let v = if core { &mut c.cores } else { &mut c.noncores };
            v.insert(if before { i } else { i + 1 }, t);
        }
    }
    c.kind = format!("twin:{}", tags.into_iter().collect::<Vec<_>>().join("+"));
    c
}

/// "rebeacon" stream: two beaconings of the same segment.  A copy of a segment of a well-formed set that agrees
/// with it on every AS, interface id, peer entry and MTU (the same links of the same topology: the set stays
/// well-formed and keeps its topology) but was beaconed at another time: other timestamp, SegID, MACs and hop
/// lifetimes.  In modes `later` / `longer` one version is staler in every hop field, in mode `mixed` hop by hop.
/// Every base is listed in five orders: the staler version directly before / after the fresher one, all staler
/// versions in front of / behind everything else, and shuffled.  The property quantifies over "all orders and
/// duplications of the input segment lists": what is offered (interface sequences, each with the latest
/// obtainable expiry) must be the same in all five.
fn rebeacon(rng: &mut Rng, base: &Case) -> Vec<Case> {
    let mode = rng.below(3);
    let mode_name = ["later", "longer", "mixed"][mode as usize];
    let all = rng.chance(2, 3);
    // (staler, fresher) or (only version, None)
    let pair = |rng: &mut Rng, s: &MSeg, force: bool| -> (MSeg, Option<MSeg>) {
        if !(all || force || rng.chance(1, 2)) {
            return (s.clone(), None);
        }
        let d = *rng.pick(&[1u32, 2, 60, 300, 337, 338, 3600, 43_200]);
        // the copy is the fresher version unless the timestamp leaves no room below
        let copy_fresh = s.ts < d || rng.chance(1, 2);
        let mut c = s.clone();
        c.ts = if copy_fresh { s.ts.saturating_add(d) } else { s.ts - d };
        c.segid = rng.below(65536) as u16;
        let k = rng.range(1, 40) as u8;
        let life = |rng: &mut Rng, h: &mut MHop| {
            h.mac = rng.bytes(6).try_into().unwrap();
            h.exp = match mode {
                0 => h.exp,
                1 => if copy_fresh { h.exp.saturating_add(k) } else { h.exp.saturating_sub(k) },
                _ => match rng.below(3) {
                    0 => h.exp,
                    1 => h.exp.saturating_add(rng.range(1, 40) as u8),
                    _ => h.exp.saturating_sub(rng.range(1, 40) as u8),
                },
            };
        };
        for e in c.ents.iter_mut() {
            life(rng, &mut e.hop);
            for p in e.peers.iter_mut() {
                life(rng, &mut p.hop);
            }
        }
        if copy_fresh { (s.clone(), Some(c)) } else { (c, Some(s.clone())) }
    };
    let nc = base.cores.len();
    let total = nc + base.noncores.len();
    let forced = if total > 0 { rng.below(total as u64) as usize } else { usize::MAX };
    let cores: Vec<(MSeg, Option<MSeg>)> = base.cores.iter().enumerate().map(|(i, s)| pair(rng, s, i == forced)).collect();
    let noncores: Vec<(MSeg, Option<MSeg>)> = base.noncores.iter().enumerate().map(|(i, s)| pair(rng, s, nc + i == forced)).collect();
    let lay = |ps: &[(MSeg, Option<MSeg>)], order: u8| -> Vec<MSeg> {
        let mut v = vec![];
        match order {
            0 => ps.iter().for_each(|(a, b)| {
                v.push(a.clone());
                v.extend(b.clone());
            }),
            1 => ps.iter().for_each(|(a, b)| {
                v.extend(b.clone());
                v.push(a.clone());
            }),
            2 => {
                // staler versions first, then the segments given once, then the fresher versions
                v.extend(ps.iter().filter(|p| p.1.is_some()).map(|p| p.0.clone()));
                v.extend(ps.iter().filter(|p| p.1.is_none()).map(|p| p.0.clone()));
                v.extend(ps.iter().filter_map(|p| p.1.clone()));
            }
            _ => {
                v.extend(ps.iter().filter_map(|p| p.1.clone()));
                v.extend(ps.iter().filter(|p| p.1.is_none()).map(|p| p.0.clone()));
                v.extend(ps.iter().filter(|p| p.1.is_some()).map(|p| p.0.clone()));
            }
        }
        v
    };
    let mut out = vec![];
    for (order, name) in [(0u8, "stale-first"), (1, "fresh-first"), (2, "stale-block-first"), (3, "fresh-block-first")] {
        out.push(Case { kind: format!("rebeacon:{mode_name}+{name}"), cores: lay(&cores, order), noncores: lay(&noncores, order), ..base.clone() });
    }
    let mut sh = out[0].clone();
    rng.shuffle(&mut sh.cores);
    rng.shuffle(&mut sh.noncores);
    sh.kind = format!("rebeacon:{mode_name}+shuffled");
    out.push(sh);
    out
}

/// shapes of the paths a set offers (for the quotas of the rebeacon stream)
fn path_shapes(c: &Case, o: &ImplOut) -> BTreeSet<String> {
    let is_core = |ia: u64| c.topo.as_ref().and_then(|t| t.idx(ia).map(|i| t.ases[i].core)).unwrap_or(false);
    o.paths
        .iter()
        .map(|p| {
            let peer = p.segs.iter().any(|s| s.peer);
            match p.segs.len() {
                1 if is_core(c.src) && is_core(c.dst) => "core-only".to_string(),
                1 if !p.segs[0].cons => "up-only".to_string(),
                1 => "down-only".to_string(),
                2 if peer => "up+down over a peering link".to_string(),
                2 => "two segments (up+down shortcut / up+core / core+down)".to_string(),
                n => format!("up+core+down ({n} segments)"),
            }
        })
        .collect()
}

fn soup(rng: &mut Rng) -> Case {
    let big = rng.chance(1, 3);
    let (n_seg, pool_n, max_ent) = if big { (rng.range(13, 40), rng.range(8, 14), 4) } else { (rng.range(0, 12), rng.range(2, 6), 6) };
    let pool: Vec<u64> = (0..pool_n).map(|i| ia(1, 1 + i)).collect();
    let ifs = [0u16, 1, 1, 2, 2, 3];
    let mk = |rng: &mut Rng| -> MSeg {
        let n = rng.below(max_ent + 1) as usize;
        let ents = (0..n)
            .map(|_| {
                let np = if rng.chance(1, 4) { rng.range(1, 2) } else { 0 };
                MEnt {
                    ia: *rng.pick(&pool),
                    mtu: *rng.pick(&[0u32, 1280, 1500, 65536 + 1400, 9000]),
                    imtu: *rng.pick(&[0u16, 1280, 1400]),
                    hop: MHop { exp: *rng.pick(&[0u8, 63, 255]), ing: *rng.pick(&ifs), eg: *rng.pick(&ifs), mac: [rng.below(256) as u8, rng.below(256) as u8, 0, 0, 0, 1] },
                    peers: (0..np)
                        .map(|_| MPeer { peer: *rng.pick(&pool), pif: *rng.pick(&ifs), pmtu: *rng.pick(&[0u16, 1300]), hop: MHop { exp: 63, ing: *rng.pick(&ifs), eg: *rng.pick(&ifs), mac: [9; 6] } })
                        .collect(),
                }
            })
            .collect();
        MSeg { ts: rng.below(3) as u32 * 1000, segid: rng.below(4) as u16, ents }
    };
    let n_core = rng.below(n_seg / 2 + 1);
    let cores = (0..n_core).map(|_| mk(rng)).collect();
    let noncores = (0..n_seg - n_core).map(|_| mk(rng)).collect();
    let src = *rng.pick(&pool);
    let dst = if rng.chance(1, 20) { src } else { *rng.pick(&pool) };
    Case { kind: if big { "soup-big".into() } else { "soup".into() }, src, dst, cores, noncores, topo: None }
}

// ------------------------------------------------------------------------------------------------
// C04: independent enumerator of the combination rules + topology-aware checks

#[derive(Clone, Debug, PartialEq, Eq, Hash)]
enum Node {
    As(u64),
    /// crossing the peering link from (ia, if) to (ia, if)
    Link(u64, u16, u64, u16),
}
/// how a piece uses its segment: a non-core segment travelled from its leaf towards the core is an
/// up segment, towards its leaf a down segment; SCION paths are up? core? down? (valley free)
#[derive(Clone, Copy, Debug, PartialEq, Eq, PartialOrd, Ord)]
enum Use {
    Up,
    Core,
    Down,
}
/// SCION header limits (specification, not read from the code): SegLen is a 6 bit field, CurrHF is a 6 bit field
const SPEC_MAX_SEG_HOPS: usize = 63;
const SPEC_MAX_PATH_HOPS: usize = 64;
#[derive(Clone, Debug)]
struct Piece {
    usage: Use,
    /// hop fields the piece puts into the path
    nhops: usize,
    from: Node,
    to: Node,
    ifs: Vec<(u64, u16)>,
    ases: Vec<u64>,
    /// earliest expiry of the hop fields the piece puts into the path (SCION: a hop field expires at the
    /// timestamp of its segment + (ExpTime + 1) * 24 h / 256)
    exp: u64,
}
/// all admissible uses of one segment (declarative: positions in the segment, not graph edges)
fn pieces(s: &MSeg, core: bool) -> Vec<Piece> {
    let l = s.ents.len();
    let mut out = vec![];
    if l == 0 {
        return out;
    }
    // interface list of the sub-segment ents[c..] walked from the leaf towards ents[c]
    let up_ifs = |c: usize, peer: Option<&MPeer>| -> Vec<(u64, u16)> {
        let mut v = vec![];
        for i in (c..l).rev() {
            let e = &s.ents[i];
            if i < l - 1 {
                v.push((e.ia, if i == c && peer.is_some() { peer.unwrap().hop.eg } else { e.hop.eg }));
            }
            if i > c {
                v.push((e.ia, e.hop.ing));
            } else if let Some(p) = peer {
                v.push((e.ia, p.hop.ing));
            }
        }
        v
    };
    let ases = |c: usize| -> Vec<u64> { (c..l).rev().map(|i| s.ents[i].ia).collect() };
    // the hop fields of ents[c..]; at a peering crossing the peer entry's hop field replaces that of ents[c]
    let exp_of = |c: usize, peer: Option<&MPeer>| -> u64 {
        (c..l)
            .map(|i| {
                let h = if i == c && peer.is_some() { &peer.unwrap().hop } else { &s.ents[i].hop };
                (s.ts as u64 + exp_secs(h.exp)).min(u32::MAX as u64)
            })
            .min()
            .unwrap_or(0)
    };
    let leaf = s.ents[l - 1].ia;
    if core {
        if l >= 2 {
            let f = s.ents[0].ia;
            let v = up_ifs(0, None);
            out.push(Piece { usage: Use::Core, nhops: l, from: Node::As(leaf), to: Node::As(f), ifs: v.clone(), ases: ases(0), exp: exp_of(0, None) });
            out.push(Piece { usage: Use::Core, nhops: l, from: Node::As(f), to: Node::As(leaf), ifs: v.into_iter().rev().collect(), ases: ases(0).into_iter().rev().collect(), exp: exp_of(0, None) });
        }
        return out;
    }
    for c in 0..l {
        if c < l - 1 {
            let v = up_ifs(c, None);
            out.push(Piece { usage: Use::Up, nhops: l - c, from: Node::As(leaf), to: Node::As(s.ents[c].ia), ifs: v.clone(), ases: ases(c), exp: exp_of(c, None) });
            out.push(Piece { usage: Use::Down, nhops: l - c, from: Node::As(s.ents[c].ia), to: Node::As(leaf), ifs: v.into_iter().rev().collect(), ases: ases(c).into_iter().rev().collect(), exp: exp_of(c, None) });
        }
        for p in &s.ents[c].peers {
            let v = up_ifs(c, Some(p));
            let e = &s.ents[c];
            out.push(Piece { usage: Use::Up, nhops: l - c, from: Node::As(leaf), to: Node::Link(e.ia, p.hop.ing, p.peer, p.pif), ifs: v.clone(), ases: ases(c), exp: exp_of(c, Some(p)) });
            out.push(Piece { usage: Use::Down, nhops: l - c, from: Node::Link(p.peer, p.pif, e.ia, p.hop.ing), to: Node::As(leaf), ifs: v.into_iter().rev().collect(), ases: ases(c).into_iter().rev().collect(), exp: exp_of(c, Some(p)) });
        }
    }
    out
}
/// interface lists of all loop-free, encodable end-to-end combinations (up?·core?·down? incl. shortcut, on-path,
/// peering; a non-core segment is an up segment when travelled from its leaf, a down segment when travelled
/// towards it, whatever src and dst are), each with the latest expiry among the combinations that yield it (the
/// expiry of a combination = the earliest expiry of its hop fields): "each once" - of several obtainable paths
/// over one interface sequence the one that stays valid longest is the one to offer, whatever the input order
fn enumerate_spec(c: &Case) -> BTreeMap<Vec<(u64, u16)>, u64> {
    let mut res: BTreeMap<Vec<(u64, u16)>, u64> = BTreeMap::new();
    let mut put = |ifs: Vec<(u64, u16)>, exp: u64| {
        let e = res.entry(ifs).or_insert(exp);
        *e = (*e).max(exp);
    };
    if c.src == c.dst {
        return BTreeMap::new();
    }
    let ps: Vec<Piece> = c.cores.iter().flat_map(|s| pieces(s, true)).chain(c.noncores.iter().flat_map(|s| pieces(s, false))).collect();
    // up? core? down?: the uses are strictly ordered Up < Core < Down (no segment after a down segment, no
    // up segment after another segment, at most one core segment)
    let kinds_ok = |k: &[Use]| k.windows(2).all(|w| w[0] < w[1]);
    let loop_free = |chain: &[&Piece]| -> bool {
        // the combination must fit the SCION path header
        if chain.iter().any(|p| p.nhops > SPEC_MAX_SEG_HOPS) || chain.iter().map(|p| p.nhops).sum::<usize>() > SPEC_MAX_PATH_HOPS {
            return false;
        }
        // AS sequence: consecutive pieces share the joint AS unless joined over a peering link
        let mut seq: Vec<u64> = vec![];
        for (k, p) in chain.iter().enumerate() {
            let skip = if k > 0 && matches!(p.from, Node::As(_)) { 1 } else { 0 };
            seq.extend(p.ases.iter().skip(skip));
        }
        let set: HashSet<_> = seq.iter().collect();
        set.len() == seq.len()
    };
    let src = Node::As(c.src);
    let dst = Node::As(c.dst);
    for a in ps.iter().filter(|p| p.from == src) {
        if a.to == dst {
            if loop_free(&[a]) {
                put(a.ifs.clone(), a.exp);
            }
            continue;
        }
        for b in ps.iter().filter(|p| p.from == a.to && kinds_ok(&[a.usage, p.usage])) {
            if b.to == dst {
                if loop_free(&[a, b]) {
                    put(a.ifs.iter().chain(b.ifs.iter()).cloned().collect(), a.exp.min(b.exp));
                }
                continue;
            }
            for d in ps.iter().filter(|p| p.from == b.to && p.to == dst && kinds_ok(&[a.usage, b.usage, p.usage])) {
                if loop_free(&[a, b, d]) {
                    put(a.ifs.iter().chain(b.ifs.iter()).chain(d.ifs.iter()).cloned().collect(), a.exp.min(b.exp).min(d.exp));
                }
            }
        }
    }
    drop(put);
    res
}

/// C04 checks on the implementation's output for a well-formed set
fn c04_spec(c: &Case, topo: Option<&Topo>, out: &[OPath], spec: &mut Vec<(String, String)>) {
    let mut seen_ifs: HashMap<Vec<(u64, u16)>, usize> = HashMap::new();
    let mut seen_fpr = HashSet::new();
    let mut last_len = 0usize;
    for (pi, p) in out.iter().enumerate() {
        if p.src != c.src || p.dst != c.dst {
            spec.push(("C04:endpoints".into(), format!("path {pi}: src/dst {}→{} but requested {}→{}", p.src, p.dst, c.src, c.dst)));
        }
        // exact interface list from the hop fields in travel order
        let mut want: Vec<u16> = vec![];
        let ns = p.segs.len();
        for (si, s) in p.segs.iter().enumerate() {
            let nh = s.hops.len();
            for (hi, h) in s.hops.iter().enumerate() {
                let (a, b) = if s.cons { (h.ing, h.eg) } else { (h.eg, h.ing) };
                let first = hi == 0;
                let last = hi + 1 == nh;
                // the side of a segment-boundary hop facing away from the segment is used only when the
                // boundary is a peering crossing
                let in_used = !first || (si > 0 && s.peer && p.segs[si - 1].peer);
                let out_used = !last || (si + 1 < ns && s.peer && p.segs[si + 1].peer);
                if in_used && a != 0 {
                    want.push(a);
                }
                if out_used && b != 0 {
                    want.push(b);
                }
            }
        }
        let got: Vec<u16> = p.ifs.iter().map(|x| x.1).collect();
        if got != want {
            spec.push(("C04:interfaces-match-hops".into(), format!("path {pi}: metadata interface ids {got:?} but the hop fields encode {want:?}")));
        }
        // links and ASes of the topology (interface list must pair up into links even without one)
        if topo.is_none() {
            let mut ok = p.ifs.len() % 2 == 0 && !p.ifs.is_empty();
            let mut seq = vec![];
            for k in (0..p.ifs.len().saturating_sub(1)).step_by(2) {
                if k > 0 && p.ifs[k - 1].0 != p.ifs[k].0 {
                    ok = false;
                }
                if k == 0 {
                    seq.push(p.ifs[k].0);
                }
                seq.push(p.ifs[k + 1].0);
            }
            let set: HashSet<_> = seq.iter().collect();
            if !ok {
                spec.push(("C04:interfaces-are-links".into(), format!("path {pi}: interface list {:?} does not pair up into links", p.ifs)));
            } else if set.len() != seq.len() {
                spec.push(("C04:loop-free".into(), format!("path {pi} visits an AS twice: {seq:?}")));
            }
        }
        let t = match topo {
            Some(t) => t,
            None => &Topo::default(),
        };
        let mut ok_links = topo.is_some() && p.ifs.len() % 2 == 0 && !p.ifs.is_empty();
        let mut mtu = u32::MAX;
        let mut as_seq = vec![];
        if ok_links {
            for k in (0..p.ifs.len()).step_by(2) {
                let (a, b) = (p.ifs[k], p.ifs[k + 1]);
                match t.link_of(a.0, a.1) {
                    Some(l) => {
                        let (x, y) = ((t.ases[l.a].ia, l.a_if), (t.ases[l.b].ia, l.b_if));
                        if !((x == a && y == b) || (x == b && y == a)) {
                            ok_links = false;
                        }
                        mtu = mtu.min(l.mtu as u32);
                    }
                    None => ok_links = false,
                }
                if k > 0 && p.ifs[k - 1].0 != a.0 {
                    ok_links = false;
                }
                if k == 0 {
                    as_seq.push(a.0);
                }
                as_seq.push(b.0);
            }
        }
        if topo.is_none() {
        } else if !ok_links {
            spec.push(("C04:interfaces-are-links".into(), format!("path {pi}: interface list {:?} is not a chain of links of the topology", p.ifs)));
        } else {
            for a in &as_seq {
                mtu = mtu.min(t.ases[t.idx(*a).unwrap()].mtu);
            }
            if p.mtu as u32 != mtu.min(65535) {
                spec.push(("C04:mtu-is-min".into(), format!("path {pi}: metadata mtu {} but min over traversed ASes and links is {}", p.mtu, mtu)));
            }
            let set: HashSet<_> = as_seq.iter().collect();
            if set.len() != as_seq.len() {
                spec.push(("C04:loop-free".into(), format!("path {pi} visits an AS twice: {as_seq:?}")));
            }
        }
        // expiry = earliest hop expiry: hop expiry = segment timestamp + exp
        let want_exp = p.segs.iter().flat_map(|s| s.hops.iter().map(move |h| (s.ts as u64 + exp_secs(h.exp)).min(u32::MAX as u64))).min().unwrap_or(0);
        if p.exp != want_exp {
            spec.push(("C04:expiry-is-min".into(), format!("path {pi}: expiry {} but earliest hop expiry {}", p.exp, want_exp)));
        }
        if let Some(prev) = seen_ifs.insert(p.ifs.clone(), pi) {
            spec.push(("C04:nodup-interfaces".into(), format!("paths {prev} and {pi} have the same interface list {:?}", p.ifs.iter().map(|(a, i)| format!("{}#{}", IsdAsn(*a), i)).collect::<Vec<_>>())));
        }
        if !seen_fpr.insert(p.fpr()) {
            spec.push(("C04:nodup-fingerprint".into(), format!("path {pi}: fingerprint offered twice")));
        }
        if p.ifs.len() < last_len {
            spec.push(("C04:sorted-by-cost".into(), format!("path {pi} has {} hops after a path with {}", p.ifs.len() / 2, last_len / 2)));
        }
        last_len = p.ifs.len();
    }
    // soundness / completeness against the independent enumerator
    let best = enumerate_spec(c);
    let want: BTreeSet<Vec<(u64, u16)>> = best.keys().cloned().collect();
    let got: BTreeSet<Vec<(u64, u16)>> = out.iter().map(|p| p.ifs.clone()).collect();
    if let Some(x) = got.difference(&want).next() {
        spec.push(("C04:sound".into(), format!("offered path {:?} is not a loop-free combination of the given segments", x)));
    }
    if let Some(x) = want.difference(&got).next() {
        spec.push(("C04:complete".into(), format!("combination {:?} is not offered", x)));
    }
    // "each once": the one path offered for an interface sequence is the obtainable one that expires latest
    // (two beaconings of one segment, or two segments sharing a stretch, give the same interface sequence with
    // different hop-field lifetimes); independent of the order in which the segments are listed
    for (pi, p) in out.iter().enumerate() {
        if let Some(b) = best.get(&p.ifs) {
            let show = || p.ifs.iter().map(|(a, i)| format!("{}#{}", IsdAsn(*a), i)).collect::<Vec<_>>();
            if p.exp < *b {
                spec.push((
                    "C04:dedup-keeps-latest-expiry".into(),
                    format!("path {pi} over {:?} expires at {} but the given segments also yield this interface sequence with expiry {} ({} s later): a stale copy is offered although a fresher one is obtainable", show(), p.exp, b, b - p.exp),
                ));
            } else if p.exp > *b {
                spec.push(("C04:expiry-obtainable".into(), format!("path {pi} over {:?} claims expiry {} but no combination of the given segments over this interface sequence is valid longer than {}", show(), p.exp, b)));
            }
        }
    }
}

// ------------------------------------------------------------------------------------------------

struct Outcome {
    imp: String,
    model: String,
    disagree: bool,
    tie: bool,
    cands: u64,
    n_paths: usize,
    spec: Vec<(String, String)>,
    micros: u128,
    panicked: bool,
    /// sorted (interface list, expiry) of the offered paths: what must not depend on the input order even when
    /// two given segments have the same id (hop fields / MTU of the survivor may then differ, see the known finding)
    ifs_exp: Vec<(Vec<(u64, u16)>, u64)>,
}

fn ifs_exp_of(r: &Result<ImplOut, String>) -> Vec<(Vec<(u64, u16)>, u64)> {
    let mut v: Vec<_> = r.as_ref().map(|o| o.paths.iter().map(|p| (p.ifs.clone(), p.exp)).collect()).unwrap_or_default();
    v.sort();
    v
}
fn show_ifs_exp(v: &[(Vec<(u64, u16)>, u64)]) -> Vec<String> {
    v.iter().map(|(i, e)| format!("{} expiry {}", i.iter().map(|(a, x)| format!("{}#{}", IsdAsn(*a), x)).collect::<Vec<_>>().join(">"), e)).collect()
}

fn evaluate(c: &Case, lean: &mut Lean, prop: &str, time_limit_us: u128) -> Outcome {
    let r = run_impl(c);
    let imp = impl_string(&r);
    let m = run_model(lean, c);
    let mut spec = vec![];
    let mut disagree = false;
    let (mut n_paths, mut micros) = (0, 0);
    match &r {
        Err(e) => {
            spec.push(("C19:panic".to_string(), format!("combine panicked: {e}")));
            if lean.enabled && !m.panic {
                disagree = true;
            }
        }
        Ok(o) => {
            n_paths = o.paths.len();
            micros = o.micros;
            spec.extend(o.self_spec.iter().cloned());
            if o.micros > time_limit_us {
                spec.push(("C19:time".into(), format!("combine took {} ms on {} segments / {} AS entries", o.micros / 1000, c.cores.len() + c.noncores.len(), c.n_entries())));
            }
            if lean.enabled {
                if m.panic || !m.raw.starts_with("ok") {
                    disagree = true;
                } else if m.tie {
                    // de-duplication key = interface list (field 4 of the canonical form); the survivor is a copy
                    // with the latest expiry (field 3), whichever of the tied candidates came first
                    let proj = |p: &str| {
                        let f: Vec<&str> = p.split('|').collect();
                        format!("{}|{}", f.get(3).unwrap_or(&""), f.get(4).unwrap_or(&""))
                    };
                    let a: BTreeSet<String> = o.paths.iter().map(|p| proj(&p.canon())).collect();
                    let b: BTreeSet<String> = m.paths.iter().map(|p| proj(p)).collect();
                    disagree = a != b || o.paths.len() != m.paths.len();
                } else {
                    let a: Vec<String> = o.paths.iter().map(|p| p.canon()).collect();
                    disagree = a != m.paths;
                }
            }
            if prop == "C04" {
                c04_spec(c, c.topo.as_deref(), &o.paths, &mut spec);
            }
        }
    }
    Outcome { imp, model: m.raw, disagree, tie: m.tie, cands: m.cands, n_paths, spec, micros, panicked: r.is_err(), ifs_exp: ifs_exp_of(&r) }
}

/// the segments of `t` listed in the order in which they occur in `order` (a permutation of a superset of `t`)
fn in_order_of(order: &Case, t: &Case) -> Case {
    let keep = |xs: &Vec<MSeg>, of: &Vec<MSeg>| -> Vec<MSeg> {
        let mut left: Vec<&MSeg> = of.iter().collect();
        xs.iter()
            .filter(|s| match left.iter().position(|l| l == s) {
                Some(k) => {
                    left.remove(k);
                    true
                }
                None => false,
            })
            .cloned()
            .collect()
    };
    Case { cores: keep(&order.cores, &t.cores), noncores: keep(&order.noncores, &t.noncores), ..t.clone() }
}

/// drop whole segments while `fails` holds
fn shrink_segments(c: &Case, fails: &mut dyn FnMut(&Case) -> bool) -> Case {
    let mut cur = c.clone();
    let mut budget = 300;
    loop {
        let mut progress = false;
        for core in [true, false] {
            let mut i = 0;
            while i < (if core { cur.cores.len() } else { cur.noncores.len() }) && budget > 0 {
                let mut t = cur.clone();
                if core { t.cores.remove(i); } else { t.noncores.remove(i); }
                budget -= 1;
                if fails(&t) {
                    cur = t;
                    progress = true;
                } else {
                    i += 1;
                }
            }
        }
        if !progress || budget == 0 {
            return cur;
        }
    }
}

/// greedy structural shrinking: drop segments, entries, peers while `fails` holds
fn shrink(c: &Case, fails: &mut dyn FnMut(&Case) -> bool) -> Case {
    let mut cur = c.clone();
    let mut budget = 400;
    loop {
        let mut progress = false;
        for core in [true, false] {
            let mut i = 0;
            while i < (if core { cur.cores.len() } else { cur.noncores.len() }) && budget > 0 {
                let mut t = cur.clone();
                if core { t.cores.remove(i); } else { t.noncores.remove(i); }
                budget -= 1;
                if fails(&t) {
                    cur = t;
                    progress = true;
                } else {
                    i += 1;
                }
            }
        }
        for core in [true, false] {
            let ns = if core { cur.cores.len() } else { cur.noncores.len() };
            for si in 0..ns {
                let mut ei = 0;
                loop {
                    let n = if core { cur.cores[si].ents.len() } else { cur.noncores[si].ents.len() };
                    if ei >= n || budget == 0 {
                        break;
                    }
                    let mut t = cur.clone();
                    {
                        let s = if core { &mut t.cores[si] } else { &mut t.noncores[si] };
                        if !s.ents[ei].peers.is_empty() {
                            s.ents[ei].peers.pop();
                        } else {
                            s.ents.remove(ei);
                        }
                    }
                    budget -= 1;
                    if fails(&t) {
                        cur = t;
                        progress = true;
                    } else {
                        ei += 1;
                    }
                }
            }
        }
        if !progress || budget == 0 {
            break;
        }
    }
    cur
}

fn case_json(c: &Case) -> serde_json::Value {
    let seg = |s: &MSeg| {
        json!({"ts": s.ts, "segid": s.segid, "hops": s.ents.iter().map(|e| format!("{} {}>{} exp={}{}", IsdAsn(e.ia), e.hop.ing, e.hop.eg, e.hop.exp,
            e.peers.iter().map(|p| format!(" peer[{}#{}<-#{} exp={}]", IsdAsn(p.peer), p.pif, p.hop.ing, p.hop.exp)).collect::<String>())).collect::<Vec<_>>()})
    };
    let line = c.line();
    json!({"kind": c.kind, "src": IsdAsn(c.src).to_string(), "dst": IsdAsn(c.dst).to_string(),
        "cores": c.cores.iter().map(seg).collect::<Vec<_>>(), "non_cores": c.noncores.iter().map(seg).collect::<Vec<_>>(),
        "line": if line.len() <= 6000 { line } else { format!("{}… ({} chars)", &line[..200], line.len()) }})
}

fn check_segid(rep: &mut Report, c: &Case) {
    for s in c.cores.iter().chain(c.noncores.iter()).take(3) {
        let real = format!("{:?}", s.real().id());
        let mine = format!("SegmentID({:?})", s.id());
        if real != mine {
            rep.disagree("segment-id", json!({"segment": format!("{:?}", s)}), &real, &mine);
        }
    }
}

fn main() {
    let args = Args::parse();
    if std::env::var("HX_LOUD").is_err() {
        quiet_panics();
    }
    let prop = if args.prop.is_empty() { "C19".to_string() } else { args.prop.clone() };
    let mut lean = Lean::spawn(&args.driver);
    let mut rng = Rng::new(args.seed);
    let rule = if prop == "C19" {
        "case = (src, dst, core segments, non-core segments) given to the real combine() and to the Lean model; streams: \
         well-formed sets from random topologies and the repo's 20-AS test graph, structural mutations of those \
         (delete/duplicate/reorder entries, zero/alias ids, cross-wired/duplicated peers, >63 hops, single-AS / empty \
         segments, out-of-range MTUs / times, re-beaconed copies, swapped kinds), 'twin' sets (a second version of a segment with the \
         same hop interfaces = same PathSegment::id() but peer entries prepended/dropped/re-ordered, other MTUs, timestamps, MACs; \
         built on sets that offer a peering path), random segment soup up to 40 segments. \
         Non-trivial = the search produced at least one candidate solution (model `cands` > 0) or the call panicked; \
         distinct by hash of the request line"
    } else {
        "case = (src, dst, core segments, non-core segments) of a well-formed set derived from a topology (random cores + \
         parent/child DAG + peering links, or the repo's 20-AS test graph; beacons built by extending along links), all \
         src/dst pairs incl. on-segment and core endpoints, plus shuffled/duplicated variants and 'twin' sets (second version of a \
         segment with the same hop interfaces but other peer entries / MTUs / timestamps / MACs) and 'rebeacon' sets (two beaconings of \
         one segment: same ASes / interfaces / peer entries / MTUs, other timestamp, SegID, MACs, hop lifetimes; bases chosen per \
         offered path shape up-only, down-only, core-only, two segments, peering, up+core+down; each in five orders: staler version \
         directly before / after the fresher one, staler versions in front of / behind everything else, shuffled). Non-trivial = at least one \
         path offered; distinct by hash of the request line"
    };
    let mut rep = Report::new(&prop, rule);
    let thorough = args.thorough();
    let time_limit_us: u128 = 20_000_000;

    let mut cases: Vec<Case> = vec![];
    for l in read_corpus(&args.corpus) {
        match parse_case(&l) {
            Some(c) => cases.push(c),
            None => rep.notes.push(format!("unparseable corpus line: {}", &l[..l.len().min(60)])),
        }
    }
    rep.hit_n("corpus cases", cases.len() as u64);
    if let Some(p) = &args.replay {
        let txt = std::fs::read_to_string(p).expect("replay file");
        cases = vec![];
        // a replay file is either corpus text or the JSON written by bin/check (field case.line)
        if let Ok(v) = serde_json::from_str::<serde_json::Value>(&txt) {
            let mut lines = vec![];
            fn walk(v: &serde_json::Value, out: &mut Vec<String>) {
                match v {
                    serde_json::Value::Object(m) => {
                        for (k, x) in m {
                            if k == "line" {
                                if let Some(s) = x.as_str() {
                                    out.push(s.to_string());
                                }
                            }
                            walk(x, out);
                        }
                    }
                    serde_json::Value::Array(a) => a.iter().for_each(|x| walk(x, out)),
                    _ => {}
                }
            }
            walk(&v, &mut lines);
            cases.extend(lines.iter().filter_map(|l| parse_case(l)));
        } else {
            cases.extend(txt.lines().filter(|l| !l.trim().is_empty() && !l.starts_with('#')).filter_map(parse_case));
        }
    } else {
        // ---- well-formed sets ------------------------------------------------------------------------
        let mut valid: Vec<Case> = vec![];
        {
            let t = std::rc::Rc::new(repo_topo());
            let b = beacons(&t, &mut rng, 4, 400, true);
            rep.hit_n("repo graph: core segments", b.cores.len() as u64);
            rep.hit_n("repo graph: non-core segments", b.noncores.len() as u64);
            let n = t.ases.len();
            for i in 0..n {
                for j in 0..n {
                    if prop == "C19" && !thorough && (i * n + j) % 5 != (args.seed % 5) as usize {
                        continue;
                    }
                    valid.push(request(&t, &b, t.ases[i].ia, t.ases[j].ia, &mut Rng(rng.next() | 1).fork(), "repo-graph"));
                    // do not thin out the repo graph requests
                    let last = valid.last_mut().unwrap();
                    last.cores = b.cores.clone();
                    last.noncores = b.noncores.iter().filter(|s| s.ents.last().map(|e| e.ia == last.src || e.ia == last.dst).unwrap_or(false)).cloned().collect();
                }
            }
        }
        let n_topo = if prop == "C19" { args.scale(40, 1500) } else { args.scale(90, 4000) };
        for k in 0..n_topo {
            let t = std::rc::Rc::new(gen_topo(&mut rng, k % 3 == 0));
            let b = beacons(&t, &mut rng, 4, 60, false);
            let n = t.ases.len();
            let mut pairs: Vec<(usize, usize)> = (0..n).flat_map(|i| (0..n).map(move |j| (i, j))).collect();
            rng.shuffle(&mut pairs);
            let take = if k % 3 == 0 { pairs.len() } else { pairs.len().min(12) };
            for (n_p, (i, j)) in pairs.into_iter().take(take).enumerate() {
                valid.push(request(&t, &b, t.ases[i].ia, t.ases[j].ia, &mut rng, if k % 3 == 0 { "topo-small-all-pairs" } else { "topo-random" }));
                // the same request with every beacon of the topology (foreign leaves): valley-freedom is decided
                // by the topology oracle and the enumerator
                if n_p < 5 {
                    valid.push(request_all(&t, &b, t.ases[i].ia, t.ases[j].ia, &mut rng, "topo-foreign-leaf"));
                }
            }
        }
        // long loop-free paths at the header limits
        for (a, b, c) in chain_shapes(&mut rng, thorough) {
            valid.push(chain_case(&mut rng, a, b, c));
        }
        // twins of sets that offer a peering path (plus some others)
        {
            let want = args.scale(160, 4000);
            let mut made = 0;
            let mut idx: Vec<usize> = (0..valid.len()).collect();
            rng.shuffle(&mut idx);
            for i in idx {
                if made >= want {
                    break;
                }
                let base = &valid[i];
                let uses_peering = match run_impl(base) {
                    Ok(o) => o.paths.iter().any(|p| p.segs.iter().any(|s| s.peer)),
                    Err(_) => false,
                };
                if uses_peering || rng.chance(1, 12) {
                    let t = twins(&mut rng, base);
                    if uses_peering {
                        rep.hit("twin cases built on a set offering a peering path");
                    }
                    cases.push(t);
                    made += 1;
                }
            }
        }
        // two beaconings of the same segment, staler version listed first / last / shuffled, for every path shape
        {
            let quota = args.scale(if prop == "C19" { 4 } else { 14 }, 400);
            let mut used: BTreeMap<String, usize> = BTreeMap::new();
            let mut idx: Vec<usize> = (0..valid.len()).collect();
            rng.shuffle(&mut idx);
            let mut looked = 0;
            for i in idx {
                let base = &valid[i];
                if base.kind == "long" || base.cores.len() + base.noncores.len() > 40 {
                    continue;
                }
                looked += 1;
                if looked > args.scale(1200, 40000) {
                    break;
                }
                let shapes = match run_impl(base) {
                    Ok(o) => path_shapes(base, &o),
                    Err(_) => continue,
                };
                let wanted: Vec<&String> = shapes.iter().filter(|s| used.get(*s).copied().unwrap_or(0) < quota).collect();
                if wanted.is_empty() {
                    continue;
                }
                for s in wanted {
                    *used.entry(s.clone()).or_insert(0) += 1;
                    rep.hit(&format!("rebeacon base offers: {s}"));
                }
                cases.extend(rebeacon(&mut rng, base));
            }
        }
        if prop == "C19" {
            let n_mut = args.scale(1500, 60000);
            let n_soup = args.scale(500, 20000);
            let keep_valid = args.scale(400, 8000);
            for _ in 0..n_mut {
                let base = &valid[rng.below(valid.len() as u64) as usize];
                cases.push(mutate(&mut rng, base));
            }
            for _ in 0..n_soup {
                cases.push(soup(&mut rng));
            }
            rng.shuffle(&mut valid);
            let (long, mut rest): (Vec<Case>, Vec<Case>) = valid.into_iter().partition(|c| c.kind == "long");
            rest.truncate(keep_valid);
            cases.extend(long);
            cases.extend(rest);
        } else {
            // permuted / duplicated variants are produced on the fly below
            cases.extend(valid);
        }
    }

    let mut max_us = 0u128;
    let mut max_cands = 0u64;
    let mut seen_spec: HashSet<String> = HashSet::new();
    let mut n_order_exp = 0;
    let mut n_group_fail = 0;
    let mut group: Option<(String, Case, Vec<(Vec<(u64, u16)>, u64)>)> = None;
    for c in &cases {
        let o = evaluate(c, &mut lean, &prop, time_limit_us);
        let line = c.line();
        let nontrivial = if prop == "C19" { o.cands > 0 || o.panicked || (!lean.enabled && o.n_paths > 0) } else { o.n_paths > 0 };
        rep.case(&line, nontrivial);
        rep.traces += 1;
        rep.hit(&format!("stream {}", c.kind.split(':').next().unwrap_or("")));
        if let Some(m) = c.kind.strip_prefix("twin:") {
            for t in m.split('+') {
                rep.hit(&format!("twin {t}"));
            }
        }
        if let Some(m) = c.kind.strip_prefix("mut:") {
            for t in m.split('+') {
                rep.hit(&format!("mutation {t}"));
            }
        }
        if let Some(m) = c.kind.strip_prefix("rebeacon:") {
            for t in m.split('+') {
                rep.hit(&format!("rebeacon {t}"));
            }
            // the five orders of one base follow each other: same segments, same request
            let mut segs: Vec<String> = c.cores.iter().map(|s| format!("c{s:?}")).chain(c.noncores.iter().map(|s| format!("n{s:?}"))).collect();
            segs.sort();
            let gkey = format!("{} {} {}", c.src, c.dst, segs.join(" "));
            match &group {
                Some((k, first, first_out)) if *k == gkey && !o.panicked => {
                    rep.hit("rebeacon: order compared with the stale-first order of the same set");
                    if *first_out != o.ifs_exp && n_group_fail < 3 {
                        n_group_fail += 1;
                        let order = c.clone();
                        let mut f = |t: &Case| ifs_exp_of(&run_impl(t)) != ifs_exp_of(&run_impl(&in_order_of(&order, t)));
                        let small = shrink_segments(first, &mut f);
                        let sv = in_order_of(&order, &small);
                        let (a, b) = (ifs_exp_of(&run_impl(&small)), ifs_exp_of(&run_impl(&sv)));
                        rep.spec_fail(
                            &format!("{prop}:order-independent:rebeaconed-segment"),
                            "two beaconings of one segment (same ASes, interfaces, peer entries; other timestamp / lifetimes / MACs): which interface sequences are offered or how long they stay valid depends on which version is listed first",
                            json!({"case": case_json(&small), "variant": case_json(&sv), "offered": show_ifs_exp(&a), "offered_variant": show_ifs_exp(&b)}),
                        );
                    }
                }
                _ => group = Some((gkey, c.clone(), o.ifs_exp.clone())),
            }
        }
        rep.hit(&format!("paths offered {}", match o.n_paths { 0 => "0", 1 => "1", 2..=5 => "2-5", 6..=20 => "6-20", _ => ">20" }));
        rep.hit(&format!("candidates {}", match o.cands { 0 => "0", 1..=9 => "1-9", 10..=99 => "10-99", 100..=999 => "100-999", _ => ">=1000" }));
        rep.hit(&format!("segments {}", match c.cores.len() + c.noncores.len() { 0..=3 => "0-3", 4..=12 => "4-12", 13..=25 => "13-25", _ => "26+" }));
        if o.tie {
            rep.hit("equal-sort-key tie (order-insensitive comparison)");
        }
        if o.panicked {
            rep.hit("impl panicked");
        }
        if c.cores.iter().chain(c.noncores.iter()).any(|s| s.ents.len() > 63) {
            rep.hit("has segment > 63 hops");
        }
        if c.kind == "long" {
            if let Some(t) = &c.topo {
                let total: usize = c.cores.iter().chain(c.noncores.iter()).map(|s| s.ents.len()).sum();
                rep.hit(&format!("long {}: {} hop fields, {} path(s)", t.name, total, o.n_paths));
            }
        }
        if c.topo.as_ref().map(|t| t.ases.iter().any(|a| a.mtu > 65535)).unwrap_or(false) && o.n_paths > 0 {
            rep.hit("topology with an AS MTU > u16::MAX, paths offered");
        }
        max_us = max_us.max(o.micros);
        max_cands = max_cands.max(o.cands);
        if rep.traces <= 50 || rep.traces % 97 == 0 {
            check_segid(&mut rep, c);
        }
        if rep.samples.len() < 4 && o.n_paths >= 1 && o.n_paths <= 3 && c.cores.len() + c.noncores.len() <= 4 {
            rep.sample(json!({"case": case_json(c), "impl": o.imp, "model": o.model}));
        }
        if o.disagree {
            let mut f = |t: &Case| evaluate(t, &mut lean, "C19", time_limit_us).disagree;
            let small = shrink(c, &mut f);
            let o2 = evaluate(&small, &mut lean, "C19", time_limit_us);
            rep.disagree(&format!("combine/{}", c.kind), case_json(&small), &o2.imp, &o2.model);
        }
        for (key, what) in &o.spec {
            // shrink and report the first three cases of every key, count the rest
            let n_same = seen_spec.iter().filter(|k| k.starts_with(&format!("{key}|"))).count();
            if n_same >= 3 {
                rep.hit(&format!("SPECFAIL {key}"));
                continue;
            }
            seen_spec.insert(format!("{key}|{}", rep.traces));
            let k = key.clone();
            let p = prop.clone();
            let topo = c.topo.clone();
            let mut f = |t: &Case| {
                let mut t = t.clone();
                t.topo = topo.clone();
                evaluate(&t, &mut lean, &p, time_limit_us).spec.iter().any(|(kk, _)| *kk == k)
            };
            // completeness-type failures are not monotone under deletion of segments: shrink still keeps the key
            let small = shrink(c, &mut f);
            let mut small2 = small.clone();
            small2.topo = c.topo.clone();
            let o2 = evaluate(&small2, &mut lean, &prop, time_limit_us);
            let what2 = o2.spec.iter().find(|(kk, _)| kk == key).map(|x| x.1.clone()).unwrap_or(what.clone());
            rep.spec_fail(key, &what2, json!({"case": case_json(&small), "impl": o2.imp}));
        }

        // ---- segments that cannot contribute are ignored (C19; exact equality of the whole result) ----------
        if prop == "C19" && args.replay.is_none() && !o.panicked && !o.tie && c.src != c.dst && rep.traces % 2 == 0 {
            let (g, tag) = garbage(&mut rng, c);
            let r2 = impl_string(&run_impl(&g));
            rep.evaluations += 1;
            rep.hit(tag);
            if o.n_paths > 0 {
                rep.hit("garbage added to a set that offers paths");
            }
            if r2 != o.imp {
                rep.spec_fail("C19:garbage-ignored", &format!("adding segments that cannot contribute a path ({tag}) changed the result"), json!({"case": case_json(c), "with_garbage": case_json(&g), "impl": o.imp, "impl_with_garbage": r2}));
            }
        }

        // ---- order independence / determinism (both properties; exact equality) -------------------------
        if args.replay.is_none() && !o.panicked && (prop == "C04" || rep.traces % 4 == 0) {
            let mut v = c.clone();
            rng.shuffle(&mut v.cores);
            rng.shuffle(&mut v.noncores);
            let mut dup = false;
            if rng.chance(1, 2) && !v.noncores.is_empty() {
                let k = rng.below(v.noncores.len() as u64) as usize;
                let s = v.noncores[k].clone();
                v.noncores.insert(rng.below(v.noncores.len() as u64 + 1) as usize, s);
                dup = true;
            }
            if rng.chance(1, 3) && !v.cores.is_empty() {
                let k = rng.below(v.cores.len() as u64) as usize;
                let s = v.cores[k].clone();
                v.cores.push(s);
                dup = true;
            }
            let rv = run_impl(&v);
            let r2 = impl_string(&rv);
            rep.evaluations += 1;
            rep.hit(if dup { "variant shuffled+duplicated" } else { "variant shuffled" });
            if !o.tie {
                if r2 != o.imp {
                    let key = format!("{prop}:order-independent");
                    rep.spec_fail(&key, "permuting / duplicating the input segment lists changed the result", json!({"case": case_json(c), "variant": case_json(&v), "impl": o.imp, "impl_variant": r2}));
                }
            } else {
                // two given segments have the same id: which of two equally long-lived copies survives is the known
                // finding; which interface sequences are offered and how long each stays valid must still not
                // depend on the order of the lists
                rep.hit("variant of a set with equal segment ids (interface lists + expiry compared)");
                let pv = ifs_exp_of(&rv);
                if pv != o.ifs_exp && n_order_exp < 3 {
                    n_order_exp += 1;
                    let key = format!("{prop}:order-independent:latest-expiry");
                    // the same pair of orders restricted to the segments that are left
                    let mut f = |t: &Case| ifs_exp_of(&run_impl(t)) != ifs_exp_of(&run_impl(&in_order_of(&v, t)));
                    let small = shrink_segments(c, &mut f);
                    let sv = in_order_of(&v, &small);
                    let (a, b) = (ifs_exp_of(&run_impl(&small)), ifs_exp_of(&run_impl(&sv)));
                    rep.spec_fail(&key, "listing the same segments in another order changed which interface sequences are offered or how long they stay valid", json!({"case": case_json(&small), "variant": case_json(&sv), "offered": show_ifs_exp(&a), "offered_variant": show_ifs_exp(&b)}));
                }
            }
        }
    }
    // (garbage oracle is inside the loop above)
    // ---- replay of the Lean witness `order_dependent_with_equal_ids` on the real code -------------------------
    // a segment given together with a copy that has the same hop interfaces (same PathSegment::id()) but other
    // MACs: the sort of get_paths ties, the surviving path depends on hash-map iteration order (fresh RandomState
    // per HashMap::new()), so repeated identical calls / the two input orders disagree.
    if prop == "C04" && args.replay.is_none() {
        let mk = |m: u8| MSeg {
            ts: 100,
            segid: 7,
            ents: vec![
                MEnt { ia: ia(1, 3), mtu: 1500, imtu: 0, hop: MHop { exp: 63, ing: 0, eg: 31, mac: [m, 1, 0, 0, 0, 0] }, peers: vec![] },
                MEnt { ia: ia(1, 1), mtu: 9000, imtu: 1300, hop: MHop { exp: 63, ing: 11, eg: 0, mac: [m, 2, 0, 0, 0, 0] }, peers: vec![] },
            ],
        };
        let (a, b) = (mk(0), mk(1));
        let c1 = Case { kind: "probe-equal-ids".into(), src: ia(1, 1), dst: ia(1, 3), cores: vec![], noncores: vec![a.clone(), b.clone()], topo: None };
        let c2 = Case { noncores: vec![b, a], ..c1.clone() };
        let mut outs = BTreeSet::new();
        for _ in 0..60 {
            outs.insert(impl_string(&run_impl(&c1)));
            outs.insert(impl_string(&run_impl(&c2)));
            rep.evaluations += 2;
        }
        rep.hit_n("probe equal-segment-ids: distinct outputs over 120 identical/reordered calls", outs.len() as u64);
        if outs.len() > 1 {
            rep.spec_fail(
                "C04:order-independent:equal-segment-ids",
                "two segments with the same hop interfaces (same PathSegment::id()) but different MACs: repeated identical calls and the two input orders return different paths (the solution sort ties, hash-map iteration order decides)",
                json!({"case": case_json(&c1), "distinct_outputs": outs.iter().collect::<Vec<_>>()}),
            );
        }
    }
    rep.hit_n("max combine() wall time [ms]", (max_us / 1000) as u64);
    rep.hit_n("max candidate solutions", max_cands);
    if cases.iter().any(|c| c.topo.is_some()) {
        let e = cases.iter().map(|c| c.size_e()).max().unwrap_or(0);
        rep.hit_n("max input size E = Σ(len + 2·peers)", e as u64);
    }
    if rep.samples.is_empty() {
        if let Some(c) = cases.first() {
            rep.sample(case_json(c));
        }
    }
    let _ = BTreeMap::<u8, u8>::new();
    rep.write(&args.out);
    std::process::exit(if rep.ok() { 0 } else { 1 });
}
