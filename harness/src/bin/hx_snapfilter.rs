//! C08 — correspondence + spec oracle for the SNAP ingress filter
//! (`snap_dataplane::tunnel_gateway::{packet_policy::inbound_datagram_check, gateway::create_scmp_error}`).
//!
//! A case is `(datagram, peer ip, gateway-local ip)`.  On the real code (through the `verif-hooks` re-exports) the
//! harness runs the policy check and then the gateway's `Forwarded` arm (dispatch to a counting mock dispatcher, or
//! build the SCMP reply into a garbage-filled 9216-byte pool buffer).  Compared with the Lean model (`drv_snapfilter`):
//! `check` (verdict, error class incl. required/actual sizes, view length, pointer) and `step` (dispatched view bytes /
//! complete reply bytes).  Compared with the *independent* Lean decision procedure (`spec`): the class.
//! Spec oracle in Rust on the implementation's own output (independent of both): dispatched ⇒ parses, source is an
//! IP equal to the peer, path type ∈ {0,1}, exactly one dispatch and no reply; otherwise ≤ 1 reply, ≤ 1232 ≤ 9216 bytes,
//! an SCMP parameter problem quoting a prefix of the datagram, with a checksum that verifies; never a panic.
use std::{
    net::{IpAddr, Ipv4Addr, Ipv6Addr},
    sync::{Arc, Mutex},
    time::Instant,
};

use ana_gotatun::packet::PacketBufPool;
use sciparse::{
    address::{addr::ScionAddr, host_addr::ScionHostAddr, socket_addr::ScionSocketAddr},
    core::{encode::WireEncode, view::{View, ViewConversionError}},
    dataplane_path::{model::DpPath, standard::model::StandardPath},
    identifier::isd_asn::IsdAsn,
    packet::{model::{ScionRawPacket, ScionUdpPacket}, view::ScionPacketView},
    payload::ProtocolNumber,
    util::ToValue,
};
use serde_json::json;
use snap_dataplane::{
    dispatcher::Dispatcher,
    tunnel_gateway::{
        NoopTunnelGatewayObserver,
        gateway::{TunnelGateway, verif},
    },
};
use snap_tun::server::SnapTunAuthorization;
use verif_harness::*;

#[derive(Default)]
struct Mock {
    calls: Mutex<Vec<Vec<u8>>>,
}
impl Dispatcher for Mock {
    fn try_dispatch(&self, packet: &ScionPacketView) {
        self.calls.lock().unwrap().push(packet.as_slice().to_vec());
    }
}
struct Authz;
impl SnapTunAuthorization for Authz {
    type SessionData = ();
    fn is_authorized(&self, _now: Instant, _identity: &[u8; 32]) -> Option<Arc<()>> {
        Some(Arc::new(()))
    }
}
type Gw = TunnelGateway<Authz, Mock, NoopTunnelGatewayObserver>;

#[derive(Clone)]
struct Case {
    kind: &'static str,
    d: Vec<u8>,
    peer: IpAddr,
    local: IpAddr,
}

fn ip_str(ip: &IpAddr) -> String {
    match ip {
        IpAddr::V4(a) => format!("4:{}", hex(&a.octets())),
        IpAddr::V6(a) => format!("6:{}", hex(&a.octets())),
    }
}
fn parse_ip(s: &str) -> Option<IpAddr> {
    let (k, h) = s.split_once(':')?;
    let b = unhex(h)?;
    match (k, b.len()) {
        ("4", 4) => Some(IpAddr::V4(Ipv4Addr::new(b[0], b[1], b[2], b[3]))),
        ("6", 16) => {
            let a: [u8; 16] = b.try_into().ok()?;
            Some(IpAddr::V6(Ipv6Addr::from(a)))
        }
        _ => None,
    }
}

fn conv_err(e: &ViewConversionError) -> String {
    match e {
        ViewConversionError::BufferTooSmall { at, required, actual } => format!("too_small:{at}:{required}:{actual}"),
        ViewConversionError::Other(s) => s.to_string(),
    }
}

/// `inbound_datagram_check` canonicalised
fn impl_check(d: &[u8], peer: IpAddr) -> String {
    match catch(|| match verif::inbound_datagram_check(d, peer) {
        Ok(view) => format!("dispatch {}", view.as_slice().len()),
        Err(verif::PacketPolicyError::MalformedPacket(_, e)) => format!("malformed {}", conv_err(&e)),
        Err(verif::PacketPolicyError::InvalidSourceAddress(v)) => {
            format!("badsrc {} {}", v.as_slice().len(), v.header().src_host_addr_range().containing_byte_range().start)
        }
        Err(verif::PacketPolicyError::InvalidPathType(v, pt)) => format!("badpath {} {}", v.as_slice().len(), u8::from(pt)),
    }) {
        Ok(s) => s,
        Err(_) => "panic".into(),
    }
}

struct StepOut {
    canon: String,
    dispatched: Vec<Vec<u8>>,
    replies: Vec<Vec<u8>>,
    panicked: bool,
    encode_failed: bool,
}

/// the `HandleIncomingPacketResult::Forwarded` arm of `TunnelGateway::start_server`, with the real policy check and
/// the real reply constructor; the ten lines of glue between them are replicated here
fn impl_step(pool: &PacketBufPool<{ verif::PACKET_BUF_SIZE }>, c: &Case) -> StepOut {
    let mock = Mock::default();
    let mut replies = vec![];
    let mut encode_failed = false;
    let r = catch(|| {
        let local_addr = ScionHostAddr::from(c.local);
        match verif::inbound_datagram_check(&c.d, c.peer) {
            Ok(view) => mock.try_dispatch(view),
            Err(e) => {
                let mut target_buf = pool.get();
                for b in target_buf.iter_mut() {
                    *b = 0xA5; // pool buffers are reused without clearing
                }
                match Gw::verif_create_scmp_error(e, local_addr, ScionAddr::new(IsdAsn::WILDCARD, c.peer.into()), &mut target_buf) {
                    Ok(n) => {
                        target_buf.truncate(n);
                        replies.push(target_buf[..].to_vec());
                    }
                    Err(_) => encode_failed = true,
                }
            }
        }
    });
    let dispatched = mock.calls.lock().unwrap().clone();
    let panicked = r.is_err();
    let canon = if panicked {
        "panic".to_string()
    } else if encode_failed {
        "encode-error".into()
    } else {
        match (dispatched.len(), replies.len()) {
            (1, 0) => format!("dispatch {}", hex(&dispatched[0])),
            (0, 1) => format!("reply {}", hex(&replies[0])),
            (0, 0) => "none".into(),
            _ => "multiple".into(),
        }
    };
    StepOut { canon, dispatched, replies, panicked, encode_failed }
}

// ---------------------------------------------------------------------------------------------
// independent oracle (literal offsets, no sciparse)

fn host_len(nib: u8) -> usize {
    4 * ((nib & 3) as usize + 1)
}

/// `Some(header_len)` iff `d` starts with a complete, consistent version-0 SCION header
fn oracle_header(d: &[u8]) -> Option<usize> {
    if d.len() < 12 || d[0] >> 4 != 0 {
        return None;
    }
    let p = 28 + host_len(d[9] >> 4) + host_len(d[9] & 15);
    if d.len() < p {
        return None;
    }
    let adv = 4 * d[5] as usize;
    let plen = match d[8] {
        0 => 0,
        1 => {
            if d.len() < p + 4 {
                return None;
            }
            let m = u32::from_be_bytes([d[p], d[p + 1], d[p + 2], d[p + 3]]);
            let (s0, s1, s2) = (((m >> 12) & 63) as usize, ((m >> 6) & 63) as usize, (m & 63) as usize);
            4 + 8 * [s0, s1, s2].iter().filter(|s| **s > 0).count() + 12 * (s0 + s1 + s2)
        }
        2 => 32,
        _ => adv.checked_sub(p)?,
    };
    (p + plen <= d.len() && p + plen == adv).then_some(adv)
}

fn oracle_class(d: &[u8], peer: &IpAddr) -> &'static str {
    if oracle_header(d).is_none() {
        return "malformed";
    }
    let so = 28 + host_len(d[9] >> 4);
    let ok = match (d[9] & 15, peer) {
        (0, IpAddr::V4(a)) => d[so..so + 4] == a.octets(),
        (3, IpAddr::V6(a)) => d[so..so + 16] == a.octets(),
        _ => false,
    };
    if !ok {
        "badsrc"
    } else if d[8] <= 1 {
        "accept"
    } else {
        "badpath"
    }
}

/// RFC 1071 sum over pseudo-header ++ message, checksum field in place; valid iff the folded sum is 0xffff
fn oracle_checksum_ok(pkt: &[u8]) -> bool {
    let hdr = 4 * pkt[5] as usize;
    let ae = 28 + host_len(pkt[9] >> 4) + host_len(pkt[9] & 15);
    let msg = &pkt[hdr..];
    let mut ph = pkt[12..ae].to_vec();
    ph.extend_from_slice(&(msg.len() as u32).to_be_bytes());
    ph.extend_from_slice(&[0, 0, 0, pkt[4]]);
    ph.extend_from_slice(msg);
    if ph.len() % 2 == 1 {
        ph.push(0);
    }
    let mut s: u64 = ph.chunks(2).map(|c| ((c[0] as u64) << 8) | c[1] as u64).sum();
    while s > 0xffff {
        s = (s >> 16) + (s & 0xffff);
    }
    s == 0xffff
}

/// property predicate on what the implementation did
fn oracle(c: &Case, o: &StepOut, max_err: usize, bufsz: usize) -> Vec<(String, String)> {
    let mut f = vec![];
    if o.panicked {
        f.push(("C08:panic".to_string(), "the gateway code panicked on this datagram".to_string()));
        return f;
    }
    let class = oracle_class(&c.d, &c.peer);
    if o.dispatched.len() + o.replies.len() > 1 {
        f.push(("C08:at-most-one".into(), format!("{} dispatches and {} replies for one datagram", o.dispatched.len(), o.replies.len())));
    }
    for v in &o.dispatched {
        if class != "accept" {
            f.push(("C08:dispatch-unsound".into(), format!("dispatched although the independent procedure says {class}")));
        }
        if !c.d.starts_with(v) || oracle_header(v).is_none() {
            f.push(("C08:dispatch-unsound".into(), "dispatched bytes are not a well-formed prefix of the datagram".into()));
        }
    }
    if class == "accept" && o.dispatched.len() != 1 {
        f.push(("C08:valid-not-dispatched".into(), "a packet satisfying the policy was not dispatched".into()));
    }
    if o.encode_failed {
        f.push(("C08:reply-encode".into(), "SCMP reply could not be encoded".into()));
    }
    for r in &o.replies {
        if r.len() > max_err || r.len() > bufsz {
            f.push(("C08:reply-too-long".into(), format!("reply is {} bytes", r.len())));
        }
        let ok_shape = oracle_header(r).is_some_and(|h| {
            r.len() >= h + 8 && r[4] == 202 && r[8] == 0 && r[h] == 4 && (r[6] as usize * 256 + r[7] as usize) == r.len() - h && c.d.starts_with(&r[h + 8..])
        });
        if !ok_shape {
            f.push(("C08:reply-shape".into(), "reply is not an SCMP parameter problem over an empty path quoting a prefix of the datagram".into()));
        } else {
            let h = 4 * r[5] as usize;
            let dst_ok = match c.peer {
                IpAddr::V4(a) => r[9] >> 4 == 0 && r[28..32] == a.octets(),
                IpAddr::V6(a) => r[9] >> 4 == 3 && r[28..44] == a.octets(),
            };
            if !dst_ok {
                f.push(("C08:reply-shape".into(), "reply is not addressed to the tunnel peer".into()));
            }
            let want_code = match class {
                "malformed" => 16,
                "badsrc" => 33,
                _ => 20,
            };
            if r[h + 1] != want_code {
                f.push(("C08:reply-shape".into(), format!("parameter-problem code {} for class {class}", r[h + 1])));
            }
            if !oracle_checksum_ok(r) {
                f.push(("C08:reply-checksum".into(), "SCMP checksum of the reply does not verify over pseudo-header ++ message".into()));
            }
        }
    }
    f
}

// ---------------------------------------------------------------------------------------------
// generators

#[derive(Clone)]
struct Hdr {
    version: u8,
    next: u8,
    path_type: u8,
    dst_nib: u8,
    src_nib: u8,
    dst_host: Vec<u8>,
    src_host: Vec<u8>,
    path: Vec<u8>,
    payload: Vec<u8>,
    hdr_units_delta: i32,
    payload_len: Option<u16>,
}
impl Hdr {
    fn bytes(&self) -> Vec<u8> {
        let hl = 28 + self.dst_host.len() + self.src_host.len() + self.path.len();
        let units = ((hl / 4) as i32 + self.hdr_units_delta).clamp(0, 255) as u8;
        let pl = self.payload_len.unwrap_or(self.payload.len().min(65535) as u16);
        let mut v = vec![self.version << 4, 0x12, 0x34, 0x56, self.next, units, (pl >> 8) as u8, pl as u8, self.path_type,
                         (self.dst_nib << 4) | (self.src_nib & 15), 0, 0];
        v.extend_from_slice(&[0, 1, 0xff, 0, 0, 0, 1, 0x10]);
        v.extend_from_slice(&[0, 1, 0xff, 0, 0, 0, 1, 0x11]);
        v.extend_from_slice(&self.dst_host);
        v.extend_from_slice(&self.src_host);
        v.extend_from_slice(&self.path);
        v.extend_from_slice(&self.payload);
        v
    }
}

fn std_path(rng: &mut Rng, segs: (u8, u8, u8)) -> Vec<u8> {
    let meta: u32 = ((segs.0 as u32) << 12) | ((segs.1 as u32) << 6) | segs.2 as u32;
    let mut v = meta.to_be_bytes().to_vec();
    let infos = [segs.0, segs.1, segs.2].iter().filter(|s| **s > 0).count();
    v.extend(rng.bytes(8 * infos + 12 * (segs.0 as usize + segs.1 as usize + segs.2 as usize)));
    v
}

fn path_for(rng: &mut Rng, pt: u8) -> Vec<u8> {
    match pt {
        0 => vec![],
        1 => {
            let segs = *rng.pick(&[(1u8, 0u8, 0u8), (2, 0, 0), (1, 2, 0), (2, 2, 3), (0, 0, 0), (0, 2, 0), (5, 0, 1)]);
            std_path(rng, segs)
        }
        2 => rng.bytes(32),
        _ => {
            let n = 4 * rng.below(6) as usize;
            rng.bytes(n)
        }
    }
}

fn peers() -> Vec<IpAddr> {
    let v4 = Ipv4Addr::new(10, 1, 2, 3);
    vec![
        IpAddr::V4(v4),
        IpAddr::V6(Ipv6Addr::new(0x2001, 0xdb8, 0, 0, 0, 0x8a2e, 0x370, 0x7334)),
        IpAddr::V6(v4.to_ipv6_mapped()),
    ]
}

/// address bytes of length `len` that "match" the peer as far as any aliasing could: the peer's octets, cut or
/// zero-extended to `len` (for the v4-mapped peer: both the 16 octets and the embedded 4)
fn matching_bytes(peer: &IpAddr, len: usize, embedded: bool) -> Vec<u8> {
    let mut o = match peer {
        IpAddr::V4(a) => a.octets().to_vec(),
        IpAddr::V6(a) => {
            if embedded && a.to_ipv4_mapped().is_some() {
                a.octets()[12..].to_vec()
            } else {
                a.octets().to_vec()
            }
        }
    };
    o.resize(len, 0);
    o
}

fn truncations(h: &Hdr, full: usize) -> Vec<usize> {
    let a = 28 + h.dst_host.len();
    let ae = a + h.src_host.len();
    let hl = ae + h.path.len();
    let mut t = vec![0, 1, 4, 8, 9, 10, 11, 12, 13, 27, 28, a.saturating_sub(1), a, a + 1, ae.saturating_sub(1), ae, ae + 1, ae + 3, ae + 4,
                     hl.saturating_sub(1), hl, hl + 1, full.saturating_sub(1), full];
    t.retain(|x| *x <= full);
    t.sort();
    t.dedup();
    t
}

fn gen_cross(rng: &mut Rng, thorough: bool) -> Vec<Case> {
    let mut out = vec![];
    let local4 = IpAddr::V4(Ipv4Addr::new(192, 0, 2, 1));
    let local6 = IpAddr::V6(Ipv6Addr::new(0xfd00, 0, 0, 0, 0, 0, 0, 1));
    let dst_nibs: Vec<u8> = if thorough { (0..16).collect() } else { vec![0, 3, 4, 9] };
    for src_nib in 0u8..16 {
        for &pt in &[0u8, 1, 2, 3, 4, 5, 255] {
            for (pi, peer) in peers().iter().enumerate() {
                for mode in 0..3 {
                    // 0: matching bytes, 1: matching the embedded v4 (only differs for the mapped peer), 2: non-matching
                    if mode == 1 && pi != 2 {
                        continue;
                    }
                    for &dst_nib in &dst_nibs {
                        let sl = host_len(src_nib);
                        let mut src_host = matching_bytes(peer, sl, mode == 1);
                        if mode == 2 {
                            let k = rng.below(sl as u64) as usize;
                            src_host[k] ^= 1 << rng.below(8);
                        }
                        let npay = rng.below(24) as usize;
                        let h = Hdr {
                            version: 0, next: 17, path_type: pt, dst_nib, src_nib,
                            dst_host: rng.bytes(host_len(dst_nib)), src_host, path: path_for(rng, pt),
                            payload: rng.bytes(npay), hdr_units_delta: 0, payload_len: None,
                        };
                        let full = h.bytes();
                        let cuts = if thorough || dst_nib == dst_nibs[0] { truncations(&h, full.len()) } else { vec![full.len()] };
                        for cut in cuts {
                            out.push(Case { kind: "cross", d: full[..cut].to_vec(), peer: *peer, local: if pi == 0 { local4 } else { local6 } });
                        }
                    }
                }
            }
        }
    }
    out
}

fn gen_mutant(rng: &mut Rng) -> Case {
    let ps = peers();
    let peer = *rng.pick(&ps);
    let src_nib = *rng.pick(&[0u8, 0, 3, 3, 4, 1, 7, 12, 15]);
    let dst_nib = *rng.pick(&[0u8, 3, 4, 2, 11]);
    let pt = *rng.pick(&[0u8, 1, 1, 1, 2, 3, 200]);
    let mut path = path_for(rng, pt);
    if pt == 1 && rng.chance(1, 3) {
        // arbitrary segment lengths (up to 63 each) with a path body that may or may not match
        let segs = (rng.below(64) as u8, rng.below(64) as u8, rng.below(64) as u8);
        path = std_path(rng, segs);
        if rng.chance(1, 2) {
            let keep = rng.below(path.len() as u64 + 1) as usize;
            path.truncate(keep.max(4));
        }
    }
    let npay = *rng.pick(&[0usize, 1, 8, 100, 1200, 1300]);
    let mut h = Hdr {
        version: if rng.chance(1, 12) { rng.range(1, 15) as u8 } else { 0 },
        next: *rng.pick(&[17u8, 202, 6, 0]),
        path_type: pt, dst_nib, src_nib,
        dst_host: rng.bytes(host_len(dst_nib)),
        src_host: matching_bytes(&peer, host_len(src_nib), rng.chance(1, 2)),
        path,
        payload: rng.bytes(npay),
        hdr_units_delta: *rng.pick(&[0i32, 0, 0, 1, -1, 2, -7, 40]),
        payload_len: None,
    };
    if rng.chance(1, 3) {
        h.payload_len = Some(*rng.pick(&[0u16, 1, 7, 1199, 65535, 2000]));
    }
    let mut d = h.bytes();
    if rng.chance(1, 4) {
        let cut = rng.below(d.len() as u64 + 1) as usize;
        d.truncate(cut);
    }
    if rng.chance(1, 6) && !d.is_empty() {
        let k = rng.below(d.len().min(64) as u64) as usize;
        d[k] ^= 1 << rng.below(8);
    }
    Case { kind: "mutant", d, peer, local: if rng.chance(1, 2) { IpAddr::V4(Ipv4Addr::new(192, 0, 2, 1)) } else { IpAddr::V6(Ipv6Addr::LOCALHOST) } }
}

/// valid packets built with sciparse's own packet models, up to the jumbo buffer size
fn gen_valid(rng: &mut Rng, bufsz: usize) -> Case {
    let ps = peers();
    let peer = *rng.pick(&ps);
    let ia: IsdAsn = "1-ff00:0:110".parse().unwrap();
    let src_ip = if rng.chance(3, 4) { peer } else { *rng.pick(&ps) };
    let dst_ip = *rng.pick(&ps);
    let path = match rng.below(4) {
        0 => DpPath::Empty,
        _ => DpPath::Standard(StandardPath::arbitrary_value(rng.next() as u128)),
    };
    let hdr_est = 28 + 32 + 4 + 3 * 8 + 64 * 3 * 12;
    let size = match rng.below(5) {
        0 => 0,
        1 => rng.below(64) as usize,
        2 => 1232 - 60 + rng.below(40) as usize,
        3 => bufsz.saturating_sub(hdr_est + rng.below(16) as usize),
        _ => rng.below(3000) as usize,
    };
    let payload = rng.bytes(size);
    let mut d = if rng.chance(1, 2) {
        ScionUdpPacket::new(ScionSocketAddr::new(ia, src_ip.into(), 4000), ScionSocketAddr::new(ia, dst_ip.into(), 53), path, payload)
            .try_encode_to_vec()
    } else {
        ScionRawPacket::new(ScionAddr::new(ia, src_ip.into()), ScionAddr::new(ia, dst_ip.into()), path, *rng.pick(&[ProtocolNumber::Udp, ProtocolNumber::Scmp, ProtocolNumber::Tcp]), payload)
            .try_encode_to_vec()
    }
    .unwrap_or_default();
    if rng.chance(1, 3) {
        // fill the datagram up to exactly the buffer size with trailing bytes (they are not part of the packet)
        let pad = bufsz.saturating_sub(d.len());
        let n = if rng.chance(1, 2) { pad } else { rng.below(pad as u64 + 1) as usize };
        d.extend(rng.bytes(n));
    }
    d.truncate(bufsz);
    Case { kind: "valid", d, peer, local: IpAddr::V4(Ipv4Addr::new(192, 0, 2, 1)) }
}

fn case_line(c: &Case) -> String {
    format!("{} {} {}", hex(&c.d), ip_str(&c.peer), ip_str(&c.local))
}
fn parse_case(l: &str) -> Option<Case> {
    let mut it = l.split_whitespace();
    Some(Case { kind: "corpus", d: unhex(it.next()?)?, peer: parse_ip(it.next()?)?, local: parse_ip(it.next()?)? })
}
fn case_json(c: &Case) -> serde_json::Value {
    let d = &c.d;
    json!({"kind": c.kind, "len": d.len(), "head": hex(&d[..d.len().min(48)]), "peer": c.peer.to_string(), "local": c.local.to_string(),
           "src_nibble": d.get(9).map(|b| b & 15), "path_type": d.get(8), "line": if d.len() <= 200 { case_line(c) } else { String::new() }})
}

struct Eval {
    check: String,
    step_canon: String,
    spec: Vec<(String, String)>,
    disagree: Option<(String, String, String)>,
}

fn eval(pool: &PacketBufPool<{ verif::PACKET_BUF_SIZE }>, lean: &mut Lean, c: &Case, max_err: usize, bufsz: usize) -> Eval {
    let check = impl_check(&c.d, c.peer);
    let o = impl_step(pool, c);
    let mut disagree = None;
    let hx = hex(&c.d);
    let m1 = lean.ask(&format!("check {hx} {}", ip_str(&c.peer)));
    if lean.differs(&m1, &check) {
        disagree = Some(("check".to_string(), check.clone(), m1));
    }
    let m2 = lean.ask(&format!("step {hx} {} {}", ip_str(&c.peer), ip_str(&c.local)));
    if disagree.is_none() && lean.differs(&m2, &o.canon) {
        let cut = |s: &str| if s.len() > 200 { format!("{}…({} chars)", &s[..200], s.len()) } else { s.to_string() };
        disagree = Some(("step".to_string(), cut(&o.canon), cut(&m2)));
    }
    // the independent Lean procedure vs the implementation's class
    let m3 = lean.ask(&format!("spec {hx} {}", ip_str(&c.peer)));
    let impl_class = match check.split(' ').next().unwrap_or("") {
        "dispatch" => format!("accept {}", check.split(' ').nth(1).unwrap_or("")),
        k => k.to_string(),
    };
    let mut spec = oracle(c, &o, max_err, bufsz);
    if lean.differs(&m3, &impl_class) {
        spec.push(("C08:filter-differs-from-independent-spec".into(), format!("implementation: {impl_class}; independent decision procedure: {m3}")));
    }
    Eval { check, step_canon: o.canon, spec, disagree }
}

fn shrink(pool: &PacketBufPool<{ verif::PACKET_BUF_SIZE }>, lean: &mut Lean, c: &Case, max_err: usize, bufsz: usize, fails: &dyn Fn(&Eval) -> bool) -> Case {
    let mut cur = c.clone();
    // drop trailing bytes, then zero bytes from the back
    let mut step = cur.d.len() / 2;
    while step > 0 {
        while cur.d.len() >= step {
            let mut cand = cur.clone();
            cand.d.truncate(cur.d.len() - step);
            if fails(&eval(pool, lean, &cand, max_err, bufsz)) {
                cur = cand;
            } else {
                break;
            }
        }
        step /= 2;
    }
    for i in (0..cur.d.len().min(256)).rev() {
        if cur.d[i] != 0 {
            let mut cand = cur.clone();
            cand.d[i] = 0;
            if fails(&eval(pool, lean, &cand, max_err, bufsz)) {
                cur = cand;
            }
        }
    }
    cur
}

fn main() {
    let args = Args::parse();
    quiet_panics();
    let mut lean = Lean::spawn(&args.driver);
    let mut rng = Rng::new(args.seed);
    let mut rep = Report::new(
        "C08",
        "case = (datagram, tunnel peer ip, gateway ip) run through the real inbound_datagram_check + SCMP reply constructor and \
         through the Lean model and the independent Lean decision procedure. Streams: exhaustive cross product (16 source \
         nibbles x path types 0..5,255 x peers v4/v6/v4-mapped x matching/embedded-v4/non-matching address bytes x destination \
         nibbles x truncation at every header boundary), field mutants (version, HdrLen +-, PayloadLen, segment lengths up to 63, \
         bit flips, cuts), valid packets from sciparse's packet models up to 9216 B. Non-trivial = the datagram got past the \
         common-header size/version checks (every later branch of the filter is reachable); distinct by hash of (first 64 bytes, \
         length, peer)",
    );
    // constants: generated (Lean) vs the crate's own
    let bufsz = verif::PACKET_BUF_SIZE;
    let max_err = sciparse::payload::scmp::layout::SCMP_ERROR_MAX_PACKET_SIZE;
    let consts = lean.ask("const");
    let want = format!("buf {bufsz} max {max_err} maxhdr {} common {}", sciparse::header::layout::ScionHeaderLayout::MAX_SIZE_BYTES,
                       sciparse::header::layout::CommonHeaderLayout::SIZE_BYTES);
    if lean.differs(&consts, &want) {
        rep.disagree("constants", json!("generated constants vs crate constants"), &want, &consts);
    }
    let pool = PacketBufPool::<{ verif::PACKET_BUF_SIZE }>::new(2);

    let mut cases: Vec<Case> = vec![];
    for l in read_corpus(&args.corpus) {
        match parse_case(&l) {
            Some(c) => cases.push(c),
            None => rep.notes.push(format!("unparseable corpus line: {}", &l[..l.len().min(40)])),
        }
    }
    rep.hit_n("corpus cases", cases.len() as u64);
    if let Some(p) = &args.replay {
        let txt = std::fs::read_to_string(p).expect("replay file");
        cases = txt.lines().filter_map(parse_case).collect();
    } else {
        cases.extend(gen_cross(&mut rng, args.thorough()));
        for _ in 0..args.scale(6000, 150_000) {
            cases.push(gen_mutant(&mut rng));
        }
        for _ in 0..args.scale(400, 6000) {
            cases.push(gen_valid(&mut rng, bufsz));
        }
    }
    for c in &cases {
        let e = eval(&pool, &mut lean, c, max_err, bufsz);
        let class = e.check.split(' ').next().unwrap_or("").to_string();
        let nontrivial = !(e.check.starts_with("malformed too_small:CommonHeader") || e.check == "malformed UnsupportedVersion");
        rep.case(&format!("{}|{}|{}", hex(&c.d[..c.d.len().min(64)]), c.d.len(), ip_str(&c.peer)), nontrivial);
        rep.traces += 1;
        rep.hit(&format!("stream {}", c.kind));
        let detail = if class == "malformed" {
            e.check.split(':').take(2).collect::<Vec<_>>().join(":")
        } else {
            class.clone()
        };
        rep.hit(&format!("verdict {detail}"));
        rep.hit(&format!("outcome {}", e.step_canon.split(' ').next().unwrap_or("")));
        if c.d.len() > 9 && nontrivial {
            rep.hit(&format!("src nibble {:x} / {}", c.d[9] & 15, class));
        }
        rep.hit(&format!("size {}", match c.d.len() { 0..=11 => "0-11", 12..=99 => "12-99", 100..=1231 => "100-1231", 1232..=9215 => "1232-9215", _ => "9216" }));
        if rep.samples.len() < 5 && nontrivial && (rep.samples.len() as u64) < rep.evaluations / 2000 + 1 {
            rep.sample(json!({"case": case_json(c), "check": e.check, "outcome": e.step_canon.chars().take(120).collect::<String>()}));
        }
        if let Some((stream, im, mo)) = &e.disagree {
            let small = shrink(&pool, &mut lean, c, max_err, bufsz, &|e: &Eval| e.disagree.is_some());
            let e2 = eval(&pool, &mut lean, &small, max_err, bufsz);
            let (s2, i2, m2) = e2.disagree.unwrap_or((stream.clone(), im.clone(), mo.clone()));
            rep.disagree(&s2, json!({"case": case_json(&small), "line": case_line(&small)}), &i2, &m2);
        }
        let mut seen = std::collections::HashSet::new();
        for (key, what) in &e.spec {
            if !seen.insert(key.clone()) {
                continue;
            }
            if rep.distribution.get(&format!("SPECFAIL {key}")).copied().unwrap_or(0) >= 3 {
                rep.hit(&format!("SPECFAIL {key}"));
                continue;
            }
            let k = key.clone();
            let small = shrink(&pool, &mut lean, c, max_err, bufsz, &|e: &Eval| e.spec.iter().any(|(kk, _)| *kk == k));
            rep.spec_fail(key, what, json!({"case": case_json(&small), "line": case_line(&small)}));
        }
    }
    rep.exhaustive = false;
    rep.write(&args.out);
    std::process::exit(if rep.ok() { 0 } else { 1 });
}
