//! C08 — correspondence + spec oracle for the SNAP ingress filter
//! (`snap_dataplane::tunnel_gateway::{packet_policy::inbound_datagram_check, gateway::create_scmp_error}`).
//!
//! A case is `(datagram, peer ip, gateway-local ip)`.  On the real code (through the `verif-hooks` re-exports) the
//! harness runs the policy check and then the gateway's `Forwarded` arm (dispatch to a counting mock dispatcher, or
//! build the SCMP reply into a garbage-filled 9216-byte pool buffer).  Compared with the Lean model (`drv_snapfilter`):
//! `check` (verdict, error class incl. required/actual sizes, view length, pointer) and `step` (dispatched view bytes /
//! complete reply bytes).  Compared with the *independent* Lean decision procedure (`spec`): the class.
//! Spec oracle in Rust on the implementation's own output (independent of both): dispatched ⇒ parses, source is an
//! IP equal to the peer, path type ∈ {0,1}, exactly one dispatch and no reply; otherwise ≤ 1 reply, ≤ 1232 ≤ 9216 bytes,
//! an SCMP parameter problem quoting a prefix of the datagram, with a checksum that verifies; never a panic.
//!
//! Stream "gateway": the REAL `TunnelGateway::start_server` runs on a loop-back UDP socket (own thread, own tokio
//! runtime); a real gotatun `Tunn` client does the Noise handshake with it over UDP and sends every case's datagram as
//! a WireGuard data message.  Observed: the exact bytes the gateway hands to `Dispatcher::try_dispatch` (recording mock)
//! and the decrypted datagrams the gateway sends back.  Three gateway/client pairs give the three peer kinds the
//! closure's `from.ip()` can have: IPv4 (127.0.0.1), IPv6 (::1) and v4-mapped (::ffff:127.0.0.1, an IPv4 client of a
//! dual-stack `[::]` socket, whose `local_addr().ip()` is the unspecified `::`).  A sentinel datagram after every case
//! (invalid version, unique marker; the gateway answers it with an SCMP reply quoting it) closes the case without
//! sleeping: the gateway handles one client's datagrams in order and sends replies in order.
use std::{
    net::{IpAddr, Ipv4Addr, Ipv6Addr, SocketAddr, UdpSocket},
    sync::{Arc, Mutex},
    time::{Duration, Instant},
};

use ana_gotatun::{
    noise::{Tunn, TunnResult, rate_limiter::RateLimiter},
    packet::{Packet, PacketBufPool, WgKind},
    x25519,
};
use sciparse::{
    address::{addr::ScionAddr, host_addr::ScionHostAddr, socket_addr::ScionSocketAddr},
    core::{encode::WireEncode, view::{View, ViewConversionError}},
    dataplane_path::{model::DpPath, standard::model::StandardPath},
    identifier::isd_asn::IsdAsn,
    packet::{model::{ScionRawPacket, ScionUdpPacket}, view::ScionPacketView},
    payload::ProtocolNumber,
    util::ToValue,
};
use serde_json::json;
use snap_dataplane::{
    dispatcher::Dispatcher,
    tunnel_gateway::{
        NoopTunnelGatewayObserver,
        dispatcher::TunnelGatewayDispatcher,
        gateway::{TunnelGateway, verif},
        metrics::TunnelGatewayDispatcherMetrics,
    },
};
use snap_tun::server::SnapTunAuthorization;
use tokio_util::sync::CancellationToken;
use verif_harness::*;

#[derive(Default)]
struct Mock {
    calls: Mutex<Vec<Vec<u8>>>,
}
impl Dispatcher for Mock {
    fn try_dispatch(&self, packet: &ScionPacketView) {
        self.calls.lock().unwrap().push(packet.as_slice().to_vec());
    }
}
struct Authz;
impl SnapTunAuthorization for Authz {
    type SessionData = ();
    fn is_authorized(&self, _now: Instant, _identity: &[u8; 32]) -> Option<Arc<()>> {
        Some(Arc::new(()))
    }
}
type Gw = TunnelGateway<Authz, Mock, NoopTunnelGatewayObserver>;

#[derive(Clone)]
struct Case {
    kind: &'static str,
    d: Vec<u8>,
    peer: IpAddr,
    local: IpAddr,
    /// run through the real gateway (peer/local are then the addresses of the loop-back pair)
    gw: bool,
}

fn ip_str(ip: &IpAddr) -> String {
    match ip {
        IpAddr::V4(a) => format!("4:{}", hex(&a.octets())),
        IpAddr::V6(a) => format!("6:{}", hex(&a.octets())),
    }
}
fn parse_ip(s: &str) -> Option<IpAddr> {
    let (k, h) = s.split_once(':')?;
    let b = unhex(h)?;
    match (k, b.len()) {
        ("4", 4) => Some(IpAddr::V4(Ipv4Addr::new(b[0], b[1], b[2], b[3]))),
        ("6", 16) => {
            let a: [u8; 16] = b.try_into().ok()?;
            Some(IpAddr::V6(Ipv6Addr::from(a)))
        }
        _ => None,
    }
}

fn conv_err(e: &ViewConversionError) -> String {
    match e {
        ViewConversionError::BufferTooSmall { at, required, actual } => format!("too_small:{at}:{required}:{actual}"),
        ViewConversionError::Other(s) => s.to_string(),
    }
}

/// `inbound_datagram_check` canonicalised
fn impl_check(d: &[u8], peer: IpAddr) -> String {
    match catch(|| match verif::inbound_datagram_check(d, peer) {
        Ok(view) => format!("dispatch {}", view.as_slice().len()),
        Err(verif::PacketPolicyError::MalformedPacket(_, e)) => format!("malformed {}", conv_err(&e)),
        Err(verif::PacketPolicyError::InvalidSourceAddress(v)) => {
            format!("badsrc {} {}", v.as_slice().len(), v.header().src_host_addr_range().containing_byte_range().start)
        }
        Err(verif::PacketPolicyError::InvalidPathType(v, pt)) => format!("badpath {} {}", v.as_slice().len(), u8::from(pt)),
    }) {
        Ok(s) => s,
        Err(_) => "panic".into(),
    }
}

struct StepOut {
    canon: String,
    dispatched: Vec<Vec<u8>>,
    replies: Vec<Vec<u8>>,
    panicked: bool,
    encode_failed: bool,
}

/// the `HandleIncomingPacketResult::Forwarded` arm of `TunnelGateway::start_server`, with the real policy check and
/// the real reply constructor; the ten lines of glue between them are replicated here
fn impl_step(pool: &PacketBufPool<{ verif::PACKET_BUF_SIZE }>, c: &Case) -> StepOut {
    let mock = Mock::default();
    let mut replies = vec![];
    let mut encode_failed = false;
    let r = catch(|| {
        let local_addr = ScionHostAddr::from(c.local);
        match verif::inbound_datagram_check(&c.d, c.peer) {
            Ok(view) => mock.try_dispatch(view),
            Err(e) => {
                let mut target_buf = pool.get();
                for b in target_buf.iter_mut() {
                    *b = 0xA5; // pool buffers are reused without clearing
                }
                match Gw::verif_create_scmp_error(e, local_addr, ScionAddr::new(IsdAsn::WILDCARD, c.peer.into()), &mut target_buf) {
                    Ok(n) => {
                        target_buf.truncate(n);
                        replies.push(target_buf[..].to_vec());
                    }
                    Err(_) => encode_failed = true,
                }
            }
        }
    });
    let dispatched = mock.calls.lock().unwrap().clone();
    let panicked = r.is_err();
    let canon = if panicked {
        "panic".to_string()
    } else if encode_failed {
        "encode-error".into()
    } else {
        match (dispatched.len(), replies.len()) {
            (1, 0) => format!("dispatch {}", hex(&dispatched[0])),
            (0, 1) => format!("reply {}", hex(&replies[0])),
            (0, 0) => "none".into(),
            _ => "multiple".into(),
        }
    };
    StepOut { canon, dispatched, replies, panicked, encode_failed }
}

// ---------------------------------------------------------------------------------------------
// independent oracle (literal offsets, no sciparse)

fn host_len(nib: u8) -> usize {
    4 * ((nib & 3) as usize + 1)
}

/// `Some(header_len)` iff `d` starts with a complete, consistent version-0 SCION header
fn oracle_header(d: &[u8]) -> Option<usize> {
    if d.len() < 12 || d[0] >> 4 != 0 {
        return None;
    }
    let p = 28 + host_len(d[9] >> 4) + host_len(d[9] & 15);
    if d.len() < p {
        return None;
    }
    let adv = 4 * d[5] as usize;
    let plen = match d[8] {
        0 => 0,
        1 => {
            if d.len() < p + 4 {
                return None;
            }
            let m = u32::from_be_bytes([d[p], d[p + 1], d[p + 2], d[p + 3]]);
            let (s0, s1, s2) = (((m >> 12) & 63) as usize, ((m >> 6) & 63) as usize, (m & 63) as usize);
            4 + 8 * [s0, s1, s2].iter().filter(|s| **s > 0).count() + 12 * (s0 + s1 + s2)
        }
        2 => 32,
        _ => adv.checked_sub(p)?,
    };
    (p + plen <= d.len() && p + plen == adv).then_some(adv)
}

fn oracle_class(d: &[u8], peer: &IpAddr) -> &'static str {
    if oracle_header(d).is_none() {
        return "malformed";
    }
    let so = 28 + host_len(d[9] >> 4);
    let ok = match (d[9] & 15, peer) {
        (0, IpAddr::V4(a)) => d[so..so + 4] == a.octets(),
        (3, IpAddr::V6(a)) => d[so..so + 16] == a.octets(),
        _ => false,
    };
    if !ok {
        "badsrc"
    } else if d[8] <= 1 {
        "accept"
    } else {
        "badpath"
    }
}

/// RFC 1071 sum over pseudo-header ++ message, checksum field in place; valid iff the folded sum is 0xffff
fn oracle_checksum_ok(pkt: &[u8]) -> bool {
    let hdr = 4 * pkt[5] as usize;
    let ae = 28 + host_len(pkt[9] >> 4) + host_len(pkt[9] & 15);
    let msg = &pkt[hdr..];
    let mut ph = pkt[12..ae].to_vec();
    ph.extend_from_slice(&(msg.len() as u32).to_be_bytes());
    ph.extend_from_slice(&[0, 0, 0, pkt[4]]);
    ph.extend_from_slice(msg);
    if ph.len() % 2 == 1 {
        ph.push(0);
    }
    let mut s: u64 = ph.chunks(2).map(|c| ((c[0] as u64) << 8) | c[1] as u64).sum();
    while s > 0xffff {
        s = (s >> 16) + (s & 0xffff);
    }
    s == 0xffff
}

/// property predicate on what the implementation did
fn oracle(c: &Case, o: &StepOut, max_err: usize, bufsz: usize) -> Vec<(String, String)> {
    let mut f = vec![];
    if o.panicked {
        f.push(("C08:panic".to_string(), "the gateway code panicked on this datagram".to_string()));
        return f;
    }
    let class = oracle_class(&c.d, &c.peer);
    if o.dispatched.len() + o.replies.len() > 1 {
        f.push(("C08:at-most-one".into(), format!("{} dispatches and {} replies for one datagram", o.dispatched.len(), o.replies.len())));
    }
    for v in &o.dispatched {
        if class != "accept" {
            f.push(("C08:dispatch-unsound".into(), format!("dispatched although the independent procedure says {class}")));
        }
        if !c.d.starts_with(v) || oracle_header(v).is_none() {
            f.push(("C08:dispatch-unsound".into(), "dispatched bytes are not a well-formed prefix of the datagram".into()));
        }
    }
    if class == "accept" && o.dispatched.len() != 1 {
        f.push(("C08:valid-not-dispatched".into(), "a packet satisfying the policy was not dispatched".into()));
    }
    if o.encode_failed {
        f.push(("C08:reply-encode".into(), "SCMP reply could not be encoded".into()));
    }
    for r in &o.replies {
        if r.len() > max_err || r.len() > bufsz {
            f.push(("C08:reply-too-long".into(), format!("reply is {} bytes", r.len())));
        }
        let ok_shape = oracle_header(r).is_some_and(|h| {
            r.len() >= h + 8 && r[4] == 202 && r[8] == 0 && r[h] == 4 && (r[6] as usize * 256 + r[7] as usize) == r.len() - h && c.d.starts_with(&r[h + 8..])
        });
        if !ok_shape {
            f.push(("C08:reply-shape".into(), "reply is not an SCMP parameter problem over an empty path quoting a prefix of the datagram".into()));
        } else {
            let h = 4 * r[5] as usize;
            let dst_ok = match c.peer {
                IpAddr::V4(a) => r[9] >> 4 == 0 && r[28..32] == a.octets(),
                IpAddr::V6(a) => r[9] >> 4 == 3 && r[28..44] == a.octets(),
            };
            if !dst_ok {
                f.push(("C08:reply-shape".into(), "reply is not addressed to the tunnel peer".into()));
            }
            let want_code = match class {
                "malformed" => 16,
                "badsrc" => 33,
                _ => 20,
            };
            if r[h + 1] != want_code {
                f.push(("C08:reply-shape".into(), format!("parameter-problem code {} for class {class}", r[h + 1])));
            }
            if !oracle_checksum_ok(r) {
                f.push(("C08:reply-checksum".into(), "SCMP checksum of the reply does not verify over pseudo-header ++ message".into()));
            }
        }
    }
    f
}

// ---------------------------------------------------------------------------------------------
// generators

#[derive(Clone)]
struct Hdr {
    version: u8,
    next: u8,
    path_type: u8,
    dst_nib: u8,
    src_nib: u8,
    dst_host: Vec<u8>,
    src_host: Vec<u8>,
    path: Vec<u8>,
    payload: Vec<u8>,
    hdr_units_delta: i32,
    payload_len: Option<u16>,
}
impl Hdr {
    fn bytes(&self) -> Vec<u8> {
        let hl = 28 + self.dst_host.len() + self.src_host.len() + self.path.len();
        let units = ((hl / 4) as i32 + self.hdr_units_delta).clamp(0, 255) as u8;
        let pl = self.payload_len.unwrap_or(self.payload.len().min(65535) as u16);
        let mut v = vec![self.version << 4, 0x12, 0x34, 0x56, self.next, units, (pl >> 8) as u8, pl as u8, self.path_type,
                         (self.dst_nib << 4) | (self.src_nib & 15), 0, 0];
        v.extend_from_slice(&[0, 1, 0xff, 0, 0, 0, 1, 0x10]);
        v.extend_from_slice(&[0, 1, 0xff, 0, 0, 0, 1, 0x11]);
        v.extend_from_slice(&self.dst_host);
        v.extend_from_slice(&self.src_host);
        v.extend_from_slice(&self.path);
        v.extend_from_slice(&self.payload);
        v
    }
}

fn std_path(rng: &mut Rng, segs: (u8, u8, u8)) -> Vec<u8> {
    let meta: u32 = ((segs.0 as u32) << 12) | ((segs.1 as u32) << 6) | segs.2 as u32;
    let mut v = meta.to_be_bytes().to_vec();
    let infos = [segs.0, segs.1, segs.2].iter().filter(|s| **s > 0).count();
    v.extend(rng.bytes(8 * infos + 12 * (segs.0 as usize + segs.1 as usize + segs.2 as usize)));
    v
}

fn path_for(rng: &mut Rng, pt: u8) -> Vec<u8> {
    match pt {
        0 => vec![],
        1 => {
            let segs = *rng.pick(&[(1u8, 0u8, 0u8), (2, 0, 0), (1, 2, 0), (2, 2, 3), (0, 0, 0), (0, 2, 0), (5, 0, 1)]);
            std_path(rng, segs)
        }
        2 => rng.bytes(32),
        _ => {
            let n = 4 * rng.below(6) as usize;
            rng.bytes(n)
        }
    }
}

fn peers() -> Vec<IpAddr> {
    let v4 = Ipv4Addr::new(10, 1, 2, 3);
    vec![
        IpAddr::V4(v4),
        IpAddr::V6(Ipv6Addr::new(0x2001, 0xdb8, 0, 0, 0, 0x8a2e, 0x370, 0x7334)),
        IpAddr::V6(v4.to_ipv6_mapped()),
    ]
}

/// gateway-local addresses of the direct (non-gateway) streams: an IPv4, two IPv6 and the two unspecified addresses
/// (`socket.local_addr()` of a wildcard-bound socket, and the `unwrap_or(UNSPECIFIED)` fallback of start_server)
fn locals() -> Vec<IpAddr> {
    vec![
        IpAddr::V4(Ipv4Addr::new(192, 0, 2, 1)),
        IpAddr::V6(Ipv6Addr::new(0xfd00, 0, 0, 0, 0, 0, 0, 1)),
        IpAddr::V6(Ipv6Addr::LOCALHOST),
        IpAddr::V4(Ipv4Addr::UNSPECIFIED),
        IpAddr::V6(Ipv6Addr::UNSPECIFIED),
    ]
}

/// where the cases of a generator go: directly into the policy check (any peer, any local address) or through one
/// real gateway/client pair (then the peer and the local address are what that pair's sockets have)
#[derive(Clone)]
struct Target {
    peers: Vec<IpAddr>,
    locals: Vec<IpAddr>,
    gw: bool,
    /// largest datagram the target can carry
    max_len: usize,
}
impl Target {
    fn direct(bufsz: usize) -> Target {
        Target { peers: peers(), locals: locals(), gw: false, max_len: bufsz }
    }
    fn case(&self, kind: &'static str, d: Vec<u8>, peer: IpAddr, local: IpAddr) -> Case {
        Case { kind, d, peer, local, gw: self.gw }
    }
}
fn is_mapped(ip: &IpAddr) -> bool {
    matches!(ip, IpAddr::V6(a) if a.to_ipv4_mapped().is_some())
}

/// address bytes of length `len` that "match" the peer as far as any aliasing could: the peer's octets, cut or
/// zero-extended to `len` (for the v4-mapped peer: both the 16 octets and the embedded 4)
fn matching_bytes(peer: &IpAddr, len: usize, embedded: bool) -> Vec<u8> {
    let mut o = match peer {
        IpAddr::V4(a) => a.octets().to_vec(),
        IpAddr::V6(a) => {
            if embedded && a.to_ipv4_mapped().is_some() {
                a.octets()[12..].to_vec()
            } else {
                a.octets().to_vec()
            }
        }
    };
    o.resize(len, 0);
    o
}

fn truncations(h: &Hdr, full: usize) -> Vec<usize> {
    let a = 28 + h.dst_host.len();
    let ae = a + h.src_host.len();
    let hl = ae + h.path.len();
    let mut t = vec![0, 1, 4, 8, 9, 10, 11, 12, 13, 27, 28, a.saturating_sub(1), a, a + 1, ae.saturating_sub(1), ae, ae + 1, ae + 3, ae + 4,
                     hl.saturating_sub(1), hl, hl + 1, full.saturating_sub(1), full];
    t.retain(|x| *x <= full);
    t.sort();
    t.dedup();
    t
}

/// `full`: every destination nibble and every truncation; otherwise destination nibbles {0,3,4,9}, truncations with
/// the first of them; `lean`: (gateway, quick tier) destination nibbles {0,3}, truncations only for path types 0/1
fn gen_cross(rng: &mut Rng, t: &Target, full: bool, lean: bool) -> Vec<Case> {
    let mut out = vec![];
    let dst_nibs: Vec<u8> = if full { (0..16).collect() } else if lean { vec![0, 3] } else { vec![0, 3, 4, 9] };
    // path types: the three known ones, the neighbours, the top, and two drawn from 6..=254
    let mut pts = vec![0u8, 1, 2, 3, 4, 5, 255];
    pts.push(rng.range(6, 254) as u8);
    pts.push(rng.range(6, 254) as u8);
    for src_nib in 0u8..16 {
        for &pt in &pts {
            for (pi, peer) in t.peers.iter().enumerate() {
                for mode in 0..3 {
                    // 0: matching bytes, 1: matching the embedded v4 (only differs for the mapped peer), 2: non-matching
                    if mode == 1 && !is_mapped(peer) {
                        continue;
                    }
                    for &dst_nib in &dst_nibs {
                        let sl = host_len(src_nib);
                        let mut src_host = matching_bytes(peer, sl, mode == 1);
                        if mode == 2 {
                            let k = rng.below(sl as u64) as usize;
                            src_host[k] ^= 1 << rng.below(8);
                        }
                        let npay = rng.below(24) as usize;
                        let h = Hdr {
                            version: 0, next: 17, path_type: pt, dst_nib, src_nib,
                            dst_host: rng.bytes(host_len(dst_nib)), src_host, path: path_for(rng, pt),
                            payload: rng.bytes(npay), hdr_units_delta: 0, payload_len: None,
                        };
                        let full_d = h.bytes();
                        let cuts = if full || (dst_nib == dst_nibs[0] && !(lean && pt > 1)) { truncations(&h, full_d.len()) } else { vec![full_d.len()] };
                        // the gateway-local address: family of the peer for matching bytes, otherwise any (incl. unspecified)
                        let local = if t.locals.len() == 1 {
                            t.locals[0]
                        } else if mode == 0 {
                            t.locals[if pi == 0 { 0 } else { 1 }]
                        } else {
                            *rng.pick(&t.locals)
                        };
                        for cut in cuts {
                            out.push(t.case("cross", full_d[..cut].to_vec(), *peer, local));
                        }
                    }
                }
            }
        }
    }
    out
}

fn gen_mutant(rng: &mut Rng, t: &Target) -> Case {
    let peer = *rng.pick(&t.peers);
    let src_nib = *rng.pick(&[0u8, 0, 3, 3, 4, 1, 7, 12, 15]);
    let dst_nib = *rng.pick(&[0u8, 3, 4, 2, 11]);
    let pt = if rng.chance(1, 8) { rng.range(6, 254) as u8 } else { *rng.pick(&[0u8, 1, 1, 1, 2, 3, 200]) };
    let mut path = path_for(rng, pt);
    if pt == 1 && rng.chance(1, 3) {
        // arbitrary segment lengths (up to 63 each) with a path body that may or may not match
        let segs = (rng.below(64) as u8, rng.below(64) as u8, rng.below(64) as u8);
        path = std_path(rng, segs);
        if rng.chance(1, 2) {
            let keep = rng.below(path.len() as u64 + 1) as usize;
            path.truncate(keep.max(4));
        }
    }
    let npay = *rng.pick(&[0usize, 1, 8, 100, 1200, 1300]);
    let mut h = Hdr {
        version: if rng.chance(1, 12) { rng.range(1, 15) as u8 } else { 0 },
        next: *rng.pick(&[17u8, 202, 6, 0]),
        path_type: pt, dst_nib, src_nib,
        dst_host: rng.bytes(host_len(dst_nib)),
        src_host: matching_bytes(&peer, host_len(src_nib), rng.chance(1, 2)),
        path,
        payload: rng.bytes(npay),
        hdr_units_delta: *rng.pick(&[0i32, 0, 0, 1, -1, 2, -7, 40]),
        payload_len: None,
    };
    if rng.chance(1, 3) {
        h.payload_len = Some(*rng.pick(&[0u16, 1, 7, 1199, 65535, 2000]));
    }
    let mut d = h.bytes();
    if rng.chance(1, 4) {
        let cut = rng.below(d.len() as u64 + 1) as usize;
        d.truncate(cut);
    }
    if rng.chance(1, 6) && !d.is_empty() {
        let k = rng.below(d.len().min(64) as u64) as usize;
        d[k] ^= 1 << rng.below(8);
    }
    d.truncate(t.max_len);
    let local = *rng.pick(&t.locals);
    t.case("mutant", d, peer, local)
}

/// valid packets built with sciparse's own packet models, up to the jumbo buffer size
fn gen_valid(rng: &mut Rng, t: &Target) -> Case {
    let bufsz = t.max_len;
    let ps = peers();
    let peer = *rng.pick(&t.peers);
    let ia: IsdAsn = "1-ff00:0:110".parse().unwrap();
    // the source host: mostly the peer itself; otherwise another address, or the other-family spelling of the peer
    let src_ip = if rng.chance(3, 4) {
        peer
    } else if rng.chance(1, 2) {
        *rng.pick(&ps)
    } else {
        match peer {
            IpAddr::V4(a) => IpAddr::V6(a.to_ipv6_mapped()),
            IpAddr::V6(a) => a.to_ipv4_mapped().map(IpAddr::V4).unwrap_or(IpAddr::V4(Ipv4Addr::new(0, 0, 0, 1))),
        }
    };
    let dst_ip = *rng.pick(&ps);
    let path = match rng.below(4) {
        0 => DpPath::Empty,
        _ => DpPath::Standard(StandardPath::arbitrary_value(rng.next() as u128)),
    };
    let hdr_est = 28 + 32 + 4 + 3 * 8 + 64 * 3 * 12;
    let size = match rng.below(5) {
        0 => 0,
        1 => rng.below(64) as usize,
        2 => 1232 - 60 + rng.below(40) as usize,
        3 => bufsz.saturating_sub(hdr_est + rng.below(16) as usize),
        _ => rng.below(3000) as usize,
    };
    let payload = rng.bytes(size);
    let mut d = if rng.chance(1, 2) {
        ScionUdpPacket::new(ScionSocketAddr::new(ia, src_ip.into(), 4000), ScionSocketAddr::new(ia, dst_ip.into(), 53), path, payload)
            .try_encode_to_vec()
    } else {
        ScionRawPacket::new(ScionAddr::new(ia, src_ip.into()), ScionAddr::new(ia, dst_ip.into()), path, *rng.pick(&[ProtocolNumber::Udp, ProtocolNumber::Scmp, ProtocolNumber::Tcp]), payload)
            .try_encode_to_vec()
    }
    .unwrap_or_default();
    if rng.chance(1, 3) {
        // fill the datagram up to exactly the buffer size with trailing bytes (they are not part of the packet)
        let pad = bufsz.saturating_sub(d.len());
        let n = if rng.chance(1, 2) { pad } else { rng.below(pad as u64 + 1) as usize };
        d.extend(rng.bytes(n));
    }
    d.truncate(bufsz);
    let local = if t.locals.len() == 1 || rng.chance(1, 4) { *rng.pick(&t.locals) } else { t.locals[0] };
    t.case("valid", d, peer, local)
}

/// corpus / replay line: `<hex datagram> <peer> <local> [gw]`; with `gw` the case is sent through the real gateway pair
/// whose peer address is `<peer>` (127.0.0.1, ::1 or ::ffff:127.0.0.1; `<local>` is then what that pair's socket has)
fn case_line(c: &Case) -> String {
    format!("{} {} {}{}", hex(&c.d), ip_str(&c.peer), ip_str(&c.local), if c.gw { " gw" } else { "" })
}
fn parse_case(l: &str) -> Option<Case> {
    let mut it = l.split_whitespace();
    let (d, peer, local) = (unhex(it.next()?)?, parse_ip(it.next()?)?, parse_ip(it.next()?)?);
    let gw = match it.next() {
        None => false,
        Some("gw") => true,
        Some(_) => return None,
    };
    Some(Case { kind: if gw { "corpus-gw" } else { "corpus" }, d, peer, local, gw })
}
fn case_json(c: &Case) -> serde_json::Value {
    let d = &c.d;
    json!({"kind": c.kind, "via": if c.gw { "real TunnelGateway::start_server over loop-back UDP + WireGuard" } else { "direct call" }, "len": d.len(), "head": hex(&d[..d.len().min(48)]), "peer": c.peer.to_string(), "local": c.local.to_string(),
           "src_nibble": d.get(9).map(|b| b & 15), "path_type": d.get(8), "line": if d.len() <= 200 { case_line(c) } else { String::new() }})
}

struct Eval {
    check: String,
    step_canon: String,
    /// the model's `step` answer (what the gateway closure must do with this datagram)
    model_step: String,
    spec: Vec<(String, String)>,
    disagree: Option<(String, String, String)>,
}

fn eval(pool: &PacketBufPool<{ verif::PACKET_BUF_SIZE }>, lean: &mut Lean, c: &Case, max_err: usize, bufsz: usize) -> Eval {
    let check = impl_check(&c.d, c.peer);
    let o = impl_step(pool, c);
    let mut disagree = None;
    let hx = hex(&c.d);
    let m1 = lean.ask(&format!("check {hx} {}", ip_str(&c.peer)));
    if lean.differs(&m1, &check) {
        disagree = Some(("check".to_string(), check.clone(), m1));
    }
    let m2 = lean.ask(&format!("step {hx} {} {}", ip_str(&c.peer), ip_str(&c.local)));
    if disagree.is_none() && lean.differs(&m2, &o.canon) {
        let cut = |s: &str| if s.len() > 200 { format!("{}…({} chars)", &s[..200], s.len()) } else { s.to_string() };
        disagree = Some(("step".to_string(), cut(&o.canon), cut(&m2)));
    }
    // the independent Lean procedure vs the implementation's class
    let m3 = lean.ask(&format!("spec {hx} {}", ip_str(&c.peer)));
    let impl_class = match check.split(' ').next().unwrap_or("") {
        "dispatch" => format!("accept {}", check.split(' ').nth(1).unwrap_or("")),
        k => k.to_string(),
    };
    let mut spec = oracle(c, &o, max_err, bufsz);
    if lean.differs(&m3, &impl_class) {
        spec.push(("C08:filter-differs-from-independent-spec".into(), format!("implementation: {impl_class}; independent decision procedure: {m3}")));
    }
    Eval { check, step_canon: o.canon, model_step: m2, spec, disagree }
}

fn shrink(pool: &PacketBufPool<{ verif::PACKET_BUF_SIZE }>, lean: &mut Lean, c: &Case, max_err: usize, bufsz: usize, fails: &dyn Fn(&Eval) -> bool) -> Case {
    let mut cur = c.clone();
    // drop trailing bytes, then zero bytes from the back
    let mut step = cur.d.len() / 2;
    while step > 0 {
        while cur.d.len() >= step {
            let mut cand = cur.clone();
            cand.d.truncate(cur.d.len() - step);
            if fails(&eval(pool, lean, &cand, max_err, bufsz)) {
                cur = cand;
            } else {
                break;
            }
        }
        step /= 2;
    }
    for i in (0..cur.d.len().min(256)).rev() {
        if cur.d[i] != 0 {
            let mut cand = cur.clone();
            cand.d[i] = 0;
            if fails(&eval(pool, lean, &cand, max_err, bufsz)) {
                cur = cand;
            }
        }
    }
    cur
}

// ---------------------------------------------------------------------------------------------
// the real gateway

/// WireGuard data-message overhead (16-byte header + 16-byte tag): the gateway's receive buffer is PACKET_BUF_SIZE, so
/// the largest datagram that can reach the filter is PACKET_BUF_SIZE - 32 (a longer one is cut by the kernel and fails
/// to decrypt)
const WG_OVERHEAD: usize = 32;
const GW_TIMEOUT: Duration = Duration::from_secs(5);
const SENTINEL_MAGIC: &[u8; 12] = b"C08-SENTINEL";

fn wg_bytes(k: WgKind) -> Vec<u8> {
    match k {
        WgKind::HandshakeInit(p) => p.into_bytes()[..].to_vec(),
        WgKind::HandshakeResp(p) => p.into_bytes()[..].to_vec(),
        WgKind::CookieReply(p) => p.into_bytes()[..].to_vec(),
        WgKind::Data(p) => p.into_bytes()[..].to_vec(),
    }
}

/// an `AF_INET6` UDP socket bound to `[::]:0` with `IPV6_V6ONLY` switched off: IPv4 senders appear as `::ffff:a.b.c.d`
fn dual_stack_socket() -> std::io::Result<UdpSocket> {
    use std::os::fd::FromRawFd;
    unsafe {
        let fd = libc::socket(libc::AF_INET6, libc::SOCK_DGRAM | libc::SOCK_CLOEXEC, 0);
        if fd < 0 {
            return Err(std::io::Error::last_os_error());
        }
        let sock = UdpSocket::from_raw_fd(fd); // closes on every early return
        let off: libc::c_int = 0;
        if libc::setsockopt(fd, libc::IPPROTO_IPV6, libc::IPV6_V6ONLY, &off as *const _ as *const libc::c_void, std::mem::size_of::<libc::c_int>() as libc::socklen_t) != 0 {
            return Err(std::io::Error::last_os_error());
        }
        let mut sa: libc::sockaddr_in6 = std::mem::zeroed();
        sa.sin6_family = libc::AF_INET6 as libc::sa_family_t;
        if libc::bind(fd, &sa as *const _ as *const libc::sockaddr, std::mem::size_of::<libc::sockaddr_in6>() as libc::socklen_t) != 0 {
            return Err(std::io::Error::last_os_error());
        }
        Ok(sock)
    }
}

#[derive(Clone, Copy, PartialEq, Eq, Debug)]
enum PairKind {
    V4,
    V6,
    Dual,
}
impl PairKind {
    fn name(self) -> &'static str {
        match self {
            PairKind::V4 => "v4 peer 127.0.0.1 (gateway on 127.0.0.1)",
            PairKind::V6 => "v6 peer ::1 (gateway on ::1)",
            PairKind::Dual => "v4-mapped peer ::ffff:127.0.0.1 (dual-stack gateway on ::)",
        }
    }
    /// the address the gateway must see as `from.ip()`
    fn peer(self) -> IpAddr {
        match self {
            PairKind::V4 => IpAddr::V4(Ipv4Addr::LOCALHOST),
            PairKind::V6 => IpAddr::V6(Ipv6Addr::LOCALHOST),
            PairKind::Dual => IpAddr::V6(Ipv4Addr::LOCALHOST.to_ipv6_mapped()),
        }
    }
    fn of_peer(ip: &IpAddr) -> Option<PairKind> {
        [PairKind::V4, PairKind::V6, PairKind::Dual].into_iter().find(|k| k.peer() == *ip)
    }
}

/// what one datagram caused at the real gateway
#[derive(Default)]
struct GwObs {
    dispatched: Vec<Vec<u8>>,
    replies: Vec<Vec<u8>>,
    /// the sentinel's reply did not arrive in time
    timeout: bool,
    /// the gateway thread is gone (it panicked)
    dead: bool,
    /// datagrams from the gateway that the client's tunnel could not read
    stray: Vec<String>,
}

/// a running `TunnelGateway::start_server` and a WireGuard client with an established session to it
struct GwPair {
    kind: PairKind,
    /// `socket.local_addr().ip()` of the gateway socket
    local: IpAddr,
    sock: UdpSocket,
    tunn: Tunn,
    mock: Arc<Mock>,
    cancel: CancellationToken,
    thread: Option<std::thread::JoinHandle<()>>,
    seq: u64,
    served: u64,
    /// the gateway's reply to the latest sentinel (shows the addresses the closure works with)
    sentinel_reply: Vec<u8>,
}

impl GwPair {
    fn start(kind: PairKind) -> Result<GwPair, String> {
        let e = |what: &str, err: std::io::Error| format!("{what}: {err}");
        let gw_std = match kind {
            PairKind::V4 => UdpSocket::bind("127.0.0.1:0"),
            PairKind::V6 => UdpSocket::bind("[::1]:0"),
            PairKind::Dual => dual_stack_socket(),
        }
        .map_err(|x| e("gateway socket", x))?;
        gw_std.set_nonblocking(true).map_err(|x| e("nonblocking", x))?;
        let gw_addr = gw_std.local_addr().map_err(|x| e("local_addr", x))?;
        let local = gw_addr.ip();
        let (client_bind, target): (&str, SocketAddr) = match kind {
            PairKind::V4 | PairKind::Dual => ("127.0.0.1:0", SocketAddr::new(IpAddr::V4(Ipv4Addr::LOCALHOST), gw_addr.port())),
            PairKind::V6 => ("[::1]:0", SocketAddr::new(IpAddr::V6(Ipv6Addr::LOCALHOST), gw_addr.port())),
        };
        let sock = UdpSocket::bind(client_bind).map_err(|x| e("client socket", x))?;
        sock.connect(target).map_err(|x| e("client connect", x))?;
        sock.set_read_timeout(Some(GW_TIMEOUT)).map_err(|x| e("timeout", x))?;

        let server_secret = x25519::StaticSecret::from([0xA5u8; 32]);
        let server_pub = x25519::PublicKey::from(&server_secret);
        let client_secret = x25519::StaticSecret::from([0x17u8; 32]);
        let client_pub = x25519::PublicKey::from(&client_secret);
        let mock = Arc::new(Mock::default());
        let cancel = CancellationToken::new();
        let (mock2, cancel2) = (mock.clone(), cancel.clone());
        let thread = std::thread::Builder::new()
            .name("c08-gateway".into())
            .spawn(move || {
                let rt = tokio::runtime::Builder::new_current_thread().enable_all().build().expect("tokio runtime");
                rt.block_on(async move {
                    let socket = tokio::net::UdpSocket::from_std(gw_std).expect("tokio socket");
                    // the sending half must stay alive: start_server leaves its loop when the outbound channel closes
                    let (keep, rx) = TunnelGatewayDispatcher::new(TunnelGatewayDispatcherMetrics::new(&Default::default()));
                    let gw: Gw = TunnelGateway::new(socket, server_secret, Arc::new(Authz), mock2, Arc::new(NoopTunnelGatewayObserver), rx);
                    gw.start_server(cancel2).await;
                    drop(keep);
                });
            })
            .map_err(|x| e("gateway thread", x))?;
        let tunn = Tunn::new(client_secret, server_pub, None, None, 1, Arc::new(RateLimiter::new(&client_pub, u64::MAX)), target);
        let mut pair = GwPair { kind, local, sock, tunn, mock, cancel, thread: Some(thread), seq: 0, served: 0, sentinel_reply: vec![] };
        pair.handshake()?;
        // probe: the sentinel's reply shows which addresses the closure works with: destination = from.ip(), source = local_addr
        let obs = pair.run(None);
        if obs.timeout || obs.dead {
            return Err(format!("{}: no answer to the first sentinel (timeout={} dead={})", kind.name(), obs.timeout, obs.dead));
        }
        let r = &pair.sentinel_reply;
        let host = |ip: &IpAddr| match ip {
            IpAddr::V4(a) => (0u8, a.octets().to_vec()),
            IpAddr::V6(a) => (3u8, a.octets().to_vec()),
        };
        let ((dn, db), (sn, sb)) = (host(&kind.peer()), host(&local));
        let ok = r.len() >= 28 + db.len() + sb.len() && r[9] >> 4 == dn && r[9] & 15 == sn && r[28..28 + db.len()] == db[..] && r[28 + db.len()..28 + db.len() + sb.len()] == sb[..];
        if !ok {
            return Err(format!("{}: the gateway does not see the client as {} / itself as {} (reply header {})", kind.name(), kind.peer(), local, hex(&r[..r.len().min(60)])));
        }
        Ok(pair)
    }

    fn handshake(&mut self) -> Result<(), String> {
        let init = self.tunn.format_handshake_initiation(true).ok_or("client produced no handshake initiation")?;
        self.sock.send(&wg_bytes(init.into())).map_err(|x| format!("send init: {x}"))?;
        let mut buf = vec![0u8; 65536];
        let n = self.sock.recv(&mut buf).map_err(|x| format!("{}: no handshake response: {x}", self.kind.name()))?;
        let k = Packet::copy_from(&buf[..n]).try_into_wg().map_err(|x| format!("handshake response unparseable: {x}"))?;
        match self.tunn.handle_incoming_packet(k) {
            TunnResult::WriteToNetwork(keepalive) => {
                // the first data message (an empty keep-alive) confirms the session on the gateway's side
                self.sock.send(&wg_bytes(keepalive)).map_err(|x| format!("send keepalive: {x}"))?;
                Ok(())
            }
            other => Err(format!("handshake response not accepted: {other:?}")),
        }
    }

    fn send_data(&mut self, d: &[u8]) -> Result<(), String> {
        match self.tunn.handle_outgoing_packet(Packet::copy_from(d)) {
            Some(WgKind::Data(p)) => {
                let b = p.into_bytes();
                self.sock.send(&b[..]).map(|_| ()).map_err(|x| format!("send: {x}"))
            }
            Some(_) => Err("client tunnel answered with a handshake instead of a data message".into()),
            None => Err("client tunnel produced nothing".into()),
        }
    }

    /// `Some(quote)` if `r` is an SCMP reply (any shape the gateway builds) whose quoted bytes are `quote`
    fn quote_of(r: &[u8]) -> Option<&[u8]> {
        let h = 4 * *r.get(5)? as usize;
        r.get(h + 8..)
    }

    /// send `d` (`None`: nothing, the probe) and a sentinel; collect what the gateway did until the sentinel's reply is back
    fn run(&mut self, d: Option<&[u8]>) -> GwObs {
        let mut obs = GwObs::default();
        self.mock.calls.lock().unwrap().clear();
        self.seq += 1;
        let mut sentinel = vec![0xF0u8];
        sentinel.extend_from_slice(SENTINEL_MAGIC);
        sentinel.push(self.kind as u8);
        sentinel.extend_from_slice(&self.seq.to_be_bytes());
        sentinel.extend_from_slice(&std::process::id().to_be_bytes());
        if let Some(d) = d {
            if let Err(m) = self.send_data(d) {
                obs.stray.push(m);
                obs.timeout = true;
                return obs;
            }
            self.served += 1;
        }
        if let Err(m) = self.send_data(&sentinel) {
            obs.stray.push(m);
            obs.timeout = true;
            return obs;
        }
        let mut buf = vec![0u8; 65536];
        let deadline = Instant::now() + GW_TIMEOUT;
        loop {
            let n = match self.sock.recv(&mut buf) {
                Ok(n) => n,
                Err(_) => {
                    obs.timeout = true;
                    break;
                }
            };
            let plain = match Packet::copy_from(&buf[..n]).try_into_wg() {
                Ok(k) => match self.tunn.handle_incoming_packet(k) {
                    TunnResult::WriteToTunnel(p) => p[..].to_vec(),
                    TunnResult::Done => continue, // a keep-alive of the gateway's tunnel
                    other => {
                        obs.stray.push(format!("{n}-byte datagram from the gateway not accepted by the client tunnel: {other:?}"));
                        continue;
                    }
                },
                Err(x) => {
                    obs.stray.push(format!("{n}-byte datagram from the gateway is not a WireGuard message: {x}"));
                    continue;
                }
            };
            if Self::quote_of(&plain) == Some(&sentinel[..]) {
                self.sentinel_reply = plain;
                break;
            }
            obs.replies.push(plain);
            if Instant::now() > deadline {
                obs.timeout = true;
                break;
            }
        }
        obs.dead = self.thread.as_ref().is_none_or(|t| t.is_finished());
        obs.dispatched = std::mem::take(&mut *self.mock.calls.lock().unwrap());
        obs
    }
}
impl Drop for GwPair {
    fn drop(&mut self) {
        self.cancel.cancel();
        if let Some(t) = self.thread.take() {
            let _ = t.join();
        }
    }
}

fn gw_canon(o: &GwObs) -> String {
    if o.dead {
        return "panic".into();
    }
    if o.timeout {
        return "timeout".into();
    }
    match (o.dispatched.len(), o.replies.len()) {
        (1, 0) => format!("dispatch {}", hex(&o.dispatched[0])),
        (0, 1) => format!("reply {}", hex(&o.replies[0])),
        (0, 0) => "none".into(),
        (a, b) => format!("multiple ({a} dispatches, {b} replies)"),
    }
}

/// the view the policy must hand on: the first min(4*HdrLen + PayloadLen, len) bytes (independent of sciparse)
fn oracle_view(d: &[u8]) -> Option<&[u8]> {
    oracle_header(d)?;
    let n = 4 * d[5] as usize + ((d[6] as usize) << 8 | d[7] as usize);
    Some(&d[..n.min(d.len())])
}

/// property predicate + glue predicates on what the REAL gateway did with `c.d`
fn gw_oracle(c: &Case, o: &GwObs, direct: &str, max_err: usize, bufsz: usize) -> Vec<(String, String)> {
    let mut f = vec![];
    if o.dead {
        f.push(("C08:panic".to_string(), "the gateway task ended (panic) while handling this datagram".to_string()));
        return f;
    }
    if o.timeout {
        f.push(("C08:gateway:timeout".into(), format!("no answer to the sentinel within {GW_TIMEOUT:?} ({})", o.stray.join("; "))));
        return f;
    }
    for s in &o.stray {
        f.push(("C08:gateway:unreadable-datagram".into(), s.clone()));
    }
    let so = StepOut { canon: String::new(), dispatched: o.dispatched.clone(), replies: o.replies.clone(), panicked: false, encode_failed: false };
    f.extend(oracle(c, &so, max_err, bufsz));
    if !o.dispatched.is_empty() && !o.replies.is_empty() || o.dispatched.len() > 1 || o.replies.len() > 1 {
        f.push(("C08:gateway:both-or-multiple".into(), format!("the gateway dispatched {} time(s) and replied {} time(s) for one datagram", o.dispatched.len(), o.replies.len())));
    }
    for v in &o.dispatched {
        if oracle_view(&c.d) != Some(&v[..]) {
            f.push(("C08:gateway:dispatched-bytes-not-view".into(), format!("{} bytes were handed to try_dispatch; the packet view of this {}-byte datagram is {:?} bytes", v.len(), c.d.len(), oracle_view(&c.d).map(|x| x.len()))));
        }
    }
    // the closure = check, then dispatch(view) | reply(create_scmp_error(e, local_addr, from.ip())): same outcome as the
    // direct calls with the pair's addresses
    let got = gw_canon(o);
    if got != direct {
        let cut = |s: &str| if s.len() > 160 { format!("{}…({} chars)", &s[..160], s.len()) } else { s.to_string() };
        f.push(("C08:gateway:differs-from-direct-call".into(), format!("gateway: {}; inbound_datagram_check(datagram, peer) followed by dispatch / create_scmp_error(local, peer): {}", cut(&got), cut(direct))));
    }
    f
}

struct GwEval {
    direct: Eval,
    canon: String,
    spec: Vec<(String, String)>,
    disagree: Option<(String, String)>,
    /// the pair has to be restarted (timeout / dead gateway)
    broken: bool,
    trailing: usize,
}

fn gw_eval(pair: &mut GwPair, pool: &PacketBufPool<{ verif::PACKET_BUF_SIZE }>, lean: &mut Lean, c: &Case, max_err: usize, bufsz: usize) -> GwEval {
    let direct = eval(pool, lean, c, max_err, bufsz);
    let obs = pair.run(Some(&c.d));
    let canon = gw_canon(&obs);
    let cut = |s: &str| if s.len() > 200 { format!("{}…({} chars)", &s[..200], s.len()) } else { s.to_string() };
    let mut spec;
    let mut disagree = None;
    if c.d.is_empty() {
        // an empty WireGuard data message is a keep-alive: SnapTunServer answers Done, the filter never sees it
        spec = vec![];
        if canon != "none" {
            spec.push(("C08:gateway:keepalive-reached-filter".to_string(), format!("an empty tunnel payload caused: {}", cut(&canon))));
        }
    } else {
        spec = gw_oracle(c, &obs, &direct.step_canon, max_err, bufsz);
        if lean.differs(&direct.model_step, &canon) {
            disagree = Some((cut(&canon), cut(&direct.model_step)));
        }
    }
    let trailing = obs.dispatched.first().map(|v| c.d.len().saturating_sub(v.len())).unwrap_or(0);
    GwEval { direct, canon, spec, disagree, broken: obs.timeout || obs.dead, trailing }
}

/// generic shrinking: drop trailing bytes, then zero bytes from the back, while `fails` holds
fn shrink_by(c: &Case, fails: &mut dyn FnMut(&Case) -> bool) -> Case {
    let mut cur = c.clone();
    let mut step = cur.d.len() / 2;
    while step > 0 {
        while cur.d.len() > step {
            let mut cand = cur.clone();
            cand.d.truncate(cur.d.len() - step);
            if fails(&cand) {
                cur = cand;
            } else {
                break;
            }
        }
        step /= 2;
    }
    for i in (0..cur.d.len().min(256)).rev() {
        if cur.d[i] != 0 {
            let mut cand = cur.clone();
            cand.d[i] = 0;
            if fails(&cand) {
                cur = cand;
            }
        }
    }
    cur
}

/// directed cases of one pair: the family-confusion probes of the review and the size limits
fn gw_directed(rng: &mut Rng, t: &Target) -> Vec<Case> {
    let peer = t.peers[0];
    let local = t.locals[0];
    let ia: IsdAsn = "1-ff00:0:110".parse().unwrap();
    let mut srcs: Vec<IpAddr> = vec![peer];
    match peer {
        IpAddr::V4(a) => {
            srcs.push(IpAddr::V6(a.to_ipv6_mapped()));
            srcs.push(IpAddr::V6(a.to_ipv6_compatible()));
        }
        IpAddr::V6(a) => {
            // ::ffff:127.0.0.1 -> 127.0.0.1 (what `to_canonical()` would make equal); ::1 -> 0.0.0.1 (`to_ipv4()`)
            if let Some(v4) = a.to_ipv4_mapped() {
                srcs.push(IpAddr::V4(v4));
                srcs.push(IpAddr::V6(v4.to_ipv6_compatible()));
            }
            let o = a.octets();
            srcs.push(IpAddr::V4(Ipv4Addr::new(o[12], o[13], o[14], o[15])));
        }
    }
    srcs.push(IpAddr::V4(Ipv4Addr::UNSPECIFIED));
    srcs.push(IpAddr::V6(Ipv6Addr::UNSPECIFIED));
    let mut out = vec![];
    for src in srcs {
        for path in [DpPath::Empty, DpPath::Standard(StandardPath::arbitrary_value(rng.next() as u128))] {
            for npay in [0usize, 9, 1300] {
                let d = ScionRawPacket::new(ScionAddr::new(ia, src.into()), ScionAddr::new(ia, IpAddr::V4(Ipv4Addr::new(10, 0, 0, 9)).into()), path.clone(), ProtocolNumber::Udp, rng.bytes(npay))
                    .try_encode_to_vec()
                    .unwrap_or_default();
                out.push(t.case("gw-directed", d, peer, local));
            }
        }
    }
    // sizes: empty (keep-alive), 1 byte, largest datagram the receive buffer admits (valid packet, and garbage)
    out.push(t.case("gw-directed", vec![], peer, local));
    out.push(t.case("gw-directed", vec![0], peer, local));
    out.push(t.case("gw-directed", rng.bytes(t.max_len), peer, local));
    for total in [t.max_len, t.max_len - 1] {
        let hdr = 28 + 4 + match peer { IpAddr::V4(_) => 4, IpAddr::V6(_) => 16 };
        let d = ScionRawPacket::new(ScionAddr::new(ia, peer.into()), ScionAddr::new(ia, IpAddr::V4(Ipv4Addr::new(10, 0, 0, 9)).into()), DpPath::Empty, ProtocolNumber::Udp, rng.bytes(total - hdr))
            .try_encode_to_vec()
            .unwrap_or_default();
        out.push(t.case("gw-directed", d, peer, local));
    }
    out
}

/// bookkeeping of one directly evaluated case (verdict distribution, samples, shrinking + reporting of failures)
fn account(rep: &mut Report, pool: &PacketBufPool<{ verif::PACKET_BUF_SIZE }>, lean: &mut Lean, c: &Case, e: &Eval, max_err: usize, bufsz: usize) -> bool {
    let class = e.check.split(' ').next().unwrap_or("").to_string();
    let nontrivial = !(e.check.starts_with("malformed too_small:CommonHeader") || e.check == "malformed UnsupportedVersion");
    rep.case(&format!("{}{}|{}|{}", if c.gw { "gw|" } else { "" }, hex(&c.d[..c.d.len().min(64)]), c.d.len(), ip_str(&c.peer)), nontrivial);
    rep.traces += 1;
    let pre = if c.gw { "gateway " } else { "" };
    rep.hit(&format!("stream {pre}{}", c.kind));
    let detail = if class == "malformed" {
        e.check.split(':').take(2).collect::<Vec<_>>().join(":")
    } else {
        class.clone()
    };
    rep.hit(&format!("{pre}verdict {detail}"));
    if !c.gw {
        rep.hit(&format!("outcome {}", e.step_canon.split(' ').next().unwrap_or("")));
        rep.hit(&format!("local {}", if c.local.is_unspecified() { "unspecified (0.0.0.0 / ::)" } else if c.local.is_ipv4() { "IPv4" } else { "IPv6" }));
    }
    if c.d.len() > 9 && nontrivial {
        rep.hit(&format!("{pre}src nibble {:x} / {}", c.d[9] & 15, class));
    }
    if c.d.len() > 8 && nontrivial {
        rep.hit(&format!("{pre}path type {}", match c.d[8] { 0 => "0", 1 => "1", 2 => "2", 3..=5 => "3-5", 255 => "255", _ => "6-254" }));
    }
    rep.hit(&format!("{pre}size {}", match c.d.len() { 0..=11 => "0-11", 12..=99 => "12-99", 100..=1231 => "100-1231", 1232..=9215 => "1232-9215", _ => "9216" }));
    if !c.gw && rep.samples.len() < 4 && nontrivial && (rep.samples.len() as u64) < rep.evaluations / 2000 + 1 {
        rep.sample(json!({"case": case_json(c), "check": e.check, "outcome": e.step_canon.chars().take(120).collect::<String>()}));
    }
    if let Some((stream, im, mo)) = &e.disagree {
        let small = shrink(pool, lean, c, max_err, bufsz, &|e: &Eval| e.disagree.is_some());
        let e2 = eval(pool, lean, &small, max_err, bufsz);
        let (s2, i2, m2) = e2.disagree.unwrap_or((stream.clone(), im.clone(), mo.clone()));
        let direct = Case { gw: false, ..small.clone() };
        rep.disagree(&s2, json!({"case": case_json(&direct), "line": case_line(&direct)}), &i2, &m2);
    }
    let mut seen = std::collections::HashSet::new();
    for (key, what) in &e.spec {
        if !seen.insert(key.clone()) {
            continue;
        }
        if rep.distribution.get(&format!("SPECFAIL {key}")).copied().unwrap_or(0) >= 3 {
            rep.hit(&format!("SPECFAIL {key}"));
            continue;
        }
        let k = key.clone();
        let small = shrink(pool, lean, c, max_err, bufsz, &|e: &Eval| e.spec.iter().any(|(kk, _)| *kk == k));
        let direct = Case { gw: false, ..small.clone() };
        rep.spec_fail(key, what, json!({"case": case_json(&direct), "line": case_line(&direct)}));
    }
    nontrivial
}

/// one case through the real gateway: direct evaluation (accounted as usual) + gateway observation
fn gw_account(rep: &mut Report, pair: &mut GwPair, pool: &PacketBufPool<{ verif::PACKET_BUF_SIZE }>, lean: &mut Lean, c: &Case, max_err: usize, bufsz: usize) -> GwEval {
    let g = gw_eval(pair, pool, lean, c, max_err, bufsz);
    account(rep, pool, lean, c, &g.direct, max_err, bufsz);
    let name = pair.kind.name();
    let what = g.canon.split(' ').next().unwrap_or("").to_string();
    match what.as_str() {
        "dispatch" => {
            rep.hit(&format!("gateway {name}: dispatched"));
            if g.trailing > 0 {
                rep.hit("gateway: dispatched view shorter than the datagram (trailing bytes not handed on)");
            }
        }
        "reply" => {
            rep.hit(&format!("gateway {name}: reply"));
            rep.hit(&format!("gateway reply class {}", g.direct.check.split(' ').next().unwrap_or("")));
        }
        "none" if c.d.is_empty() => rep.hit("gateway: empty tunnel payload = keep-alive, never reaches the filter"),
        other => rep.hit(&format!("gateway {name}: {other}")),
    }
    if rep.samples.len() < 6 && what == "dispatch" && g.trailing > 0 && c.d.len() < 200 {
        rep.sample(json!({"case": case_json(c), "gateway": g.canon.chars().take(160).collect::<String>(), "trailing_bytes_not_dispatched": g.trailing}));
    }
    if let Some((im, mo)) = &g.disagree {
        let small = if g.broken { c.clone() } else { shrink_by(c, &mut |x| !x.d.is_empty() && { let y = gw_eval(pair, pool, lean, x, max_err, bufsz); y.disagree.is_some() && !y.broken }) };
        let (i2, m2) = if g.broken { (im.clone(), mo.clone()) } else { gw_eval(pair, pool, lean, &small, max_err, bufsz).disagree.unwrap_or((im.clone(), mo.clone())) };
        rep.disagree("gateway", json!({"case": case_json(&small), "line": case_line(&small), "pair": name}), &i2, &m2);
    }
    let mut seen = std::collections::HashSet::new();
    for (key, what) in &g.spec {
        if !seen.insert(key.clone()) {
            continue;
        }
        if rep.distribution.get(&format!("SPECFAIL {key}")).copied().unwrap_or(0) >= 3 {
            rep.hit(&format!("SPECFAIL {key}"));
            continue;
        }
        let k = key.clone();
        let small = if g.broken { c.clone() } else { shrink_by(c, &mut |x| !x.d.is_empty() && { let y = gw_eval(pair, pool, lean, x, max_err, bufsz); !y.broken && y.spec.iter().any(|(kk, _)| *kk == k) }) };
        rep.spec_fail(key, what, json!({"case": case_json(&small), "line": case_line(&small), "pair": name}));
    }
    g
}

/// the gateway stream: for each of the three peer kinds a fresh gateway + client; corpus cases of that peer first
fn gateway_stream(rep: &mut Report, rng: &mut Rng, args: &Args, pool: &PacketBufPool<{ verif::PACKET_BUF_SIZE }>, lean: &mut Lean, corpus: &[Case], replay_only: bool, max_err: usize, bufsz: usize) {
    let started = Instant::now();
    for kind in [PairKind::V4, PairKind::V6, PairKind::Dual] {
        let mine: Vec<Case> = corpus.iter().filter(|c| PairKind::of_peer(&c.peer) == Some(kind)).cloned().collect();
        if replay_only && mine.is_empty() {
            continue;
        }
        let mut pair = match GwPair::start(kind) {
            Ok(p) => p,
            Err(m) => {
                rep.spec_fail("C08:gateway:setup", &m, json!({"pair": kind.name()}));
                continue;
            }
        };
        rep.hit(&format!("gateway pairs started: {}", kind.name()));
        let t = Target { peers: vec![kind.peer()], locals: vec![pair.local], gw: true, max_len: bufsz - WG_OVERHEAD };
        let mut cases: Vec<Case> = mine.into_iter().map(|c| Case { local: pair.local, ..c }).collect();
        if !replay_only {
            cases.extend(gw_directed(rng, &t));
            cases.extend(gen_cross(rng, &t, args.thorough(), !args.thorough()));
            for _ in 0..args.scale(500, 20_000) {
                cases.push(gen_mutant(rng, &t));
            }
            for _ in 0..args.scale(150, 3000) {
                cases.push(gen_valid(rng, &t));
            }
        }
        let mut pair_started = Instant::now();
        let mut i = 0;
        while i < cases.len() {
            let c = cases[i].clone();
            i += 1;
            // a WireGuard session is used for at most 60 s / 50 000 datagrams (no re-keying inside a pair)
            if pair_started.elapsed() > Duration::from_secs(60) || pair.served > 50_000 {
                drop(pair);
                pair = match GwPair::start(kind) {
                    Ok(p) => p,
                    Err(m) => {
                        rep.spec_fail("C08:gateway:setup", &m, json!({"pair": kind.name()}));
                        break;
                    }
                };
                pair_started = Instant::now();
                rep.hit(&format!("gateway pairs started: {}", kind.name()));
            }
            let g = gw_account(rep, &mut pair, pool, lean, &c, max_err, bufsz);
            // every dispatched packet once more with bytes after the packet: the view, not the datagram, must be handed on
            if g.canon.starts_with("dispatch") && g.trailing == 0 && c.kind != "gw-trailing" && c.d.len() < t.max_len {
                let n = (1 + rng.below(40) as usize).min(t.max_len - c.d.len());
                let mut d = c.d.clone();
                d.extend(rng.bytes(n));
                cases.push(Case { kind: "gw-trailing", d, ..c.clone() });
            }
            if g.broken {
                drop(pair);
                pair = match GwPair::start(kind) {
                    Ok(p) => p,
                    Err(m) => {
                        rep.spec_fail("C08:gateway:setup", &m, json!({"pair": kind.name()}));
                        break;
                    }
                };
                pair_started = Instant::now();
            }
        }
    }
    rep.notes.push(format!("gateway stream: {:.1} s", started.elapsed().as_secs_f64()));
}

fn main() {
    let args = Args::parse();
    quiet_panics();
    let mut lean = Lean::spawn(&args.driver);
    let mut rng = Rng::new(args.seed);
    let mut rep = Report::new(
        "C08",
        "case = (datagram, tunnel peer ip, gateway ip) run through the real inbound_datagram_check + SCMP reply constructor and \
         through the Lean model and the independent Lean decision procedure. Direct streams: exhaustive cross product (16 source \
         nibbles x path types 0..5,255 and two from 6..254 x peers v4/v6/v4-mapped x matching/embedded-v4/non-matching address bytes \
         x destination nibbles x truncation at every header boundary; gateway-local addresses incl. 0.0.0.0 and ::), field mutants \
         (version, HdrLen +-, PayloadLen, segment lengths up to 63, path types 6..254, bit flips, cuts), valid packets from sciparse's \
         packet models up to 9216 B. Gateway stream (kinds prefixed 'gateway'): the same generators with the peer fixed to what the \
         real TunnelGateway::start_server sees (127.0.0.1 / ::1 / ::ffff:127.0.0.1 on a dual-stack socket), every datagram <= 9184 B \
         (9216 - 32 B WireGuard overhead; no padding is applied by gotatun) encrypted by a real gotatun client, sent over loop-back \
         UDP; observed = bytes handed to Dispatcher::try_dispatch and decrypted replies; every dispatched packet is sent once more \
         with trailing bytes. Each gateway case is also evaluated directly (counted once, key prefixed gw). Non-trivial = the \
         datagram got past the common-header size/version checks (every later branch of the filter is reachable); distinct by hash \
         of (first 64 bytes, length, peer)",
    );
    // constants: generated (Lean) vs the crate's own
    let bufsz = verif::PACKET_BUF_SIZE;
    let max_err = sciparse::payload::scmp::layout::SCMP_ERROR_MAX_PACKET_SIZE;
    let consts = lean.ask("const");
    let want = format!("buf {bufsz} max {max_err} maxhdr {} common {}", sciparse::header::layout::ScionHeaderLayout::MAX_SIZE_BYTES,
                       sciparse::header::layout::CommonHeaderLayout::SIZE_BYTES);
    if lean.differs(&consts, &want) {
        rep.disagree("constants", json!("generated constants vs crate constants"), &want, &consts);
    }
    let pool = PacketBufPool::<{ verif::PACKET_BUF_SIZE }>::new(2);

    let mut cases: Vec<Case> = vec![];
    for l in read_corpus(&args.corpus) {
        match parse_case(&l) {
            Some(c) => cases.push(c),
            None => rep.notes.push(format!("unparseable corpus line: {}", &l[..l.len().min(40)])),
        }
    }
    rep.hit_n("corpus cases", cases.len() as u64);
    let direct_t = Target::direct(bufsz);
    if let Some(p) = &args.replay {
        let txt = std::fs::read_to_string(p).expect("replay file");
        cases = txt.lines().filter_map(parse_case).collect();
    } else {
        cases.extend(gen_cross(&mut rng, &direct_t, args.thorough(), false));
        for _ in 0..args.scale(6000, 150_000) {
            cases.push(gen_mutant(&mut rng, &direct_t));
        }
        for _ in 0..args.scale(400, 6000) {
            cases.push(gen_valid(&mut rng, &direct_t));
        }
    }
    let (gw_cases, cases): (Vec<Case>, Vec<Case>) = cases.into_iter().partition(|c| c.gw);
    for c in &cases {
        let e = eval(&pool, &mut lean, c, max_err, bufsz);
        account(&mut rep, &pool, &mut lean, c, &e, max_err, bufsz);
    }
    for c in &gw_cases {
        if PairKind::of_peer(&c.peer).is_none() {
            rep.notes.push(format!("gateway corpus line with a peer no loop-back pair has: {}", c.peer));
        }
    }
    if args.replay.is_none() || !gw_cases.is_empty() {
        gateway_stream(&mut rep, &mut rng, &args, &pool, &mut lean, &gw_cases, args.replay.is_some(), max_err, bufsz);
    }
    rep.exhaustive = false;
    rep.write(&args.out);
    std::process::exit(if rep.ok() { 0 } else { 1 });
}
