//! C11 / C12 — correspondence + spec oracle for the SCION standard path and the one-hop path
//! (`sciparse::dataplane_path::{standard,onehop}`, `ScionPath::try_reverse`).
//!
//! `--prop C12`: every path byte string accepted by `StandardPathView::try_from_slice` (exhaustive over
//! segment tables 0..=3 x 0..=3 x 0..=3 and all 2-bit / 6-bit pointer values, random beyond) is put through
//! every operation the view and the model offer (reverse, expiration, queries, conversion both ways).
//! Compared with the Lean model (`drv_path`): Ok/Err class, outputs, full bytes after each call.
//! Spec oracle on the implementation alone: an Err leaves the operand byte-identical; reversal is an
//! involution and keeps the current hop field; view and model agree (computed with the real code:
//! `encode(model op) == view op (encode model)`); nothing panics.
//!
//! `--prop C11`: walks of `advance_ingress*/advance_egress*` steps (with and without `HopMacValidator`).
//! Compared with the model after every call: result, outputs, full bytes.  Spec oracle: Err => bytes
//! unchanged; egress Ok => CurrHF + 1; ingress Ok => CurrHF unchanged or + 1 together with CurrINF; at most
//! `hop_count` successful egress steps per walk; authentic paths (β-chained with the real `calculate_mac`)
//! verify at every hop forwards and after reversal; every single-bit corruption of an authenticated bit
//! is detected no later than at the AS owning the hop field.
use sciparse::{
    core::{convert::ToModel, encode::WireEncode, view::View},
    dataplane_path::{
        onehop::{model::OneHopPath, view::OneHopPathView},
        standard::{
            mac::{HopMacCalculate, algo::mac_beta_step},
            model::{HopField, InfoField, Segment, StandardPath},
            routing::{AdvanceError, HopMacValidator, IngressAdvanceAction},
            types::{HopFieldFlags, HopFieldMac, InfoFieldFlags},
            view::StandardPathView,
        },
        model::DpPath,
        types::PathType,
        view::{ScionDpPathView, ScionDpPathViewExt, ScionDpPathViewExtMut, ScionDpPathViewRef},
    },
    identifier::isd_asn::IsdAsn,
    path::ScionPath,
};
use serde_json::json;
use verif_harness::*;

// ------------------------------------------------------------------------------------------------
// model wire format shared with the driver: ci ch nseg { flags segid(2) ts(4) nhops hop(12)* }*
fn mhex(m: &StandardPath) -> Vec<u8> {
    let mut v = vec![m.current_info_field, m.current_hop_field, m.segments.len() as u8];
    for s in m.segments.iter() {
        v.push(s.info_field.flags.bits());
        v.extend_from_slice(&s.info_field.segment_id.to_be_bytes());
        v.extend_from_slice(&s.info_field.timestamp.to_be_bytes());
        v.push(s.hop_fields.len() as u8);
        for h in s.hop_fields.iter() {
            v.extend_from_slice(&hop_bytes(h));
        }
    }
    v
}
fn hop_bytes(h: &HopField) -> [u8; 12] {
    let mut b = [0u8; 12];
    b[0] = h.flags.bits();
    b[1] = h.expiration_units;
    b[2..4].copy_from_slice(&h.cons_ingress.to_be_bytes());
    b[4..6].copy_from_slice(&h.cons_egress.to_be_bytes());
    b[6..12].copy_from_slice(&h.mac.0);
    b
}
fn hop_from(b: &[u8]) -> HopField {
    HopField {
        flags: HopFieldFlags::from_bits_retain(b[0]),
        expiration_units: b[1],
        cons_ingress: u16::from_be_bytes([b[2], b[3]]),
        cons_egress: u16::from_be_bytes([b[4], b[5]]),
        mac: HopFieldMac([b[6], b[7], b[8], b[9], b[10], b[11]]),
    }
}
fn parse_mhex(b: &[u8]) -> Option<StandardPath> {
    if b.len() < 3 || b[2] > 3 {
        return None;
    }
    let mut m = StandardPath::new_empty();
    m.current_info_field = b[0];
    m.current_hop_field = b[1];
    let mut i = 3;
    for _ in 0..b[2] {
        if b.len() < i + 8 {
            return None;
        }
        let info = InfoField {
            flags: InfoFieldFlags::from_bits_retain(b[i]),
            segment_id: u16::from_be_bytes([b[i + 1], b[i + 2]]),
            timestamp: u32::from_be_bytes([b[i + 3], b[i + 4], b[i + 5], b[i + 6]]),
        };
        let n = b[i + 7] as usize;
        i += 8;
        if b.len() < i + 12 * n {
            return None;
        }
        let mut seg = Segment { info_field: info, hop_fields: Default::default() };
        for k in 0..n {
            seg.hop_fields.push(hop_from(&b[i + 12 * k..i + 12 * k + 12]));
        }
        i += 12 * n;
        m.segments.push(seg);
    }
    if i != b.len() {
        return None;
    }
    Some(m)
}

// ------------------------------------------------------------------------------------------------
// path byte strings
fn meta(ci: u8, ch: u8, rsv: u8, s: [u8; 3]) -> [u8; 4] {
    let w: u32 = ((ci as u32 & 3) << 30)
        | ((ch as u32 & 63) << 24)
        | ((rsv as u32 & 63) << 18)
        | ((s[0] as u32 & 63) << 12)
        | ((s[1] as u32 & 63) << 6)
        | (s[2] as u32 & 63);
    w.to_be_bytes()
}
fn info_count(s: [u8; 3]) -> usize {
    s.iter().filter(|x| **x > 0).count()
}
fn hop_count(s: [u8; 3]) -> usize {
    s.iter().map(|x| *x as usize).sum()
}
/// random field contents; `tame` keeps reserved bits zero and interface ids small
fn gen_path(rng: &mut Rng, ci: u8, ch: u8, s: [u8; 3], tame: bool) -> Vec<u8> {
    let mut v = meta(ci, ch, if tame { 0 } else { rng.below(64) as u8 }, s).to_vec();
    for _ in 0..info_count(s) {
        let flags = if tame || rng.chance(3, 4) { rng.below(4) as u8 } else { rng.below(256) as u8 };
        let rsv = if tame { 0 } else { rng.below(256) as u8 };
        v.push(flags);
        v.push(rsv);
        v.extend_from_slice(&(rng.next() as u16).to_be_bytes());
        let ts: u32 = match rng.below(6) {
            0 => u32::MAX,
            1 => u32::MAX - rng.below(90000) as u32,
            2 => 0,
            _ => rng.next() as u32,
        };
        v.extend_from_slice(&ts.to_be_bytes());
    }
    for _ in 0..hop_count(s) {
        let flags = if tame || rng.chance(3, 4) { rng.below(4) as u8 } else { rng.below(256) as u8 };
        v.push(flags);
        v.push(match rng.below(4) {
            0 => 0,
            1 => 255,
            _ => rng.below(256) as u8,
        });
        v.extend_from_slice(&(rng.below(if tame { 8 } else { 65536 }) as u16).to_be_bytes());
        v.extend_from_slice(&(rng.below(if tame { 8 } else { 65536 }) as u16).to_be_bytes());
        v.extend_from_slice(&rng.bytes(6));
    }
    v
}
fn ptr(b: &[u8]) -> (u8, u8) {
    (b[0] >> 6, b[0] & 63)
}
fn segs_of(b: &[u8]) -> [u8; 3] {
    let w = u32::from_be_bytes([b[0], b[1], b[2], b[3]]);
    [((w >> 12) & 63) as u8, ((w >> 6) & 63) as u8, (w & 63) as u8]
}
fn no_gap(s: [u8; 3]) -> bool {
    s[0] > 0 && (s[1] > 0 || s[2] == 0)
}

// ------------------------------------------------------------------------------------------------
// implementation calls (each under catch) -> canonical strings
fn impl_parse(b: &[u8]) -> String {
    match catch(|| StandardPathView::try_from_slice(b).map(|(v, _)| v.as_slice().len())) {
        Err(_) => "panic".into(),
        Ok(Ok(n)) => format!("ok {n}"),
        Ok(Err(_)) => "err".into(),
    }
}
fn with_view<T>(b: &mut [u8], f: impl FnOnce(&mut StandardPathView) -> T) -> Result<T, String> {
    catch(move || {
        let (v, _) = StandardPathView::try_from_mut_slice(b).expect("accepted buffer");
        f(v)
    })
}
fn impl_vrev(b: &[u8]) -> (String, Vec<u8>) {
    let mut w = b.to_vec();
    let r = with_view(&mut w, |v| v.try_reverse().is_ok());
    match r {
        Err(_) => ("panic".into(), w),
        Ok(true) => (format!("ok {}", hex(&w)), w),
        Ok(false) => (format!("err {}", hex(&w)), w),
    }
}
fn impl_vexp(b: &[u8]) -> String {
    let mut w = b.to_vec();
    match with_view(&mut w, |v| v.expiration()) {
        Err(_) => "panic".into(),
        Ok(e) => format!("{e}"),
    }
}
fn opt<T: std::fmt::Display>(o: Option<T>) -> String {
    o.map(|x| x.to_string()).unwrap_or("-".into())
}
fn impl_vq(b: &[u8]) -> String {
    let mut w = b.to_vec();
    let r = with_view(&mut w, |v| {
        let r: ScionDpPathViewRef = (&*v).into();
        let si = v.calculate_segment_index(v.curr_hop_field_idx() as usize);
        let segs: Vec<String> = v.segments().map(|(_, h)| h.len().to_string()).collect();
        format!(
            "ic={} hc={} fe={} li={} ce={} cin={} si={} segs={}",
            v.info_field_count(),
            v.hop_field_count(),
            opt(r.first_egress_interface()),
            opt(r.last_ingress_interface()),
            opt(r.current_egress_interface()),
            opt(r.current_ingress_interface()),
            si.map(|(s, a, e)| format!("{s}:{}:{}", a as u8, e as u8)).unwrap_or("-".into()),
            if segs.is_empty() { "-".into() } else { segs.join(",") },
        )
    });
    r.unwrap_or("panic".into())
}
fn impl_vmodel(b: &[u8]) -> Result<StandardPath, String> {
    let mut w = b.to_vec();
    with_view(&mut w, |v| v.to_model())
}
fn impl_menc(m: &StandardPath) -> (String, Option<Vec<u8>>) {
    match catch(|| m.try_encode_to_vec()) {
        Err(_) => ("panic".into(), None),
        Ok(Ok(v)) => (format!("ok {}", hex(&v)), Some(v)),
        Ok(Err(_)) => ("err".into(), None),
    }
}
fn impl_mrev(m: &StandardPath) -> (String, StandardPath, bool) {
    let mut c = m.clone();
    match catch(|| c.try_reverse().is_ok()) {
        Err(_) => ("panic".into(), m.clone(), false),
        Ok(ok) => {
            let ml = c.segments.iter().all(|s| s.hop_fields.len() < 256);
            let s = if ml { hex(&mhex(&c)) } else { "toolong".into() };
            (format!("{} {s}", if ok { "ok" } else { "err" }), c, ok)
        }
    }
}
fn impl_mexp(m: &StandardPath) -> String {
    catch(|| m.expiration()).map(|e| e.to_string()).unwrap_or("panic".into())
}
fn impl_mq(m: &StandardPath) -> String {
    catch(|| {
        let (a, b, c) = m.segment_lengths();
        format!("ic={} hc={} segs={a},{b},{c}", m.info_field_count(), m.hop_field_count())
    })
    .unwrap_or("panic".into())
}

fn adv_err(e: &AdvanceError) -> String {
    match e {
        AdvanceError::HopOutOfBounds(n) => format!("err hop_oob:{n}"),
        AdvanceError::InfoOutOfBounds(n) => format!("err info_oob:{n}"),
        AdvanceError::InvalidSegmentIndex { expected, actual } => format!("err seg_idx:{expected}:{actual}"),
        AdvanceError::InvalidPathState(s) => {
            format!("err state:{}", if s.contains("single hop") { "single" } else { "segend" })
        }
    }
}
#[derive(Clone, Copy, PartialEq, Debug)]
enum Op {
    IngExt,
    IngInt,
    Egr,
}
impl Op {
    fn ch(self) -> char {
        match self {
            Op::IngExt => 'i',
            Op::IngInt => 'n',
            Op::Egr => 'e',
        }
    }
    fn from(c: char) -> Option<Op> {
        match c {
            'i' => Some(Op::IngExt),
            'n' => Some(Op::IngInt),
            'e' => Some(Op::Egr),
            _ => None,
        }
    }
}
/// one advance step on the real code; returns (canonical result, ok, verified, forward_local)
fn impl_step(b: &mut Vec<u8>, op: Op, key: Option<[u8; 16]>) -> (String, bool, bool, bool) {
    let r = with_view(b, |v| match op {
        Op::IngExt | Op::IngInt => {
            let fi = op == Op::IngInt;
            let (out, valid) = match key {
                None => match v.advance_ingress(fi) {
                    Ok(o) => (o, true),
                    Err(e) => return (adv_err(&e), false, false, false),
                },
                Some(k) => match v.advance_ingress_with_validator(HopMacValidator { key: k }, fi) {
                    Ok(r) => match r.into_result() {
                        Ok(o) => (o, true),
                        Err((o, _)) => (o, false),
                    },
                    Err(e) => return (adv_err(&e), false, false, false),
                },
            };
            let (act, local) = match out.action {
                IngressAdvanceAction::ForwardLocal => ("local".to_string(), true),
                IngressAdvanceAction::ContinueEgress { egress_if } => (format!("egress:{egress_if}"), false),
            };
            (
                format!("ok a={} if={} act={act} v={}", out.scmp_alert as u8, out.ingress_interface, valid as u8),
                true,
                valid,
                local,
            )
        }
        Op::Egr => {
            let (out, valid) = match key {
                None => match v.advance_egress() {
                    Ok(o) => (o, true),
                    Err(e) => return (adv_err(&e), false, false, false),
                },
                Some(k) => match v.advance_egress_with_validator(HopMacValidator { key: k }) {
                    Ok(r) => match r.into_result() {
                        Ok(o) => (o, true),
                        Err((o, _)) => (o, false),
                    },
                    Err(e) => return (adv_err(&e), false, false, false),
                },
            };
            (format!("ok a={} if={} v={}", out.scmp_alert as u8, out.egress_interface, valid as u8), true, valid, false)
        }
    });
    match r {
        Err(m) => (format!("panic:{}", m.chars().take(60).collect::<String>()), false, false, false),
        Ok(x) => x,
    }
}
fn step_req(op: Op, key: Option<[u8; 16]>, b: &[u8]) -> String {
    let k = key.map(|k| hex(&k)).unwrap_or("-".into());
    match op {
        Op::IngExt => format!("ing 0 {k} {}", hex(b)),
        Op::IngInt => format!("ing 1 {k} {}", hex(b)),
        Op::Egr => format!("egr {k} {}", hex(b)),
    }
}

// ------------------------------------------------------------------------------------------------
struct Ctx {
    lean: Lean,
    rep: Report,
    prop: String,
}
impl Ctx {
    fn cmp(&mut self, stream: &str, req: &str, imp: &str) {
        let model = self.lean.ask(req);
        if self.lean.differs(&model, imp) {
            let case = json!({"request": req, "line": format!("req {req}")});
            self.rep.disagree(stream, case, imp, &model);
        }
    }
    fn spec(&mut self, key: &str, what: String, line: String) {
        let k = format!("{}:{key}", self.prop);
        self.rep.spec_fail(&k, &what, json!({"line": line}));
    }
}

// ------------------------------------------------------------------------------------------------
// C12: one accepted standard-path byte string through every operation
fn c12_std(cx: &mut Ctx, b: &[u8], kind: &str) {
    let line = format!("std {}", hex(b));
    let p = impl_parse(b);
    cx.cmp("parse", &format!("parse {}", hex(b)), &p);
    if !p.starts_with("ok") {
        cx.rep.hit("c12 rejected by view constructor");
        cx.rep.case(&line, false);
        if p == "panic" {
            cx.spec("panic", "StandardPathView::try_from_slice panicked".into(), line);
        }
        return;
    }
    let n: usize = p[3..].parse().unwrap();
    let b = &b[..n];
    let (ci, ch) = ptr(b);
    let segs = segs_of(b);
    cx.rep.hit(&format!("c12 {kind}"));
    cx.rep.traces += 1;
    // --- view reverse
    let (r, after) = impl_vrev(b);
    cx.cmp("view-reverse", &format!("vrev {}", hex(b)), &r);
    let cls = r.split(' ').next().unwrap().to_string();
    cx.rep.hit(&format!("c12 view try_reverse {cls}"));
    let mut nontrivial = cls == "ok";
    match cls.as_str() {
        "panic" => cx.spec("panic", "StandardPathView::try_reverse panicked".into(), line.clone()),
        "err" => {
            if after != b {
                cx.spec(
                    "fail-atomic:view-reverse",
                    format!(
                        "StandardPathView::try_reverse returned Err but modified the path: (ci={ci},ch={ch},segs={segs:?}) meta {} -> {}",
                        hex(&b[..4]),
                        hex(&after[..4])
                    ),
                    line.clone(),
                );
            }
        }
        _ => {
            let (r2, back) = impl_vrev(&after);
            if !r2.starts_with("ok") || back != b {
                cx.spec(
                    "reverse-involutive",
                    format!("reversing twice does not restore the path (second call: {})", &r2[..r2.len().min(3)]),
                    line.clone(),
                );
            }
            // position: the current hop field is the same hop field (when the pointer is representable)
            let hc = hop_count(segs);
            if hc <= 64 {
                let (_, ch2) = ptr(&after);
                let off = |bb: &[u8], i: usize| 4 + 8 * info_count(segs_of(bb)) + 12 * i;
                let a = &b[off(b, ch as usize)..off(b, ch as usize) + 12];
                let c = &after[off(&after, ch2 as usize)..off(&after, ch2 as usize) + 12];
                if a != c || ch2 as usize != hc - 1 - ch as usize {
                    cx.spec("reverse-position", format!("current hop field differs after reversal (ch {ch} -> {ch2}, {hc} hops)"), line.clone());
                }
            }
        }
    }
    // --- expiration, queries, conversion
    let e = impl_vexp(b);
    cx.cmp("view-expiration", &format!("vexp {}", hex(b)), &e);
    if e == "panic" {
        cx.spec("panic", "StandardPathView::expiration panicked".into(), line.clone());
    }
    let q = impl_vq(b);
    cx.cmp("view-queries", &format!("vq {}", hex(b)), &q);
    if q == "panic" {
        cx.spec("panic", "a view query panicked".into(), line.clone());
    }
    let m = match impl_vmodel(b) {
        Ok(m) => m,
        Err(_) => {
            cx.spec("panic", "StandardPath::from_view panicked".into(), line.clone());
            cx.rep.case(&line, nontrivial);
            return;
        }
    };
    cx.cmp("from-view", &format!("vmodel {}", hex(b)), &hex(&mhex(&m)));
    c12_model(cx, &m, false);
    // --- agreement, computed with the real code, on models the encoder accepts
    let (er, enc) = impl_menc(&m);
    if let Some(enc) = enc {
        nontrivial = true;
        cx.rep.hit("c12 agreement checked (model accepted by encoder)");
        // conversion: encode(from_view(v)) == v up to the reserved bits, from_view(encode(m)) == m
        let mut cleared = b.to_vec();
        cleared[1] &= 0x03;
        cleared[2] &= 0xff;
        let w = u32::from_be_bytes([cleared[0], cleared[1], cleared[2], cleared[3]]) & !(0x3f << 18);
        cleared[..4].copy_from_slice(&w.to_be_bytes());
        for k in 0..info_count(segs) {
            cleared[4 + 8 * k + 1] = 0;
        }
        if enc != cleared {
            cx.spec("agree:roundtrip-view", "encode(from_view(v)) differs from v outside the reserved bits".into(), line.clone());
        }
        match impl_vmodel(&enc) {
            Ok(m2) if m2 == m => {}
            _ => cx.spec("agree:roundtrip-model", "from_view(encode(m)) != m".into(), line.clone()),
        }
        c12_agree(cx, &m, &enc, &line);
        if let Ok(Ok((v, _))) = catch(|| StandardPathView::try_from_slice(b).map(|(v, r)| (v.to_boxed(), r.len()))) {
            c12_dppath(cx, &ScionDpPathView::Standard(v), "standard", &line);
        }
    } else if er == "panic" {
        cx.spec("panic", "try_encode_to_vec panicked".into(), line.clone());
    }
    // --- ScionPath::try_reverse: an error leaves the whole ScionPath untouched
    let r = catch(|| {
        let (v, _) = StandardPathView::try_from_slice(b).unwrap();
        let sp = ScionPath::new(IsdAsn(0x0001_ff00_0000_0110), IsdAsn(0x0002_ff00_0000_0220), ScionDpPathView::Standard(v.to_boxed()), None, None);
        let mut c = sp.clone();
        let ok = c.try_reverse().is_ok();
        (ok, c == sp, c.dp_path().as_slice().to_vec(), c.src_ia() == sp.dst_ia() && c.dst_ia() == sp.src_ia())
    });
    match r {
        Err(_) => cx.spec("panic", "ScionPath::try_reverse panicked".into(), line.clone()),
        Ok((false, same, _, _)) => {
            if !same {
                cx.spec("fail-atomic:scionpath-reverse", "ScionPath::try_reverse returned Err but the ScionPath changed".into(), line.clone());
            }
        }
        Ok((true, _, bytes, swapped)) => {
            if bytes != after || !swapped {
                cx.spec("agree:scionpath-reverse", "ScionPath::try_reverse differs from the view reversal / endpoints not swapped".into(), line.clone());
            }
        }
    }
    cx.rep.case(&line, nontrivial);
    if nontrivial && b.len() < 80 {
        cx.rep.sample(json!({"case": line, "view_reverse": r_short(&r_of(&after, &cls)), "expiration": e, "queries": q}));
    }
}
fn r_of(after: &[u8], cls: &str) -> String {
    format!("{cls} {}", hex(after))
}
fn r_short(s: &str) -> String {
    s.chars().take(120).collect()
}

/// model-side operations (model vs Lean model; atomicity of the model)
fn c12_model(cx: &mut Ctx, m: &StandardPath, own_case: bool) {
    if m.segments.iter().any(|s| s.hop_fields.len() > 255) {
        return;
    }
    let mh = hex(&mhex(m));
    let line = format!("model {mh}");
    let (r, after, ok) = impl_mrev(m);
    cx.cmp("model-reverse", &format!("mrev {mh}"), &r);
    cx.rep.hit(&format!("c12 model try_reverse {}", r.split(' ').next().unwrap()));
    if r == "panic" {
        cx.spec("panic", "StandardPath::try_reverse panicked".into(), line.clone());
    } else if !ok && after != *m {
        cx.spec("fail-atomic:model-reverse", "StandardPath::try_reverse returned Err but modified the model".into(), line.clone());
    }
    let e = impl_mexp(m);
    cx.cmp("model-expiration", &format!("mexp {mh}"), &e);
    if e == "panic" {
        cx.spec("panic", "StandardPath::expiration panicked".into(), line.clone());
    }
    let q = impl_mq(m);
    cx.cmp("model-queries", &format!("mq {mh}"), &q);
    let (er, enc) = impl_menc(m);
    cx.cmp("encode", &format!("menc {mh}"), &er);
    if er == "panic" {
        cx.spec("panic", "try_encode_to_vec panicked".into(), line.clone());
    }
    if own_case {
        if let Some(enc) = &enc {
            c12_agree(cx, m, enc, &line);
            // conversion back: lossless unless the encoder truncated the pointer
            match impl_vmodel(enc) {
                Ok(m2) if m2 == *m => {}
                Ok(_) => cx.spec(
                    "agree:roundtrip-model",
                    format!(
                        "from_view(encode(m)) != m: the encoder accepts current_hop_field={} ({} hops) and writes it through the 6-bit CurrHF field",
                        m.current_hop_field,
                        m.hop_field_count()
                    ),
                    line.clone(),
                ),
                Err(_) => cx.spec("panic", "from_view panicked".into(), line.clone()),
            }
        }
        cx.rep.case(&line, enc.is_some() || ok);
    }
}

/// view-vs-model agreement with the real code only: `enc` = encode(m)
fn c12_agree(cx: &mut Ctx, m: &StandardPath, enc: &[u8], line: &str) {
    // reverse
    let (_, mafter, mok) = impl_mrev(m);
    let (vr, vafter) = impl_vrev(enc);
    let vok = vr.starts_with("ok");
    // more than 64 hop fields cannot be addressed by the 6-bit CurrHF: separate (known) failure class
    let hc = m.hop_field_count();
    let key = if hc > 64 { "agree:reverse:over-64-hops" } else { "agree:reverse" };
    if mok != vok {
        cx.spec(key, format!("model try_reverse ok={mok}, view try_reverse ok={vok} ({hc} hop fields)"), line.into());
    } else if mok {
        match impl_menc(&mafter).1 {
            Some(e2) if e2 == vafter => {}
            Some(_) => cx.spec(key, format!("encode(reverse(m)) != reverse(encode(m)) ({hc} hop fields)"), line.into()),
            None => cx.spec(
                key,
                format!(
                    "the encoder accepts the model ({hc} hop fields, current_hop_field {}) but rejects its reversal (current_hop_field {}), while the view over the encoding reverses",
                    m.current_hop_field, mafter.current_hop_field
                ),
                line.into(),
            ),
        }
    }
    // expiry
    let (ve, me) = (impl_vexp(enc), impl_mexp(m));
    if ve != me {
        cx.spec("agree:expiry", format!("view expiration {ve}, model expiration {me}"), line.into());
    }
    // reversal keeps the expiry (ScionPath caches it across try_reverse)
    if vok && impl_vexp(&vafter) != ve {
        cx.spec("agree:expiry-after-reverse", "expiration changes under reversal".into(), line.into());
    }
    // queries
    let vq = impl_vq(enc);
    let mq = impl_mq(m);
    let pick = |s: &str, k: &str| s.split(' ').find(|t| t.starts_with(k)).map(|t| t[k.len()..].to_string());
    let vsegs = segs_of(enc);
    if pick(&vq, "ic=") != pick(&mq, "ic=")
        || pick(&vq, "hc=") != pick(&mq, "hc=")
        || Some(format!("{},{},{}", vsegs[0], vsegs[1], vsegs[2])) != pick(&mq, "segs=")
    {
        cx.spec("agree:queries", format!("view [{vq}] vs model [{mq}]"), line.into());
    }
    let mseg: Vec<String> = m.segments.iter().map(|s| s.hop_fields.len().to_string()).collect();
    if pick(&vq, "segs=") != Some(mseg.join(",")) {
        cx.spec("agree:queries", "segment iterator of the view differs from the model's segments".into(), line.into());
    }
}

/// empty and unsupported data-plane paths (path type `t`, raw bytes)
fn c12_dp_other(cx: &mut Ctx, t: u8, b: &[u8]) {
    let line = format!("dp {t} {}", hex(b));
    let v = match PathType::from(t) {
        PathType::Empty => ScionDpPathView::Empty,
        PathType::Scion | PathType::OneHop => return,
        pt => ScionDpPathView::Unsupported { path_type: pt, data: b.to_vec().into_boxed_slice() },
    };
    let kind = if t == 0 { "empty" } else { "unsupported" };
    c12_dppath(cx, &v, kind, &line);
    cx.rep.case(&line, true);
}

fn c12_onehop(cx: &mut Ctx, b: &[u8]) {
    let line = format!("oh {}", hex(b));
    let r = catch(|| OneHopPathView::try_from_slice(b).map(|(v, _)| v.clone()));
    let v = match r {
        Err(_) => {
            cx.spec("panic", "OneHopPathView::try_from_slice panicked".into(), line);
            return;
        }
        Ok(Err(_)) => {
            cx.cmp("onehop", &format!("ohparse {}", hex(b)), "err");
            cx.rep.case(&line, false);
            return;
        }
        Ok(Ok(v)) => v,
    };
    cx.cmp("onehop", &format!("ohparse {}", hex(b)), "ok 32");
    let b = &b[..32];
    // view reverse
    let mut c = v.clone();
    let r = catch(|| c.try_reverse().is_ok());
    let (s, ok) = match r {
        Err(_) => ("panic".to_string(), false),
        Ok(ok) => (format!("{} {}", if ok { "ok" } else { "err" }, hex(c.as_slice())), ok),
    };
    cx.cmp("onehop-view-reverse", &format!("ohvrev {}", hex(b)), &s);
    cx.rep.hit(&format!("c12 onehop view try_reverse {}", s.split(' ').next().unwrap()));
    if s == "panic" {
        cx.spec("panic", "OneHopPathView::try_reverse panicked".into(), line.clone());
    } else if !ok && c.as_slice() != b {
        cx.spec("fail-atomic:onehop-view-reverse", "OneHopPathView::try_reverse Err modified the path".into(), line.clone());
    } else if ok {
        // reversal is its own inverse
        let mut c2 = c.clone();
        let ok2 = catch(|| c2.try_reverse().is_ok()).unwrap_or(false);
        if !ok2 || c2.as_slice() != b {
            cx.spec(
                "reverse-involutive:onehop",
                format!(
                    "OneHopPathView::try_reverse twice does not restore the path (second call ok={ok2}; first hop cons_ingress {}, second hop cons_ingress {})",
                    u16::from_be_bytes([b[10], b[11]]),
                    u16::from_be_bytes([b[22], b[23]])
                ),
                line.clone(),
            );
        }
    }
    // model reverse and agreement
    let m: OneHopPath = v.to_model();
    let mut mc = m.clone();
    let mok = catch(|| mc.try_reverse().is_ok());
    match mok {
        Err(_) => cx.spec("panic", "OneHopPath::try_reverse panicked".into(), line.clone()),
        Ok(mok) => {
            if !mok && mc != m {
                cx.spec("fail-atomic:onehop-model-reverse", "OneHopPath::try_reverse Err modified the model".into(), line.clone());
            }
            let enc0 = m.try_encode_to_vec().ok();
            let enc1 = mc.try_encode_to_vec().ok();
            cx.cmp(
                "onehop-model-reverse",
                &format!("ohmrev {}", hex(&enc0.clone().unwrap_or_default())),
                &format!("{} {}", if mok { "ok" } else { "err" }, hex(&enc1.clone().unwrap_or_default())),
            );
            // agreement on the encoding of the model (reserved byte cleared)
            if let Some(e0) = enc0 {
                let (v0, _) = OneHopPathView::try_from_slice(&e0).unwrap();
                let mut v0 = v0.clone();
                let vok = v0.try_reverse().is_ok();
                if vok != mok || (mok && Some(v0.as_slice().to_vec()) != enc1) {
                    cx.spec("agree:onehop-reverse", "one-hop view and model reversal differ".into(), line.clone());
                }
            }
        }
    }
    // data-plane-path level: DpPath::OneHop vs ScionDpPathView::OneHop
    {
        let dm = catch(|| m.clone().try_into_reversed_standard_path());
        let txt = match dm {
            Err(_) => "panic".to_string(),
            Ok(Ok(sp)) => format!("ok {}", hex(&mhex(&sp))),
            Ok(Err(_)) => "err".to_string(),
        };
        cx.cmp("onehop-into-reversed-standard", &format!("ohdprev {}", hex(b)), &txt);
        if txt == "panic" {
            cx.spec("panic", "OneHopPath::try_into_reversed_standard_path panicked".into(), line.clone());
        }
        c12_dppath(cx, &ScionDpPathView::OneHop(v.clone()), "onehop", &line);
    }
    // expiration (view only) must not panic
    let e = catch(|| v.expiration());
    let es = e.clone().map(|x| x.to_string()).unwrap_or("panic".into());
    cx.cmp("onehop-expiration", &format!("ohexp {}", hex(b)), &es);
    if e.is_err() {
        cx.spec(
            "panic:onehop-expiration",
            format!("OneHopPathView::expiration panicked (timestamp {:#x}): u32 addition overflows", v.info_field().timestamp()),
            line.clone(),
        );
    }
    // set_second_hop: view and model agree
    let key = [7u8; 16];
    for adv in [false, true] {
        let mut vv = v.clone();
        let mut mm = m.clone();
        let r = catch(|| {
            vv.set_second_hop(0x1234, key, adv);
            mm.set_second_hop(0x1234, key, adv);
        });
        if r.is_err() {
            cx.spec("panic", "set_second_hop panicked".into(), line.clone());
            continue;
        }
        cx.cmp("onehop-set-second-hop", &format!("ohvset {} {} {}", adv as u8, hex(&key), hex(b)), &hex(vv.as_slice()));
        // compare the second hop fields (the model drops the reserved info byte)
        let menc = mm.try_encode_to_vec().unwrap();
        if menc[20..32] != vv.as_slice()[20..32] {
            cx.rep.hit("c12 onehop set_second_hop view/model differ");
            cx.spec(
                "agree:onehop-set-second-hop",
                format!(
                    "OneHopPathView::set_second_hop and OneHopPath::set_second_hop produce different second hop fields: view {} model {} (first hop exp_time {})",
                    hex(&vv.as_slice()[20..32]),
                    hex(&menc[20..32]),
                    b[9]
                ),
                line.clone(),
            );
        }
    }
    cx.rep.case(&line, true);
}

/// canonical text of an owned data-plane path view: wire path type + bytes
fn dpv_text(v: &ScionDpPathView) -> String {
    let ty = match v {
        ScionDpPathView::Standard(_) => u8::from(PathType::Scion),
        ScionDpPathView::OneHop(_) => u8::from(PathType::OneHop),
        ScionDpPathView::Empty => u8::from(PathType::Empty),
        ScionDpPathView::Unsupported { path_type, .. } => u8::from(*path_type),
    };
    format!("t{ty} {}", hex(v.as_slice()))
}

/// C12, data-plane-path level (`DpPath::try_reverse` vs `ScionDpPathViewExtMut::try_reverse`, the entry points
/// `ScionPath`, the stack and pocketscion call): atomicity of both, involution of the view, agreement
/// `encode(reverse(model)) == reverse(encode(model))` including the wire path type.
fn c12_dppath(cx: &mut Ctx, view: &ScionDpPathView, kind: &str, line: &str) {
    cx.rep.hit(&format!("c12 dppath {kind}"));
    let m: DpPath = match catch(|| view.to_model()) {
        Ok(m) => m,
        Err(_) => return cx.spec("panic", format!("DpPath::from_view panicked ({kind})"), line.into()),
    };
    // view side
    let mut v1 = view.clone();
    let vok = match catch(|| v1.try_reverse().is_ok()) {
        Ok(ok) => ok,
        Err(_) => return cx.spec("panic", format!("ScionDpPathView::try_reverse panicked ({kind})"), line.into()),
    };
    if !vok && v1 != *view {
        cx.spec(&format!("fail-atomic:dppath-view-reverse:{kind}"), "ScionDpPathView::try_reverse returned Err but modified the path".into(), line.into());
    }
    if vok {
        let mut v2 = v1.clone();
        let ok2 = catch(|| v2.try_reverse().is_ok()).unwrap_or(false);
        if !ok2 || v2 != *view {
            cx.spec(
                &format!("reverse-involutive:dppath-view:{kind}"),
                format!("ScionDpPathView::try_reverse twice does not restore the path (second call ok={ok2}): {} -> {} -> {}", dpv_text(view), dpv_text(&v1), dpv_text(&v2)),
                line.into(),
            );
        }
    }
    // model side
    let mut m1 = m.clone();
    let mok = match catch(|| m1.try_reverse().is_ok()) {
        Ok(ok) => ok,
        Err(_) => return cx.spec("panic", format!("DpPath::try_reverse panicked ({kind})"), line.into()),
    };
    if !mok && m1 != m {
        cx.spec(&format!("fail-atomic:dppath-model-reverse:{kind}"), "DpPath::try_reverse returned Err but modified the model".into(), line.into());
    }
    // try_into_reversed: Err hands back the unchanged operand
    match catch(|| m.clone().try_into_reversed()) {
        Err(_) => cx.spec("panic", format!("DpPath::try_into_reversed panicked ({kind})"), line.into()),
        Ok(Ok(r)) => {
            if !mok || r != m1 {
                cx.spec(&format!("agree:dppath-into-reversed:{kind}"), "DpPath::try_into_reversed differs from try_reverse".into(), line.into());
            }
        }
        Ok(Err((orig, _))) => {
            if mok || orig != m {
                cx.spec(&format!("fail-atomic:dppath-model-reverse:{kind}"), "DpPath::try_into_reversed returned Err with a changed operand / where try_reverse succeeds".into(), line.into());
            }
        }
    }
    // agreement on models the encoder accepts
    let enc0 = match catch(|| m.try_encode_to_owned_view()) {
        Ok(Ok(e)) => e,
        Ok(Err(_)) => return cx.rep.hit("c12 dppath model rejected by encoder"),
        Err(_) => return cx.spec("panic", format!("DpPath::try_encode_to_owned_view panicked ({kind})"), line.into()),
    };
    cx.rep.hit(&format!("c12 dppath agreement checked {kind}"));
    let mut ev = enc0.clone();
    let evok = catch(|| ev.try_reverse().is_ok()).unwrap_or(false);
    if evok != mok {
        return cx.spec(
            &format!("agree:dppath-reverse:{kind}"),
            format!("DpPath::try_reverse ok={mok} but the view over its encoding reverses ok={evok} ({})", dpv_text(&enc0)),
            line.into(),
        );
    }
    if !mok {
        return;
    }
    let em = match catch(|| m1.try_encode_to_owned_view()) {
        Ok(Ok(e)) => e,
        _ => {
            return cx.spec(
                &format!("agree:dppath-reverse:{kind}"),
                "the encoder accepts the model but rejects (or panics on) its reversal while the view over the encoding reverses".into(),
                line.into(),
            )
        }
    };
    if em == ev {
        return;
    }
    // the two sides differ.  One documented divergence is classified separately: a one-hop *model* is turned
    // into a two-hop standard path (same info field with CONS_DIR toggled, hop fields second, first; both
    // pointers 0), the one-hop *view* stays a one-hop path with the hop fields swapped.
    let documented = match (&ev, &m1) {
        (ScionDpPathView::OneHop(rv), DpPath::Standard(sp)) => {
            let r: sciparse::dataplane_path::onehop::model::OneHopPath = rv.to_model();
            sp.current_hop_field == 0
                && sp.current_info_field == 0
                && sp.segments.len() == 1
                && sp.segments[0].info_field == r.info
                && sp.segments[0].hop_fields.len() == 2
                && sp.segments[0].hop_fields[0] == r.hops[0]
                && sp.segments[0].hop_fields[1] == r.hops[1]
        }
        _ => false,
    };
    let key = if documented { "agree:dppath-reverse:onehop-becomes-standard".to_string() } else { format!("agree:dppath-reverse:{kind}") };
    cx.spec(
        &key,
        format!("encode(DpPath::try_reverse(m)) = {} but ScionDpPathView::try_reverse(encode(m)) = {}", dpv_text(&em), dpv_text(&ev)),
        line.into(),
    );
}

// ------------------------------------------------------------------------------------------------
// C11
struct WalkStats {
    egress_ok: usize,
}
/// run one walk: `steps` with an optional key per step; model compared after every call
fn c11_walk(cx: &mut Ctx, start: &[u8], steps: &[(Op, Option<[u8; 16]>)], kind: &str) -> (Vec<u8>, Vec<(bool, bool, bool)>, WalkStats) {
    let mut b = start.to_vec();
    let line = format!(
        "walk {} {}",
        hex(start),
        steps.iter().map(|(o, k)| format!("{}{}", o.ch(), k.map(|k| format!(":{}", hex(&k))).unwrap_or_default())).collect::<Vec<_>>().join(",")
    );
    let hc = hop_count(segs_of(start));
    let mut st = WalkStats { egress_ok: 0 };
    let mut outs = vec![];
    let mut nontrivial = false;
    for (op, key) in steps {
        let before = b.clone();
        let (ci0, ch0) = ptr(&before);
        let req = step_req(*op, *key, &before);
        let (res, ok, valid, local) = impl_step(&mut b, *op, *key);
        let full = format!("{res} {}", hex(&b));
        cx.cmp("advance", &req, &full);
        let (ci1, ch1) = ptr(&b);
        let cls: String = res.split(' ').take(if ok { 1 } else { 2 }).collect::<Vec<_>>().join(" ");
        let cls = cls.split(':').next().unwrap().to_string();
        cx.rep.hit(&format!("c11 {} {cls}", match op { Op::Egr => "egress", Op::IngExt => "ingress(ext)", Op::IngInt => "ingress(int)" }));
        outs.push((ok, valid, local));
        if res.starts_with("panic") {
            cx.spec("panic", format!("advance panicked: {res}"), line.clone());
            continue;
        }
        if !ok {
            if b != before {
                cx.spec("fail-atomic", format!("advance returned {res} but the path bytes changed"), line.clone());
            }
            continue;
        }
        nontrivial = true;
        // only the current info field, the current hop field and the pointers may change
        match op {
            Op::Egr => {
                st.egress_ok += 1;
                if ch1 as usize != ch0 as usize + 1 || ci1 != ci0 {
                    cx.spec(
                        "egress-strict",
                        format!("advance_egress Ok moved CurrHF {ch0} -> {ch1} (CurrINF {ci0} -> {ci1}), segments {:?}", segs_of(&before)),
                        line.clone(),
                    );
                }
            }
            _ => {
                let same = ch1 == ch0 && ci1 == ci0;
                let change = ch1 as usize == ch0 as usize + 1 && ci1 as usize == ci0 as usize + 1;
                if !(same || change) {
                    cx.spec(
                        "ingress-monotone",
                        format!("advance_ingress Ok moved CurrHF {ch0} -> {ch1}, CurrINF {ci0} -> {ci1}, segments {:?}", segs_of(&before)),
                        line.clone(),
                    );
                }
                if change {
                    cx.rep.hit("c11 segment change");
                }
            }
        }
        // the segment pointer follows the hop pointer (on gap-free segment tables)
        let s = segs_of(&b);
        if no_gap(s) {
            let seg = if (ch1 as usize) < s[0] as usize { 0 } else if (ch1 as usize) < s[0] as usize + s[1] as usize { 1 } else { 2 };
            if (ch1 as usize) < hc && seg != ci1 {
                cx.spec("info-follows-hop", format!("after Ok CurrINF={ci1} but CurrHF={ch1} lies in segment {seg}"), line.clone());
            }
        }
    }
    if st.egress_ok > hc {
        cx.spec("bounded-processing", format!("{} successful egress steps on a path with {hc} hop fields", st.egress_ok), line.clone());
    }
    cx.rep.case(&line, nontrivial);
    cx.rep.traces += 1;
    cx.rep.hit(&format!("c11 walk {kind}"));
    if nontrivial && start.len() < 90 {
        cx.rep.sample(json!({"walk": line, "final": hex(&b)}));
    }
    (b, outs, st)
}

/// all walks of Ok-steps up to `depth` from `b` (a step that fails leaves the state, so longer sequences
/// through it are covered by the shorter ones)
fn c11_explore(cx: &mut Ctx, b: &[u8], depth: usize, prefix: &mut Vec<(Op, Option<[u8; 16]>)>, budget: &mut usize) {
    if depth == 0 || *budget == 0 {
        return;
    }
    for op in [Op::IngExt, Op::IngInt, Op::Egr] {
        if *budget == 0 {
            return;
        }
        *budget -= 1;
        let (after, outs, _) = c11_walk(cx, b, &[(op, None)], "explore");
        if outs[0].0 {
            prefix.push((op, None));
            c11_explore(cx, &after, depth - 1, prefix, budget);
            prefix.pop();
        }
    }
}

/// an authentic path: per segment β-chained MACs computed with the real `calculate_mac`; one key per hop
struct Authentic {
    path: StandardPath,
    /// key of the AS owning hop field i (global index)
    keys: Vec<[u8; 16]>,
}
fn gen_authentic(rng: &mut Rng, shape: &[usize]) -> Authentic {
    let mut path = StandardPath::new_empty();
    // one key per AS; the AS at a segment change owns the last hop field of one segment and the first of
    // the next, so consecutive segments share the key at their boundary (travel order)
    let total: usize = shape.iter().sum();
    let mut keys: Vec<[u8; 16]> = vec![];
    {
        let mut seg_end = vec![];
        for &n in shape {
            for j in 0..n {
                seg_end.push(j == n - 1);
            }
        }
        for i in 0..total {
            if i > 0 && seg_end[i - 1] {
                let k = keys[i - 1];
                keys.push(k);
            } else {
                keys.push(rng.bytes(16).try_into().unwrap());
            }
        }
    }
    let mut off = 0;
    for &n in shape {
        let cons_dir = rng.chance(1, 2);
        let seg_id0 = rng.next() as u16;
        let ts = rng.next() as u32;
        // construction order; construction index j is travel index j (cons dir) or n-1-j (against it)
        let mut hops: Vec<HopField> = vec![];
        let mut beta = seg_id0;
        let mut betas = vec![];
        for j in 0..n {
            let t = if cons_dir { j } else { n - 1 - j };
            let k = keys[off + t];
            let mut h = HopField {
                flags: HopFieldFlags::from_bits_retain(rng.below(4) as u8),
                expiration_units: rng.below(256) as u8,
                cons_ingress: if j == 0 { 0 } else { rng.range(1, 65535) as u16 },
                cons_egress: if j == n - 1 { 0 } else { rng.range(1, 65535) as u16 },
                mac: HopFieldMac([0; 6]),
            };
            h.mac = h.calculate_mac(beta, ts, &k);
            betas.push(beta);
            beta = mac_beta_step(beta, h.mac.0);
            hops.push(h);
        }
        // travel order: construction direction as is (SegID = β_0); against it reversed with
        // SegID = β_{n-1} (every ingress from outside folds the current MAC back in before verifying)
        let (seg_id, flags) = if cons_dir {
            (seg_id0, InfoFieldFlags::CONS_DIR)
        } else {
            hops.reverse();
            (betas[n - 1], InfoFieldFlags::empty())
        };
        let mut seg = Segment { info_field: InfoField { flags, segment_id: seg_id, timestamp: ts }, hop_fields: Default::default() };
        for h in hops {
            seg.hop_fields.push(h);
        }
        path.segments.push(seg);
        off += n;
    }
    Authentic { path, keys }
}
/// the processing steps of a full traversal: source AS (ingress from inside, egress), every transit AS
/// (ingress from outside, egress unless the ingress step changed segment – then egress at the same AS on
/// the next hop field), destination (ingress from outside -> ForwardLocal)
fn traversal(shape: &[usize], keys: &[[u8; 16]]) -> Vec<(Op, Option<[u8; 16]>, usize)> {
    // hop index -> is segment end
    let mut ends = vec![];
    for &n in shape {
        for j in 0..n {
            ends.push(j == n - 1);
        }
    }
    let total = ends.len();
    let mut steps = vec![];
    let mut i = 0;
    let mut first = true;
    while i < total {
        let op = if first { Op::IngInt } else { Op::IngExt };
        first = false;
        steps.push((op, Some(keys[i]), i));
        if i + 1 == total {
            break;
        }
        if ends[i] {
            // segment change at this AS: the ingress step moved to hop i+1 (same AS, same key)
            i += 1;
        }
        steps.push((Op::Egr, Some(keys[i]), i));
        i += 1;
    }
    steps
}

fn c11_authentic(cx: &mut Ctx, rng: &mut Rng, shape: &[usize], corrupt: bool) {
    let a = gen_authentic(rng, shape);
    let mut p = a.path.clone();
    let start = match p.try_encode_to_vec() {
        Ok(v) => v,
        Err(_) => return,
    };
    let steps = traversal(shape, &a.keys);
    let plain: Vec<(Op, Option<[u8; 16]>)> = steps.iter().map(|(o, k, _)| (*o, *k)).collect();
    let line = format!("auth {} shape={shape:?}", hex(&start));
    // forward
    let (end, outs, _) = c11_walk(cx, &start, &plain, "authentic-forward");
    let all_ok = outs.iter().all(|(ok, v, _)| *ok && *v);
    let last_local = outs.last().map(|o| o.2).unwrap_or(false);
    if !all_ok || !last_local {
        cx.spec(
            "authentic-verifies",
            format!("an authentic path does not verify at every hop in travel direction (step results {outs:?})"),
            line.clone(),
        );
        return;
    }
    cx.rep.hit("c11 authentic path verified forward");
    // reverse after full traversal, walk back with the keys in reverse order
    let mut rev = end.clone();
    let ok = with_view(&mut rev, |v| v.try_reverse().is_ok()).unwrap_or(false);
    if ok {
        let rshape: Vec<usize> = shape.iter().rev().cloned().collect();
        let rkeys: Vec<[u8; 16]> = a.keys.iter().rev().cloned().collect();
        let rsteps: Vec<(Op, Option<[u8; 16]>)> = traversal(&rshape, &rkeys).iter().map(|(o, k, _)| (*o, *k)).collect();
        let (_, routs, _) = c11_walk(cx, &rev, &rsteps, "authentic-reverse");
        if !routs.iter().all(|(ok, v, _)| *ok && *v) || !routs.last().map(|o| o.2).unwrap_or(false) {
            cx.spec("authentic-verifies-rev", format!("the reversed authentic path does not verify at every hop ({routs:?})"), line.clone());
        } else {
            cx.rep.hit("c11 authentic path verified after reversal");
        }
    } else {
        cx.spec("authentic-verifies-rev", "try_reverse failed on a fully traversed authentic path".into(), line.clone());
    }
    p.current_hop_field = 0;
    if !corrupt {
        return;
    }
    // every single-bit corruption of an authenticated bit: SegID (β), timestamp, exp, cons_ingress,
    // cons_egress, MAC of every hop field
    let ni = shape.len();
    let mut flips: Vec<(usize, usize)> = vec![]; // (bit offset in path, owning hop index)
    let mut first_hop = 0;
    for (s, &n) in shape.iter().enumerate() {
        let base = (4 + 8 * s) * 8;
        for bit in 16..64 {
            // SegID and timestamp are authenticated by every hop field of the segment: the first AS
            // that verifies one of them owns the detection
            flips.push((base + bit, first_hop));
        }
        first_hop += n;
    }
    let total: usize = shape.iter().sum();
    for h in 0..total {
        let base = (4 + 8 * ni + 12 * h) * 8;
        for bit in 8..96 {
            flips.push((base + bit, h));
        }
    }
    let all_flips = flips.clone();
    let sample: Vec<(usize, usize)> = if flips.len() <= 400 {
        flips
    } else {
        let mut f = flips;
        rng.shuffle(&mut f);
        f.truncate(400);
        f
    };
    for (bit, owner) in sample {
        let mut c = start.clone();
        c[bit / 8] ^= 0x80 >> (bit % 8);
        // silent walk on the real code only (the model was compared on the clean walk; a sample of the
        // corrupted walks is compared too)
        let compare = rng.chance(1, 40);
        let mut detected_at: Option<usize> = None;
        if compare {
            let (_, o, _) = c11_walk(cx, &c, &plain, "authentic-corrupted");
            for (k, (ok, v, _)) in o.iter().enumerate() {
                if !*ok || !*v {
                    detected_at = Some(steps[k].2);
                    break;
                }
            }
        } else {
            let mut b = c.clone();
            for (k, (op, key, _)) in steps.iter().enumerate() {
                let (_, ok, v, _) = impl_step(&mut b, *op, *key);
                if !ok || !v {
                    detected_at = Some(steps[k].2);
                    break;
                }
            }
            cx.rep.case(&format!("corrupt {bit} {}", hex(&c[..c.len().min(40)])), true);
        }
        cx.rep.hit("c11 single-bit corruption of an authenticated bit");
        match detected_at {
            Some(at) if at <= owner || same_as(shape, at, owner) => cx.rep.hit("c11 corruption detected at or before the owning AS"),
            Some(at) => cx.spec(
                "tamper-late",
                format!("corrupted bit {bit} (owned by hop {owner}) was only detected at hop {at}"),
                format!("{line} bit={bit}"),
            ),
            None => cx.spec(
                "tamper-undetected",
                format!("corrupted bit {bit} (owned by hop {owner}) passed verification at every hop"),
                format!("{line} bit={bit}"),
            ),
        }
    }
    // double-bit corruptions (sampled pairs of authenticated bits): detected no later than at the AS owning
    // the earlier of the two fields (verification at a hop never depends on later hop fields)
    for _ in 0..120 {
        let (b1, o1) = *rng.pick(&all_flips);
        let (b2, o2) = *rng.pick(&all_flips);
        if b1 == b2 {
            continue;
        }
        let owner = o1.min(o2);
        let mut c = start.clone();
        c[b1 / 8] ^= 0x80 >> (b1 % 8);
        c[b2 / 8] ^= 0x80 >> (b2 % 8);
        let mut b = c.clone();
        let mut detected_at: Option<usize> = None;
        for (k, (op, key, _)) in steps.iter().enumerate() {
            let (_, ok, v, _) = impl_step(&mut b, *op, *key);
            if !ok || !v {
                detected_at = Some(steps[k].2);
                break;
            }
        }
        cx.rep.case(&format!("corrupt2 {b1} {b2} {}", hex(&c[..c.len().min(40)])), true);
        cx.rep.hit("c11 double-bit corruption of authenticated bits");
        match detected_at {
            Some(at) if at <= owner || same_as(shape, at, owner) => cx.rep.hit("c11 double corruption detected at or before the owning AS"),
            Some(at) => cx.spec(
                "tamper-late",
                format!("corrupted bits {b1},{b2} (earliest owner hop {owner}) were only detected at hop {at}"),
                format!("{line} bits={b1},{b2}"),
            ),
            None => cx.spec(
                "tamper-undetected",
                format!("corrupted bits {b1},{b2} passed verification at every hop"),
                format!("{line} bits={b1},{b2}"),
            ),
        }
    }
}
/// hop fields `a` and `b` are processed at the same AS (last hop of a segment and first of the next)
fn same_as(shape: &[usize], a: usize, b: usize) -> bool {
    let (lo, hi) = (a.min(b), a.max(b));
    if hi != lo + 1 {
        return false;
    }
    let mut acc = 0;
    for &n in shape {
        acc += n;
        if lo + 1 == acc {
            return true;
        }
    }
    false
}

// ------------------------------------------------------------------------------------------------
fn run_line(cx: &mut Ctx, l: &str) {
    let t: Vec<&str> = l.split_whitespace().collect();
    match (cx.prop.as_str(), t.as_slice()) {
        ("C12", ["std", h]) => {
            if let Some(b) = unhex(h) {
                c12_std(cx, &b, "corpus");
            }
        }
        ("C12", ["oh", h]) => {
            if let Some(b) = unhex(h) {
                c12_onehop(cx, &b);
            }
        }
        ("C12", ["dp", t, h]) => {
            if let (Ok(t), Some(b)) = (t.parse::<u8>(), unhex(h)) {
                c12_dp_other(cx, t, &b);
            }
        }
        ("C12", ["model", h]) => {
            if let Some(m) = unhex(h).and_then(|b| parse_mhex(&b)) {
                c12_model(cx, &m, true);
            }
        }
        ("C11", ["walk", h, steps]) => {
            let b = match unhex(h) {
                Some(b) => b,
                None => return,
            };
            if !impl_parse(&b).starts_with("ok") {
                return;
            }
            let mut st = vec![];
            for s in steps.split(',') {
                let mut it = s.splitn(2, ':');
                let op = it.next().and_then(|o| o.chars().next()).and_then(Op::from);
                let key = it.next().and_then(unhex).and_then(|k| <[u8; 16]>::try_from(k).ok());
                if let Some(op) = op {
                    st.push((op, key));
                }
            }
            c11_walk(cx, &b, &st, "corpus");
        }
        _ => cx.rep.notes.push(format!("corpus line not for this property: {}", &l[..l.len().min(40)])),
    }
}

fn main() {
    let args = Args::parse();
    if std::env::var("VERIF_LOUD").is_err() {
        quiet_panics();
    }
    let rule = if args.prop == "C12" {
        "case = one path byte string accepted by the view constructor (or one owned model) put through every \
         operation of view and model; non-trivial = reversal succeeded or the model is accepted by the encoder \
         (agreement checked); distinct by hash of the bytes"
    } else {
        "case = a walk (start bytes + sequence of ingress/egress steps, optionally with HopMacValidator keys) run on \
         the real code and the model, compared after every call; non-trivial = at least one step returned Ok; \
         distinct by hash of start bytes + steps"
    };
    let mut cx = Ctx { lean: Lean::spawn(&args.driver), rep: Report::new(&args.prop, rule), prop: args.prop.clone() };
    let mut rng = Rng::new(args.seed);
    if cx.prop != "C11" && cx.prop != "C12" {
        eprintln!("hx_path serves --prop C11 | C12");
        std::process::exit(64);
    }
    if let Some(p) = &args.replay {
        let txt = std::fs::read_to_string(p).expect("replay file");
        // a replay file is either a corpus-format file or the JSON written by bin/check (field case.line)
        let lines: Vec<String> = match serde_json::from_str::<serde_json::Value>(&txt) {
            Ok(v) => {
                let mut ls = vec![];
                if let Some(l) = v["case"]["line"].as_str() {
                    ls.push(l.to_string());
                }
                if let Some(cs) = v["cases"].as_array() {
                    for c in cs {
                        if let Some(l) = c["case"]["line"].as_str() {
                            ls.push(l.to_string());
                        }
                    }
                }
                ls
            }
            Err(_) => txt.lines().map(|s| s.to_string()).collect(),
        };
        for l in lines {
            let l = l.trim();
            if let Some(req) = l.strip_prefix("req ") {
                let m = cx.lean.ask(req);
                cx.rep.notes.push(format!("model answers: {m}"));
            } else if !l.is_empty() && !l.starts_with('#') {
                run_line(&mut cx, l);
            }
        }
        cx.rep.write(&args.out);
        std::process::exit(if cx.rep.ok() { 0 } else { 1 });
    }
    for l in read_corpus(&args.corpus) {
        cx.rep.hit("corpus lines");
        run_line(&mut cx, &l);
    }
    if cx.prop == "C12" {
        main_c12(&mut cx, &mut rng, &args);
    } else {
        main_c11(&mut cx, &mut rng, &args);
    }
    cx.rep.hit_n("driver requests", cx.lean.requests);
    cx.rep.write(&args.out);
    std::process::exit(if cx.rep.ok() { 0 } else { 1 });
}

fn main_c12(cx: &mut Ctx, rng: &mut Rng, args: &Args) {
    // exhaustive: segment tables 0..=3 ^ 3 x CurrINF 0..=3 x CurrHF 0..=63 (quick: every 3rd CurrHF >= 12)
    let thorough = args.thorough();
    let mut n = 0u64;
    for s0 in 0..=3u8 {
        for s1 in 0..=3u8 {
            for s2 in 0..=3u8 {
                for ci in 0..4u8 {
                    for ch in 0..64u8 {
                        if !thorough && ch >= 12 && ch % 8 != 7 {
                            continue;
                        }
                        let tame = rng.chance(1, 2);
 let b = gen_path(rng, ci, ch, [s0, s1, s2], tame);
                        c12_std(cx, &b, "exhaustive-small");
                        n += 1;
                    }
                }
            }
        }
    }
    cx.rep.exhaustive = thorough;
    cx.rep.hit_n("c12 exhaustive small shapes", n);
    // random large shapes, all pointer values, truncated / oversized buffers
    for _ in 0..args.scale(1500, 40000) {
        let s = match rng.below(5) {
            0 => [rng.range(1, 63) as u8, 0, 0],
            1 => [rng.range(1, 40) as u8, rng.range(1, 40) as u8, 0],
            2 => [rng.range(1, 25) as u8, rng.range(1, 25) as u8, rng.range(1, 25) as u8],
            3 => [rng.below(64) as u8, rng.below(64) as u8, rng.below(64) as u8],
            _ => [rng.range(1, 12) as u8, rng.range(0, 12) as u8, rng.range(0, 12) as u8],
        };
        let total = hop_count(s) as u64;
        let ch = if rng.chance(3, 4) && total > 0 { rng.below(total.min(64)) as u8 } else { rng.below(64) as u8 };
        let ci = if rng.chance(3, 4) { rng.below(info_count(s).max(1) as u64) as u8 } else { rng.below(4) as u8 };
        let tame = rng.chance(1, 2);
 let mut b = gen_path(rng, ci, ch, s, tame);
        match rng.below(12) {
            0 => {
                let k = rng.below(b.len() as u64 + 1) as usize;
                b.truncate(k);
            }
            1 => {
                let k = rng.range(1, 20) as usize;
                b.extend_from_slice(&rng.bytes(k));
            }
            _ => {}
        }
        c12_std(cx, &b, "random-large");
    }
    // owned models built directly (not reachable through from_view): pointers >= 64, > 64 hops, empty
    // segments, no segments
    for _ in 0..args.scale(600, 12000) {
        let nseg = rng.below(4) as usize;
        let mut m = StandardPath::new_empty();
        for _ in 0..nseg {
            let n = match rng.below(6) {
                0 => 0,
                1 => rng.range(60, 70) as usize,
                2 => rng.range(20, 35) as usize,
                _ => rng.range(1, 6) as usize,
            };
            let mut seg = Segment {
                info_field: InfoField {
                    flags: InfoFieldFlags::from_bits_retain(rng.below(256) as u8),
                    segment_id: rng.next() as u16,
                    timestamp: if rng.chance(1, 4) { u32::MAX - rng.below(100000) as u32 } else { rng.next() as u32 },
                },
                hop_fields: Default::default(),
            };
            for _ in 0..n {
                seg.hop_fields.push(hop_from(&rng.bytes(12)));
            }
            m.segments.push(seg);
        }
        let hc = m.hop_field_count() as u64;
        m.current_hop_field = if rng.chance(3, 4) && hc > 0 { rng.below(hc.min(256)) as u8 } else { rng.below(256) as u8 };
        m.current_info_field = if rng.chance(3, 4) && nseg > 0 { rng.below(nseg as u64) as u8 } else { rng.below(256) as u8 };
        c12_model(cx, &m, true);
    }
    main_c12_dp(cx, rng);
    // one-hop paths
    for i in 0..args.scale(400, 8000) {
        let mut b = rng.bytes(32);
        if i % 3 == 0 {
            b[22] = 0;
            b[23] = 0; // second hop not set
        }
        if i % 5 == 0 {
            b[4..8].copy_from_slice(&(u32::MAX - rng.below(90000) as u32).to_be_bytes());
        }
        if i % 4 == 1 {
            for x in &mut b[20..32] {
                *x = 0; // placeholder second hop as created by OneHopPath::new
            }
        }
        if i % 6 == 2 {
            // as built by OneHopPath::new + set_second_hop: CONS_DIR, first hop without ingress, second without egress
            b[0] = 1;
            b[10] = 0;
            b[11] = 0;
            b[24] = 0;
            b[25] = 0;
            if b[22] == 0 && b[23] == 0 {
                b[23] = 7;
            }
        }
        if i % 7 == 0 {
            b.truncate(rng.below(32) as usize);
        } else if i % 11 == 0 {
            b.extend_from_slice(&[0xee; 5]);
        }
        c12_onehop(cx, &b);
    }
}

fn main_c12_dp(cx: &mut Ctx, rng: &mut Rng) {
    c12_dp_other(cx, 0, &[]);
    for t in [3u8, 4, 5, 200, 255] {
        for n in [0usize, 4, 8, 40] {
            let b = rng.bytes(n);
            c12_dp_other(cx, t, &b);
        }
    }
}

fn main_c11(cx: &mut Ctx, rng: &mut Rng, args: &Args) {
    let thorough = args.thorough();
    // exhaustive start states over small segment tables x all pointer values; all Ok-walks up to depth 6
    let mut n = 0u64;
    for s0 in 0..=3u8 {
        for s1 in 0..=3u8 {
            for s2 in 0..=3u8 {
                for ci in 0..4u8 {
                    for ch in 0..64u8 {
                        if !thorough && ch >= 10 && ch % 16 != 15 {
                            continue;
                        }
                        let tame = rng.chance(1, 2);
 let b = gen_path(rng, ci, ch, [s0, s1, s2], tame);
                        let mut budget = if thorough { 400 } else { 60 };
                        c11_explore(cx, &b, 6, &mut vec![], &mut budget);
                        n += 1;
                    }
                }
            }
        }
    }
    cx.rep.exhaustive = thorough;
    cx.rep.hit_n("c11 exhaustive small start states", n);
    // random large shapes (also > 64 hop fields in total: the 6-bit CurrHF cannot address them all)
    for _ in 0..args.scale(1200, 30000) {
        let s = match rng.below(5) {
            0 => [rng.range(2, 63) as u8, 0, 0],
            1 => [rng.range(2, 40) as u8, rng.range(2, 40) as u8, 0],
            2 => [rng.range(2, 25) as u8, rng.range(2, 25) as u8, rng.range(2, 25) as u8],
            3 => [rng.below(64) as u8, rng.below(64) as u8, rng.below(64) as u8],
            _ => [rng.range(30, 63) as u8, rng.range(2, 63) as u8, rng.range(0, 63) as u8],
        };
        let total = hop_count(s) as u64;
        let ch = match rng.below(4) {
            0 => rng.below(64) as u8,
            1 => 63u64.min(total.saturating_sub(1)) as u8,
            _ => rng.below(total.clamp(1, 64)) as u8,
        };
        // CurrINF consistent with CurrHF most of the time
        let seg = if (ch as usize) < s[0] as usize { 0 } else if (ch as usize) < s[0] as usize + s[1] as usize { 1 } else { 2 };
        let ci = if rng.chance(5, 6) { seg } else { rng.below(4) as u8 };
        let tame = rng.chance(1, 2);
 let b = gen_path(rng, ci, ch, s, tame);
        let len = rng.range(1, 8) as usize;
        let steps: Vec<(Op, Option<[u8; 16]>)> = (0..len)
            .map(|_| {
                let op = *rng.pick(&[Op::IngExt, Op::IngInt, Op::Egr, Op::Egr]);
                let key = if rng.chance(1, 4) { Some(rng.bytes(16).try_into().unwrap()) } else { None };
                (op, key)
            })
            .collect();
        c11_walk(cx, &b, &steps, "random-large");
    }
    // authentic paths: real MAC chain, random per-AS keys, forward + reversed, single-bit corruptions
    let shapes: Vec<Vec<usize>> = {
        let mut v = vec![];
        for a in 2..=4 {
            v.push(vec![a]);
            for b in 2..=3 {
                v.push(vec![a, b]);
                for c in 2..=3 {
                    v.push(vec![a, b, c]);
                }
            }
        }
        v
    };
    let rounds = args.scale(1, 12);
    for _ in 0..rounds {
        for sh in &shapes {
            c11_authentic(cx, rng, sh, true);
        }
    }
    for _ in 0..args.scale(40, 600) {
        let nseg = rng.range(1, 3) as usize;
        let sh: Vec<usize> = (0..nseg).map(|_| rng.range(2, 64 / nseg as u64) as usize).collect();
        let corrupt = rng.chance(1, 4);
        c11_authentic(cx, rng, &sh, corrupt);
    }
}
