//! C13 / C01 — correspondence + spec oracle for the pocketscion data plane.
//!
//! Topologies are built with the real `ScionTopologyBuilder`; paths come from the real control plane
//! (`SegmentRegistry::from_topology(..).paths`, i.e. beaconing + `combine`); packets are walked with the real
//! `ScionNetworkSim::iter::<SpecRoutingLogic>`.  Every AS step is compared with the Lean model of pocketscion
//! (`route sim`), every walk with `walk sim` (correspondence) and with the independently written reference
//! router `walk ref` (spec oracle for C13).  For C01 every offered path and its reverse must be delivered
//! in the destination AS.
use std::{collections::BTreeMap, net::Ipv4Addr};

use pocketscion::network::scion::{
    routing::{AsRoutingAction, LocalAsRoutingAction, ScionNetworkTime, spec::SpecRoutingLogic},
    segment::registry::SegmentRegistry,
    simulator::ScionNetworkSim,
    topology::{ScionAs, ScionLink, ScionLinkType, ScionTopology, ScionTopologyBuilder},
};
use sciparse::{
    address::addr::{ScionAddr, ScionAddrV4},
    core::{convert::ToModel, model::Model},
    dataplane_path::{
        model::DpPath,
        onehop::model::OneHopPath,
        standard::{
            model::StandardPath,
            types::{HopFieldFlags, InfoFieldFlags},
        },
        view::{ScionDpPathView, ScionDpPathViewRef},
    },
    identifier::isd_asn::IsdAsn,
    packet::{model::ScionRawPacket, view::ScionRawPacketView},
    payload::{ProtocolNumber, scmp::model::ScmpErrorMessage},
};
use serde_json::json;
use verif_harness::*;

#[derive(Clone, Debug)]
struct AsSpec {
    ia: IsdAsn,
    core: bool,
    key: [u8; 16],
}
#[derive(Clone, Debug)]
struct LinkSpec {
    a: IsdAsn,
    a_if: u16,
    /// role of `a` on the link ("a is <role> of b")
    role: ScionLinkType,
    b: IsdAsn,
    b_if: u16,
    up: bool,
}
#[derive(Clone, Debug)]
struct TopoSpec {
    ases: Vec<AsSpec>,
    links: Vec<LinkSpec>,
}

fn ia(isd: u16, asn: u64) -> IsdAsn {
    format!("{isd}-{asn}").parse().unwrap()
}

fn build_topo(s: &TopoSpec) -> Result<ScionTopology, String> {
    build_topo_inner(s).map_err(|e| e.to_string())
}
fn build_topo_inner(s: &TopoSpec) -> Result<ScionTopology, Box<dyn std::error::Error>> {
    let mut b = ScionTopologyBuilder::new();
    for a in &s.ases {
        let x = if a.core { ScionAs::new_core(a.ia) } else { ScionAs::new(a.ia) };
        b.add_as(x.with_forwarding_key(a.key))?;
    }
    for l in &s.links {
        let mut link = ScionLink::new(l.a, l.a_if, l.role, l.b, l.b_if)?;
        link.set_is_up(l.up);
        b.add_link(link)?;
    }
    Ok(b.build()?)
}

fn role_str(r: ScionLinkType) -> &'static str {
    match r {
        ScionLinkType::Core => "core",
        ScionLinkType::Child => "child",
        ScionLinkType::Parent => "parent",
        ScionLinkType::Peer => "peer",
    }
}

fn send_topo(lean: &mut Lean, s: &TopoSpec) {
    lean.ask("topo-reset");
    for a in &s.ases {
        lean.ask(&format!("as {} {} 0 {}", a.ia.to_u64(), a.core as u8, hex(&a.key)));
    }
    for l in &s.links {
        lean.ask(&format!("link {} {} {} {} {} {}", l.a.to_u64(), l.a_if, role_str(l.role), l.b.to_u64(), l.b_if, l.up as u8));
        let rr = l.role.into_swapped_direction();
        lean.ask(&format!("link {} {} {} {} {} {}", l.b.to_u64(), l.b_if, role_str(rr), l.a.to_u64(), l.a_if, l.up as u8));
    }
}

/// random topology: 1-2 ISDs, 1-2 cores each, 2-4 non-core ASes in a DAG, 0-2 peering links
/// Topology with the interface numbering operators use in practice: every AS numbers its interfaces by
/// role (1 = uplink, 2 = downlink, 3/4 = further children, 10/11 = core neighbours), so different ASes of one
/// segment carry identical (ingress, egress) pairs. Deep parent/child chains below a chain of cores.
fn gen_chain_topo(rng: &mut Rng) -> TopoSpec {
    let mut ases = vec![];
    let mut links = vec![];
    let mut key = |rng: &mut Rng| {
        let mut k = [0u8; 16];
        k.copy_from_slice(&rng.bytes(16));
        k
    };
    let ncores = rng.range(1, 4);
    let mut cores = vec![];
    for c in 0..ncores {
        let a = ia(1, 1 + c * 10);
        ases.push(AsSpec { ia: a, core: true, key: key(rng) });
        cores.push(a);
    }
    for i in 1..cores.len() {
        // every core: 10 = towards the previous core, 11 = towards the next one
        links.push(LinkSpec { a: cores[i], a_if: 10, role: ScionLinkType::Core, b: cores[i - 1], b_if: 11, up: true });
    }
    // one or two chains of non-core ASes, each hanging below a core
    let nchains = rng.range(1, 2);
    let mut k = 0u64;
    for ch in 0..nchains {
        let top = cores[rng.below(cores.len() as u64) as usize];
        let depth = rng.range(3, 5);
        let mut parent = top;
        for d in 0..depth {
            let a = ia(1, 100 + k);
            k += 1;
            ases.push(AsSpec { ia: a, core: false, key: key(rng) });
            // child side: 1 = uplink; parent side: 2 = downlink (second chain below the same AS: 3)
            let pif = if d == 0 { 2 + ch as u16 } else { 2 };
            links.push(LinkSpec { a, a_if: 1, role: ScionLinkType::Child, b: parent, b_if: pif, up: true });
            parent = a;
        }
    }
    TopoSpec { ases, links }
}

fn gen_topo(rng: &mut Rng) -> TopoSpec {
    let mut ases = vec![];
    let mut links = vec![];
    let mut used_if: BTreeMap<u64, Vec<u16>> = BTreeMap::new();
    let mut fresh_if = |rng: &mut Rng, a: IsdAsn| -> u16 {
        loop {
            let v = if rng.chance(1, 2) { rng.range(1, 40) } else { rng.range(1, 65535) } as u16;
            let e = used_if.entry(a.to_u64()).or_default();
            if !e.contains(&v) {
                e.push(v);
                return v;
            }
        }
    };
    let n_isd = rng.range(1, 2) as u16;
    let mut cores: Vec<IsdAsn> = vec![];
    let mut noncore: Vec<Vec<IsdAsn>> = vec![];
    for isd in 1..=n_isd {
        let nc = rng.range(1, 2);
        let mut my_cores = vec![];
        for c in 0..nc {
            let a = ia(isd, 1 + c * 10);
            let mut key = [0u8; 16];
            key.copy_from_slice(&rng.bytes(16));
            ases.push(AsSpec { ia: a, core: true, key });
            my_cores.push(a);
        }
        let nn = rng.range(1, 4);
        let mut mine: Vec<IsdAsn> = vec![];
        for k in 0..nn {
            let a = ia(isd, 100 + k);
            let mut key = [0u8; 16];
            key.copy_from_slice(&rng.bytes(16));
            ases.push(AsSpec { ia: a, core: false, key });
            // 1-2 parents among cores of this ISD and earlier non-core ASes
            let mut cands: Vec<IsdAsn> = my_cores.clone();
            cands.extend(mine.iter().cloned());
            let np = rng.range(1, 2).min(cands.len() as u64);
            rng.shuffle(&mut cands);
            for p in cands.iter().take(np as usize) {
                let nl = if rng.chance(1, 6) { 2 } else { 1 };
                for _ in 0..nl {
                    let (ai, pi) = (fresh_if(rng, a), fresh_if(rng, *p));
                    links.push(LinkSpec { a, a_if: ai, role: ScionLinkType::Child, b: *p, b_if: pi, up: true });
                }
            }
            mine.push(a);
        }
        cores.extend(my_cores);
        noncore.push(mine);
    }
    // core mesh: chain + random extra
    for i in 1..cores.len() {
        let j = rng.below(i as u64) as usize;
        let (x, y) = (cores[i], cores[j]);
        let (xi, yi) = (fresh_if(rng, x), fresh_if(rng, y));
        links.push(LinkSpec { a: x, a_if: xi, role: ScionLinkType::Core, b: y, b_if: yi, up: true });
    }
    if cores.len() > 2 && rng.chance(1, 2) {
        let (x, y) = (cores[0], cores[cores.len() - 1]);
        let (xi, yi) = (fresh_if(rng, x), fresh_if(rng, y));
        links.push(LinkSpec { a: x, a_if: xi, role: ScionLinkType::Core, b: y, b_if: yi, up: true });
    }
    // peering links
    let all_nc: Vec<IsdAsn> = noncore.iter().flatten().cloned().collect();
    let npeer = rng.below(3);
    for _ in 0..npeer {
        if all_nc.len() < 2 {
            break;
        }
        let x = *rng.pick(&all_nc);
        let y = *rng.pick(&all_nc);
        if x == y {
            continue;
        }
        let (xi, yi) = (fresh_if(rng, x), fresh_if(rng, y));
        links.push(LinkSpec { a: x, a_if: xi, role: ScionLinkType::Peer, b: y, b_if: yi, up: true });
    }
    TopoSpec { ases, links }
}

/// pocketscion's own 11-AS test topology (crates/pocketscion/src/network/scion/util/test_helper.rs)
fn repo_test_topology() -> TopoSpec {
    let cores = ["1-1", "1-11", "1-21", "2-1"];
    let others = ["1-2", "1-3", "1-4", "1-12", "2-2", "2-3", "2-21"];
    let mut ases = vec![];
    for (i, c) in cores.iter().chain(others.iter()).enumerate() {
        let a: IsdAsn = c.parse().unwrap();
        ases.push(AsSpec { ia: a, core: cores.contains(c), key: [i as u8 + 1; 16] });
    }
    let l = |a: &str, ai: u16, role: ScionLinkType, b: &str, bi: u16| LinkSpec { a: a.parse().unwrap(), a_if: ai, role, b: b.parse().unwrap(), b_if: bi, up: true };
    use ScionLinkType::*;
    let links = vec![
        l("1-2", 2, Child, "1-1", 1), l("1-1", 5, Core, "1-11", 6), l("1-1", 32, Core, "1-21", 17),
        l("1-3", 4, Child, "1-2", 3), l("1-2", 11, Child, "1-12", 12), l("1-4", 18, Child, "1-2", 17),
        l("1-3", 10, Child, "1-12", 9), l("1-4", 16, Child, "1-3", 15), l("1-3", 53, Peer, "2-2", 22),
        l("1-4", 20, Child, "1-12", 19), l("1-12", 8, Child, "1-11", 7), l("1-11", 15, Core, "1-21", 22),
        l("1-11", 23, Core, "2-1", 1), l("1-21", 23, Core, "2-1", 24), l("2-2", 3, Child, "2-1", 2),
        l("2-3", 5, Child, "2-2", 4), l("2-21", 2, Child, "2-2", 52), l("2-3", 6, Child, "2-21", 7),
    ];
    TopoSpec { ases, links }
}

fn path_tokens(p: &StandardPath) -> String {
    let seg = |i: usize| p.segments.get(i).map(|s| s.hop_fields.len()).unwrap_or(0);
    let ninfo = p.segments.len();
    let nhop: usize = p.segments.iter().map(|s| s.hop_fields.len()).sum();
    let mut s = format!("{} {} {} {} {} {} {}", p.current_info_field, p.current_hop_field, seg(0), seg(1), seg(2), ninfo, nhop);
    for sg in &p.segments {
        let f = sg.info_field.flags;
        s += &format!(" {} {} {} {}", f.contains(InfoFieldFlags::CONS_DIR) as u8, f.contains(InfoFieldFlags::PEERING) as u8, sg.info_field.segment_id, sg.info_field.timestamp);
    }
    for sg in &p.segments {
        for h in &sg.hop_fields {
            let m = h.mac.0.iter().fold(0u64, |a, b| a * 256 + *b as u64);
            s += &format!(" {} {} {} {} {} {}", h.flags.contains(HopFieldFlags::CONS_INGRESS_ROUTER_ALERT) as u8, h.flags.contains(HopFieldFlags::CONS_EGRESS_ROUTER_ALERT) as u8, h.expiration_units, h.cons_ingress, h.cons_egress, m);
        }
    }
    s
}

fn hop_tokens(h: &sciparse::dataplane_path::standard::model::HopField) -> String {
    let m = h.mac.0.iter().fold(0u64, |a, b| a * 256 + *b as u64);
    format!(" {} {} {} {} {} {}", h.flags.contains(HopFieldFlags::CONS_INGRESS_ROUTER_ALERT) as u8, h.flags.contains(HopFieldFlags::CONS_EGRESS_ROUTER_ALERT) as u8, h.expiration_units, h.cons_ingress, h.cons_egress, m)
}

/// `std <path>` | `ohp <info> <hop0> <hop1>` | `empty` | `unsupported`
fn pkt_tokens(pkt: &ScionRawPacketView) -> String {
    match pkt.header().path() {
        ScionDpPathViewRef::Standard(v) => format!("std {}", path_tokens(&v.to_model())),
        ScionDpPathViewRef::OneHop(v) => {
            let m: OneHopPath = v.to_model();
            let f = m.info.flags;
            format!("ohp {} {} {} {}{}{}", f.contains(InfoFieldFlags::CONS_DIR) as u8, f.contains(InfoFieldFlags::PEERING) as u8, m.info.segment_id, m.info.timestamp, hop_tokens(&m.hops[0]), hop_tokens(&m.hops[1]))
        }
        ScionDpPathViewRef::Empty => "empty".into(),
        _ => "unsupported".into(),
    }
}

fn std_path_of(pkt: &ScionRawPacketView) -> Option<StandardPath> {
    match pkt.header().path() {
        ScionDpPathViewRef::Standard(v) => Some(v.to_model()),
        _ => None,
    }
}

fn err_class(e: &ScmpErrorMessage) -> String {
    use sciparse::payload::scmp::types::ScmpParameterProblemCode as C;
    match e {
        ScmpErrorMessage::ParameterProblem(p) => match p.code {
            C::UnknownHopFieldConsIngressInterface => "pp_cons_ingress".into(),
            C::UnknownHopFieldConsEgressInterface => "pp_cons_egress".into(),
            C::InvalidPath => "invalid_path".into(),
            C::PathExpired => "path_expired".into(),
            C::InvalidHopFieldMac => "invalid_mac".into(),
            C::InvalidSegmentChange => "invalid_seg_change".into(),
            C::ErroneousHeaderField => "erroneous_header".into(),
            C::NonLocalDelivery => "non_local_delivery".into(),
            other => format!("pp_other:{other:?}"),
        },
        ScmpErrorMessage::ExternalInterfaceDown(d) => format!("if_down:{}", d.interface_id),
        other => format!("scmp_other:{:?}", std::mem::discriminant(other)),
    }
}

fn action_str(a: &AsRoutingAction) -> String {
    match a {
        AsRoutingAction::ForwardNextHop { egress_interface_id } => format!("next {egress_interface_id}"),
        AsRoutingAction::Drop => "drop".into(),
        AsRoutingAction::Local(l) => match l {
            LocalAsRoutingAction::ForwardLocal => "local".into(),
            LocalAsRoutingAction::IngressSCMPHandleRequest { interface_id } => format!("iscmp {interface_id}"),
            LocalAsRoutingAction::EgressSCMPHandleRequest { interface_id } => format!("escmp {interface_id}"),
            LocalAsRoutingAction::SendSCMPErrorResponse(e) => format!("err {}", err_class(e)),
            LocalAsRoutingAction::ForwardExternal { .. } => "external".into(),
        },
    }
}

fn verdict_of(at: u64, a: &AsRoutingAction) -> String {
    match a {
        AsRoutingAction::Drop => format!("dropped {at}"),
        AsRoutingAction::ForwardNextHop { .. } => format!("simerror {at}"),
        AsRoutingAction::Local(l) => match l {
            LocalAsRoutingAction::ForwardLocal => format!("delivered {at}"),
            LocalAsRoutingAction::IngressSCMPHandleRequest { interface_id } => format!("scmpreq {at} {interface_id} 0"),
            LocalAsRoutingAction::EgressSCMPHandleRequest { interface_id } => format!("scmpreq {at} {interface_id} 1"),
            LocalAsRoutingAction::SendSCMPErrorResponse(e) => format!("scmp {at} {}", err_class(e)),
            LocalAsRoutingAction::ForwardExternal { .. } => format!("external {at}"),
        },
    }
}

struct Case {
    kind: String,
    start: IsdAsn,
    ingress_if: u16,
    src: IsdAsn,
    dst: IsdAsn,
    path: StandardPath,
    /// non-standard path kind (one-hop / empty) overriding `path`
    dp: Option<DpPath>,
    now: u32,
    ignore_macs: bool,
    /// for C01: must be delivered at dst
    honest: bool,
    features: Vec<&'static str>,
}

fn mk_packet(c: &Case) -> Option<Box<ScionRawPacketView>> {
    let src = ScionAddr::V4(ScionAddrV4::new(c.src, Ipv4Addr::new(10, 0, 0, 1)));
    let dst = ScionAddr::V4(ScionAddrV4::new(c.dst, Ipv4Addr::new(10, 0, 0, 2)));
    let pkt = ScionRawPacket::new(src, dst, c.dp.clone().unwrap_or_else(|| DpPath::Standard(c.path.clone())), ProtocolNumber::Other(253), vec![1, 2, 3]);
    match pkt.try_encode_to_owned_view() {
        Ok(v) => Some(v),
        // paths of 65..79 hop fields fit the header but are refused by the encoder (CurrHF has 6 bits): such wire
        // packets can still arrive, so they are written without the validity check and parsed back
        Err(_) if c.features.contains(&"longpath") => {
            use sciparse::core::encode::WireEncode;
            let n = pkt.required_size();
            if n > 1020 + 3 {
                return None;
            }
            let mut buf = vec![0u8; n];
            let w = unsafe { pkt.encode_unchecked(&mut buf) };
            buf.truncate(w);
            use sciparse::core::view::View;
            ScionRawPacketView::try_from_boxed(buf.into_boxed_slice()).ok()
        }
        Err(_) => None,
    }
}

struct WalkObs {
    verdict: String,
    steps: usize,
    /// per step: (as, ingress if, path tokens before, action string, path tokens after)
    trace: Vec<(u64, u16, String, String, String)>,
    final_path: Option<StandardPath>,
}

fn real_walk(topo: &ScionTopology, c: &Case) -> Result<WalkObs, String> {
    let mut pkt = mk_packet(c).ok_or("encode failed")?;
    let mut trace = vec![];
    let r = catch(|| -> Result<(String, usize), String> {
        // step by step so that the path state before each AS is observable: the iterator borrows the
        // packet, so re-create it per step from the current position
        let mut cur_as = c.start;
        let mut cur_if = c.ingress_if;
        let mut steps = 0usize;
        loop {
            let before = pkt_tokens(&pkt);
            let out = {
                let mut it = ScionNetworkSim::iter::<SpecRoutingLogic>(topo, &mut pkt, ScionNetworkTime::from_timestamp_secs(c.now), cur_as, cur_if, c.ignore_macs)
                    .map_err(|e| format!("iter: {e}"))?;
                let o = it.next();
                let nxt = (it.get_processing_as(), it.get_processing_interface_id());
                (o, nxt)
            };
            let (o, (nas, nif)) = out;
            let after = pkt_tokens(&pkt);
            match o {
                None => return Ok((format!("simerror {}", cur_as.to_u64()), steps)),
                Some(Err(_)) => {
                    trace.push((cur_as.to_u64(), cur_if, before, "anyhow".into(), after));
                    return Ok((format!("simerror {}", cur_as.to_u64()), steps + 1));
                }
                Some(Ok(step)) => {
                    steps += 1;
                    trace.push((cur_as.to_u64(), cur_if, before, action_str(&step.action), after));
                    if step.finished {
                        return Ok((verdict_of(step.at_as.to_u64(), &step.action), steps));
                    }
                    cur_as = nas;
                    cur_if = nif;
                    if steps > 300 {
                        return Ok(("unbounded".into(), steps));
                    }
                }
            }
        }
    });
    match r {
        Err(m) => Ok(WalkObs { verdict: format!("panic {m}"), steps: trace.len(), trace, final_path: None }),
        Ok(Err(e)) => Err(e),
        Ok(Ok((verdict, steps))) => Ok(WalkObs { verdict, steps, trace, final_path: std_path_of(&pkt) }),
    }
}

fn mutate(rng: &mut Rng, p: &mut StandardPath, feats: &mut Vec<&'static str>) {
    let nseg = p.segments.len();
    if nseg == 0 {
        return;
    }
    let si = rng.below(nseg as u64) as usize;
    let nh = p.segments[si].hop_fields.len();
    let hi = if nh > 0 { rng.below(nh as u64) as usize } else { 0 };
    match rng.below(14) {
        0 => { p.segments[si].info_field.segment_id ^= 1 << rng.below(16); feats.push("segid"); }
        1 => { p.segments[si].info_field.timestamp = p.segments[si].info_field.timestamp.wrapping_add(rng.range(1, 3) as u32); feats.push("ts"); }
        2 if nh > 0 => { p.segments[si].hop_fields[hi].expiration_units ^= 1 << rng.below(8); feats.push("exp"); }
        3 if nh > 0 => { p.segments[si].hop_fields[hi].cons_ingress ^= 1 << rng.below(16); feats.push("cons_ingress"); }
        4 if nh > 0 => { p.segments[si].hop_fields[hi].cons_egress ^= 1 << rng.below(16); feats.push("cons_egress"); }
        5 if nh > 0 => { let b = rng.below(48); p.segments[si].hop_fields[hi].mac.0[(b / 8) as usize] ^= 1 << (b % 8); feats.push("mac"); }
        6 if nh > 0 => { p.segments[si].hop_fields[hi].flags.toggle(if rng.chance(1, 2) { HopFieldFlags::CONS_INGRESS_ROUTER_ALERT } else { HopFieldFlags::CONS_EGRESS_ROUTER_ALERT }); feats.push("alert"); }
        7 => { p.segments[si].info_field.flags.toggle(InfoFieldFlags::CONS_DIR); feats.push("consdir"); }
        8 => { p.segments[si].info_field.flags.toggle(InfoFieldFlags::PEERING); feats.push("peerflag"); }
        9 => { p.current_hop_field = rng.below(8) as u8; feats.push("curr_hf"); }
        10 => { p.current_info_field = rng.below(4) as u8; feats.push("curr_inf"); }
        11 if nh > 1 => { p.segments[si].hop_fields.remove(hi); feats.push("drop_hop"); }
        12 if nh > 1 => { let h = p.segments[si].hop_fields[hi]; p.segments[si].hop_fields.insert(hi, h); feats.push("dup_hop"); }
        13 if nh > 1 => { let a = rng.below(nh as u64) as usize; p.segments[si].hop_fields.swap(hi, a); feats.push("swap_hops"); }
        _ => { p.segments[si].info_field.segment_id = rng.next() as u16; feats.push("segid"); }
    }
}

fn has_noncore_crossover(topo: &TopoSpec, path: &sciparse::path::ScionPath) -> bool {
    // a crossover (segment change) AS that is not core = shortcut / on-path cut
    let Some(md) = path.metadata() else { return false };
    let Some(ifs) = md.interfaces.as_ref() else { return false };
    let ScionDpPathView::Standard(v) = path.dp_path() else { return false };
    let m = v.to_model();
    // AS sequence from metadata interfaces: pairs (egress of i, ingress of i+1)
    let mut as_seq: Vec<IsdAsn> = vec![];
    for (k, i) in ifs.iter().enumerate() {
        if k % 2 == 0 {
            as_seq.push(i.interface.isd_asn);
        }
    }
    if let Some(l) = ifs.last() {
        as_seq.push(l.interface.isd_asn);
    }
    // hop index of each segment boundary -> AS index: hops of seg0 = len0 ASes; boundary AS is shared
    let mut idx = 0usize;
    for (si, s) in m.segments.iter().enumerate() {
        idx += s.hop_fields.len();
        if si + 1 < m.segments.len() {
            let as_index = idx - 1 - si; // boundary ASes are counted once
            if let Some(a) = as_seq.get(as_index) {
                if let Some(spec) = topo.ases.iter().find(|x| x.ia == *a) {
                    if !spec.core {
                        return true;
                    }
                }
            }
        }
    }
    false
}

/// valley-free joinability straight from the topology: ancestors via child->parent links, core mesh, peering
fn joinable(t: &TopoSpec, src: IsdAsn, dst: IsdAsn) -> bool {
    let parents = |x: IsdAsn| -> Vec<IsdAsn> {
        t.links.iter().filter(|l| l.up).filter_map(|l| match l.role {
            ScionLinkType::Child if l.a == x => Some(l.b),
            ScionLinkType::Parent if l.b == x => Some(l.a),
            _ => None,
        }).collect()
    };
    let anc = |x: IsdAsn| -> Vec<IsdAsn> {
        let mut seen = vec![x];
        let mut i = 0;
        while i < seen.len() {
            for p in parents(seen[i]) {
                if !seen.contains(&p) {
                    seen.push(p);
                }
            }
            i += 1;
        }
        seen
    };
    let is_core = |x: IsdAsn| t.ases.iter().any(|a| a.ia == x && a.core);
    let (u, d) = (anc(src), anc(dst));
    if u.iter().any(|x| d.contains(x)) {
        return true;
    }
    // core mesh reachability
    let mut reach: Vec<IsdAsn> = u.iter().cloned().filter(|x| is_core(*x)).collect();
    let mut i = 0;
    while i < reach.len() {
        for l in t.links.iter().filter(|l| l.up && l.role == ScionLinkType::Core) {
            let n = if l.a == reach[i] { Some(l.b) } else if l.b == reach[i] { Some(l.a) } else { None };
            if let Some(n) = n {
                if !reach.contains(&n) {
                    reach.push(n);
                }
            }
        }
        i += 1;
    }
    if reach.iter().any(|c| d.contains(c)) {
        return true;
    }
    // one peering link between the two up-/down-trees (non-core ends)
    t.links.iter().filter(|l| l.up && l.role == ScionLinkType::Peer).any(|l| (u.contains(&l.a) && d.contains(&l.b)) || (u.contains(&l.b) && d.contains(&l.a)))
}

fn main() {
    let args = Args::parse();
    quiet_panics();
    let mut lean = Lean::spawn(&args.driver);
    let mut rng = Rng::new(args.seed);
    let prop = if args.prop.is_empty() { "C13".to_string() } else { args.prop.clone() };
    let mut rep = Report::new(
        &prop,
        "case = (topology, start AS + ingress interface, standard-path packet, clock, link states). Topologies: pocketscion's \
         11-AS test topology + random ones (1-2 ISDs, core mesh, parent/child DAG with parallel links, peering links, random \
         interface ids and keys). Honest packets carry paths from the real control plane (beaconing + combine) and their \
         reverses; adversarial packets are single-field corruptions, pointer changes, hop insert/delete/swap, spliced \
         segments of different paths, clock at the expiry boundaries, links down, foreign ingress points. Non-trivial = the \
         walk made at least 2 AS steps or ended in an error other than a malformed-path drop; distinct by hash of the case",
    );
    let n_topos = args.scale(14, 400);
    let now0: u32 = 1_700_000_000;
    let mut topos = vec![repo_test_topology()];
    for _ in 0..n_topos {
        topos.push(gen_topo(&mut rng));
    }
    for _ in 0..args.scale(3, 40) {
        topos.push(gen_chain_topo(&mut rng));
    }
    let mac_probe_done = std::cell::Cell::new(false);
    for (ti, spec) in topos.iter().enumerate() {
        let topo = match build_topo(spec) {
            Ok(t) => t,
            Err(e) => {
                rep.hit("topology rejected by builder");
                rep.notes.push(format!("topology {ti} rejected: {e}"));
                continue;
            }
        };
        rep.hit("topologies");
        send_topo(&mut lean, spec);
        let registry = SegmentRegistry::from_topology(&topo);
        let ts = chrono::DateTime::<chrono::Utc>::from_timestamp(now0 as i64, 0).unwrap();
        // honest paths
        let mut honest: Vec<Case> = vec![];
        // interface list of the path metadata per offered path (key: path tokens), for the C01 metadata oracle
        let mut meta_ifs: std::collections::HashMap<String, Vec<(u64, u16)>> = std::collections::HashMap::new();
        for a in &spec.ases {
            for b in &spec.ases {
                if a.ia == b.ia {
                    continue;
                }
                let paths = match catch(|| registry.paths(a.ia, b.ia, ts, &topo)) {
                    Ok(Ok(p)) => p,
                    Ok(Err(e)) => {
                        rep.hit("path lookup returned an error");
                        if joinable(spec, a.ia, b.ia) {
                            rep.spec_fail("C01:joinable-not-offered", &format!("{} -> {} can be joined (valley-free search over the topology) but the lookup fails: {e}", a.ia, b.ia), json!({"topology": format!("{spec:?}")}));
                        }
                        continue;
                    }
                    Err(m) => {
                        rep.spec_fail("C01:path-lookup-panic", &format!("paths({},{}) panicked: {m}", a.ia, b.ia), json!({"topo": format!("{spec:?}")}));
                        continue;
                    }
                };
                rep.hit_n("offered paths", paths.len() as u64);
                if paths.is_empty() && joinable(spec, a.ia, b.ia) {
                    rep.spec_fail("C01:joinable-not-offered", &format!("{} -> {} can be joined (valley-free search over the topology) but no path is offered", a.ia, b.ia), json!({"topology": format!("{spec:?}")}));
                }
                rep.hit(if paths.is_empty() { "pair without path" } else { "pair with paths" });
                let take = if ti == 0 { paths.len() } else { paths.len().min(6) };
                for p in paths.into_iter().take(take) {
                    let ScionDpPathView::Standard(v) = p.dp_path() else { continue };
                    let m = v.to_model();
                    if let Some(ifs) = p.metadata().and_then(|md| md.interfaces.as_ref()) {
                        meta_ifs.insert(path_tokens(&m), ifs.iter().map(|i| (i.interface.isd_asn.to_u64(), i.interface.id)).collect());
                    }
                    let mut feats = vec![];
                    if m.segments.iter().any(|s| s.info_field.flags.contains(InfoFieldFlags::PEERING)) {
                        feats.push("peering");
                    }
                    if has_noncore_crossover(spec, &p) {
                        feats.push("noncore-crossover");
                    }
                    feats.push(match m.segments.len() { 1 => "1seg", 2 => "2seg", _ => "3seg" });
                    honest.push(Case { kind: "honest".into(), start: a.ia, ingress_if: 0, src: a.ia, dst: b.ia, path: m, dp: None, now: now0 + 10, ignore_macs: false, honest: true, features: feats.clone() });
                }
                // the same lookup with every segment beaconed under its own timestamp, initial SegID and hop expiry
                // (`paths` beacons all segments with SegID 0, one timestamp and expiry 255)
                let mut prng = Rng::new(rng.next());
                let rb = catch(|| registry.verif_paths_with(a.ia, b.ia, &topo, |_, _| {
                    let t = now0 - prng.below(300) as u32;
                    (chrono::DateTime::<chrono::Utc>::from_timestamp(t as i64, 0).unwrap(), prng.next() as u16, prng.below(256) as u8)
                }));
                if let Ok(Ok(paths)) = rb {
                    let take = if ti == 0 { 2 } else { 3 };
                    let n = paths.len();
                    let first = if n > take { rng.below((n - take + 1) as u64) as usize } else { 0 };
                    for p in paths.into_iter().skip(first).take(take) {
                        let ScionDpPathView::Standard(v) = p.dp_path() else { continue };
                        let m = v.to_model();
                        if let Some(ifs) = p.metadata().and_then(|md| md.interfaces.as_ref()) {
                            meta_ifs.insert(path_tokens(&m), ifs.iter().map(|i| (i.interface.isd_asn.to_u64(), i.interface.id)).collect());
                        }
                        let mut feats = vec!["random-beacon"];
                        if m.segments.iter().any(|s| s.info_field.flags.contains(InfoFieldFlags::PEERING)) {
                            feats.push("peering");
                        }
                        if has_noncore_crossover(spec, &p) {
                            feats.push("noncore-crossover");
                        }
                        feats.push(match m.segments.len() { 1 => "1seg", 2 => "2seg", _ => "3seg" });
                        honest.push(Case { kind: "honest".into(), start: a.ia, ingress_if: 0, src: a.ia, dst: b.ia, path: m, dp: None, now: now0 + 10, ignore_macs: false, honest: true, features: feats });
                    }
                }
            }
        }
        // adversarial cases derived from honest ones
        let mut cases: Vec<Case> = vec![];
        let n_adv = if prop == "C01" { 0 } else { honest.len().min(args.scale(60, 400)) * 3 };
        for _ in 0..n_adv {
            if honest.is_empty() {
                break;
            }
            let h = &honest[rng.below(honest.len() as u64) as usize];
            let mut path = h.path.clone();
            let mut feats: Vec<&'static str> = vec![];
            let mut now = h.now;
            let mut start = h.start;
            let mut ingress_if = 0u16;
            let mut ignore = false;
            let mut dst = h.dst;
            match rng.below(8) {
                0 | 1 | 2 => {
                    let k = rng.range(1, 2);
                    for _ in 0..k {
                        mutate(&mut rng, &mut path, &mut feats);
                    }
                }
                3 => {
                    // splice: replace one segment by a segment of another honest path
                    let o = &honest[rng.below(honest.len() as u64) as usize];
                    if !o.path.segments.is_empty() && !path.segments.is_empty() {
                        let si = rng.below(path.segments.len() as u64) as usize;
                        let oi = rng.below(o.path.segments.len() as u64) as usize;
                        path.segments[si] = o.path.segments[oi].clone();
                        feats.push("splice-replace");
                    }
                }
                4 => {
                    // splice: append a segment of another path
                    let o = &honest[rng.below(honest.len() as u64) as usize];
                    if path.segments.len() < 3 && !o.path.segments.is_empty() {
                        let oi = rng.below(o.path.segments.len() as u64) as usize;
                        path.segments.push(o.path.segments[oi].clone());
                        feats.push("splice-append");
                    }
                }
                5 => {
                    // clock at the boundaries
                    let s = &path.segments[rng.below(path.segments.len() as u64) as usize];
                    let ts = s.info_field.timestamp;
                    let exp = s.hop_fields.iter().map(|h| ts as u64 + (h.expiration_units as u64 + 1) * 675 / 2).min().unwrap_or(ts as u64) as u32;
                    now = *rng.pick(&[ts.wrapping_sub(1), ts, exp.wrapping_sub(1), exp, exp.wrapping_add(1)]);
                    feats.push("clock");
                }
                6 => {
                    // inject at another AS / interface
                    let a = rng.pick(&spec.ases).ia;
                    start = a;
                    let ifs: Vec<u16> = spec.links.iter().filter_map(|l| if l.a == a { Some(l.a_if) } else if l.b == a { Some(l.b_if) } else { None }).collect();
                    ingress_if = if ifs.is_empty() || rng.chance(1, 4) { 0 } else { *rng.pick(&ifs) };
                    path.current_hop_field = rng.below(path.segments.iter().map(|s| s.hop_fields.len()).sum::<usize>() as u64 + 1) as u8;
                    // keep curr_inf consistent most of the time
                    let mut acc = 0usize;
                    for (si, s) in path.segments.iter().enumerate() {
                        if (path.current_hop_field as usize) < acc + s.hop_fields.len() {
                            path.current_info_field = si as u8;
                            break;
                        }
                        acc += s.hop_fields.len();
                    }
                    feats.push("inject");
                }
                _ => {
                    ignore = true;
                    mutate(&mut rng, &mut path, &mut feats);
                    feats.push("ignore-macs");
                    if rng.chance(1, 3) {
                        dst = rng.pick(&spec.ases).ia;
                        feats.push("other-dst");
                    }
                }
            }
            cases.push(Case { kind: "adversarial".into(), start, ingress_if, src: h.src, dst, path, dp: None, now, ignore_macs: ignore, honest: false, features: feats });
        }
        let mut all_extra: Vec<Case> = vec![];
        // wire packets with 65..79 hop fields (the encoder refuses them, a sender need not): every hop field is a copy
        // of the source AS's own first hop field, MAC checking off, pointer at / next to the last index the 6-bit
        // CurrHF field can hold
        if prop != "C01" {
            for _ in 0..args.scale(4, 30) {
                if honest.is_empty() {
                    break;
                }
                let h = &honest[rng.below(honest.len() as u64) as usize];
                if h.path.segments.is_empty() || h.path.segments[0].hop_fields.is_empty() {
                    continue;
                }
                let seg0 = h.path.segments[0].clone();
                let hop = seg0.hop_fields[0];
                let lens: [usize; 3] = *rng.pick(&[[33, 33, 4], [32, 32, 10], [40, 30, 2], [63, 2, 2], [2, 62, 3], [30, 30, 4], [32, 31, 2]]);
                let mut path = h.path.clone();
                path.segments.clear();
                for l in lens {
                    let mut sg = seg0.clone();
                    sg.hop_fields = std::iter::repeat(hop).take(l).collect();
                    path.segments.push(sg);
                }
                let total: usize = lens.iter().sum();
                let chf = *rng.pick(&[61usize, 62, 63, 63, 63]);
                path.current_hop_field = chf.min(total - 1) as u8;
                path.current_info_field = if chf < lens[0] { 0 } else if chf < lens[0] + lens[1] { 1 } else { 2 };
                all_extra.push(Case { kind: "longpath".into(), start: h.src, ingress_if: 0, src: h.src, dst: h.dst, path, dp: None, now: h.now, ignore_macs: true, honest: false, features: vec!["longpath"] });
            }
        }

        // one-hop and empty paths (C13 only)
        if prop != "C01" {
            let empty_std = StandardPath::new_empty();
            for l in spec.links.iter().take(args.scale(6, 40)) {
                let ka = spec.ases.iter().find(|a| a.ia == l.a).unwrap().key;
                let ts0 = now0;
                for variant in 0..8 {
                    let mut feats: Vec<&'static str> = vec!["onehop"];
                    let mut key = ka;
                    let mut egress = l.a_if;
                    let (mut start, mut ing, mut dst) = (l.a, 0u16, l.b);
                    let mut now = now0 + 10;
                    let mut post: Box<dyn Fn(&mut OneHopPath)> = Box::new(|_| {});
                    match variant {
                        0 => {}
                        1 => { key[0] ^= 1; feats.push("ohp-bad-mac"); }
                        2 => { egress = egress.wrapping_add(1000); feats.push("ohp-unknown-egress"); }
                        3 => { post = Box::new(|o| o.info.flags.remove(InfoFieldFlags::CONS_DIR)); feats.push("ohp-non-consdir"); }
                        4 => { dst = l.a; feats.push("ohp-dst-is-source"); }
                        5 => { start = l.b; ing = l.b_if; feats.push("ohp-injected-at-neighbour"); }
                        6 => { now = now0 + 400_000; feats.push("ohp-expired"); }
                        _ => { post = Box::new(|o| { o.hops[1].cons_ingress = 77; o.hops[1].mac = sciparse::dataplane_path::standard::types::HopFieldMac([1, 2, 3, 4, 5, 6]); }); feats.push("ohp-prefilled-second-hop"); }
                    }
                    let mut o = OneHopPath::new(egress, rng.next() as u16, ts0, key, 63);
                    post(&mut o);
                    all_extra.push(Case { kind: "onehop".into(), start, ingress_if: ing, src: l.a, dst, path: empty_std.clone(), dp: Some(DpPath::OneHop(o)), now, ignore_macs: false, honest: false, features: feats });
                }
            }
            for a in spec.ases.iter().take(3) {
                let other = spec.ases.iter().find(|b| b.ia != a.ia).map(|b| b.ia).unwrap_or(a.ia);
                all_extra.push(Case { kind: "empty".into(), start: a.ia, ingress_if: 0, src: a.ia, dst: a.ia, path: empty_std.clone(), dp: Some(DpPath::Empty), now: now0, ignore_macs: false, honest: false, features: vec!["empty-path"] });
                all_extra.push(Case { kind: "empty".into(), start: a.ia, ingress_if: 0, src: a.ia, dst: other, path: empty_std.clone(), dp: Some(DpPath::Empty), now: now0, ignore_macs: false, honest: false, features: vec!["empty-path", "other-dst"] });
            }
        }
        // link-down variants are run on a copy of the topology
        let mut all: Vec<(Case, Option<usize>)> = honest.into_iter().map(|c| (c, None)).collect();
        all.extend(cases.into_iter().map(|c| (c, None)));
        all.extend(all_extra.into_iter().map(|c| (c, None)));
        if prop != "C01" && !spec.links.is_empty() {
            // `down` = 4 * link index + mode; mode 0: the topology is built with the link down, mode 1 / 2: the link is
            // taken down on the built topology through the runtime API (`mut_scion_link`) named by its first / second end
            let n = all.len().min(args.scale(20, 200));
            for k in 0..n {
                let li = rng.below(spec.links.len() as u64) as usize;
                let (c, _) = &all[k];
                if c.honest {
                    let mut c2 = Case { kind: "link-down".into(), honest: false, features: c.features.clone(), path: c.path.clone(), dp: c.dp.clone(), ..*c };
                    c2.features.push("link-down");
                    all.push((c2, Some(4 * li + rng.below(3) as usize)));
                }
            }
            // every link, named by either end, through the runtime API, on two offered paths each
            let n_honest = all.iter().filter(|(c, _)| c.honest).count();
            if n_honest > 0 {
                for li in 0..spec.links.len().min(args.scale(12, 60)) {
                    for mode in [1usize, 2] {
                        let k = rng.below(n_honest as u64) as usize;
                        let (c, _) = all.iter().filter(|(c, _)| c.honest).nth(k).unwrap();
                        let mut c2 = Case { kind: "link-down".into(), honest: false, features: c.features.clone(), path: c.path.clone(), dp: c.dp.clone(), ..*c };
                        c2.features.push("link-down");
                        c2.features.push("link-down-api");
                        all.push((c2, Some(4 * li + mode)));
                    }
                }
            }
        }
        let mut queue: std::collections::VecDeque<(Case, Option<usize>)> = all.into_iter().collect();
        while let Some((c, down)) = queue.pop_front() {
            let (c, down) = (&c, &down);
            let topo_used;
            let mut spec_used = spec.clone();
            let topo_ref: &ScionTopology = if let Some(d) = down {
                let (li, mode) = (*d / 4, *d % 4);
                spec_used.links[li].up = false;
                if mode == 0 {
                    topo_used = match build_topo(&spec_used) { Ok(t) => t, Err(_) => continue };
                } else {
                    let mut t = match build_topo(spec) { Ok(t) => t, Err(_) => continue };
                    let l = &spec.links[li];
                    let (ia, ifid) = if mode == 1 { (l.a, l.a_if) } else { (l.b, l.b_if) };
                    match t.mut_scion_link(&ia, ifid) {
                        Some(link) => link.set_is_up(false),
                        None => rep.spec_fail("C13:link-state-api:no-such-link", &format!("mut_scion_link({ia}, {ifid}) finds no link although the topology has one"), json!({"topology": format!("{spec:?}")})),
                    }
                    topo_used = t;
                }
                send_topo(&mut lean, &spec_used);
                &topo_used
            } else {
                &topo
            };
            let obs = match real_walk(topo_ref, c) {
                Ok(o) => o,
                Err(e) => {
                    rep.hit(&format!("not encodable / not startable: {}", e.split(':').next().unwrap_or("")));
                    if down.is_some() {
                        send_topo(&mut lean, spec);
                    }
                    continue;
                }
            };
            let toks = match mk_packet(c) { Some(p) => pkt_tokens(&p), None => path_tokens(&c.path) };
            let canon = format!("{ti}|{}|{}|{}|{}|{}|{toks}|{:?}", c.start.to_u64(), c.ingress_if, c.dst.to_u64(), c.now, c.ignore_macs, down);
            let vclass = obs.verdict.split(' ').next().unwrap_or("").to_string();
            let nontrivial = obs.steps >= 2 || (vclass != "dropped" && vclass != "delivered");
            rep.case(&canon, nontrivial);
            rep.traces += 1;
            rep.hit(&format!("case {}", c.kind));
            for f in &c.features {
                rep.hit(&format!("feature {f}"));
            }
            let vkey = obs.verdict.split(' ').enumerate().filter(|(i, _)| *i != 1).map(|(_, s)| s).collect::<Vec<_>>().join(" ");
            rep.hit(&format!("verdict {}", if vkey.starts_with("scmp ") || vkey.starts_with("delivered") || vkey.starts_with("dropped") { vkey.clone() } else { vclass.clone() }));
            rep.hit_n("AS steps", obs.steps as u64);
            if obs.verdict.starts_with("panic") {
                rep.spec_fail("C13:panic", &obs.verdict, json!({"case": toks, "start": c.start.to_string()}));
            }
            if obs.verdict == "unbounded" {
                rep.spec_fail("C13:unbounded", "walk did not finish within 300 AS steps", json!({"case": toks}));
            }
            let hops: usize = if c.dp.is_some() { 2 } else { c.path.segments.iter().map(|s| s.hop_fields.len()).sum() };
            if obs.steps > hops + 1 {
                rep.spec_fail("C13:too-many-steps", &format!("{} AS steps for {} hop fields", obs.steps, hops), json!({"case": toks}));
            }
            // spec oracle 0 (C13), on the implementation's own trace, independent of the Lean driver: every forwarding
            // step leaves over an existing link that is up and enters the neighbour that link leads to, over that
            // neighbour's interface; delivery happens only in the destination AS
            {
                let link_of = |at: u64, ifid: u16| spec_used.links.iter().find_map(|l| {
                    if l.a.to_u64() == at && l.a_if == ifid { Some((l.up, l.b.to_u64(), l.b_if)) }
                    else if l.b.to_u64() == at && l.b_if == ifid { Some((l.up, l.a.to_u64(), l.a_if)) }
                    else { None }
                });
                for (k, (at, _iif, _b, act, _a)) in obs.trace.iter().enumerate() {
                    if let Some(eg) = act.strip_prefix("next ").and_then(|x| x.parse::<u16>().ok()) {
                        match link_of(*at, eg) {
                            None => rep.spec_fail("C13:forwarded-over-missing-link", &format!("AS {at} forwarded over interface {eg}, which has no link"), json!({"case": toks, "step": k})),
                            Some((false, _, _)) => rep.spec_fail("C13:forwarded-over-down-link", &format!("AS {at} forwarded over interface {eg}, whose link is down"), json!({"case": toks, "step": k})),
                            Some((true, pa, pi)) => {
                                if let Some((nat, nif, ..)) = obs.trace.get(k + 1) {
                                    if (*nat, *nif) != (pa, pi) {
                                        rep.spec_fail("C13:forwarded-to-wrong-neighbour", &format!("link {at}#{eg} leads to {pa}#{pi} but the packet was processed next at {nat}#{nif}"), json!({"case": toks, "step": k}));
                                    }
                                }
                            }
                        }
                    }
                }
                if let Some(x) = obs.verdict.strip_prefix("delivered ") {
                    if x != c.dst.to_u64().to_string() {
                        rep.spec_fail("C13:delivered-outside-destination", &format!("delivered in AS {x}, destination is {}", c.dst.to_u64()), json!({"case": toks}));
                    }
                }
            }
            // per-step correspondence with the model of pocketscion
            let case_json = json!({"kind": c.kind, "topology": ti, "start": c.start.to_string(), "ingress_if": c.ingress_if, "src": c.src.to_string(), "dst": c.dst.to_string(), "now": c.now, "ignore_macs": c.ignore_macs, "features": c.features, "link_down": down, "path": toks});
            for (k, (at, iif, before, act, after)) in obs.trace.iter().enumerate() {
                if act == "anyhow" || before.is_empty() {
                    continue;
                }
                let m = lean.ask(&format!("routep sim {at} {} {iif} {} {} {before}", c.dst.to_u64(), c.now, c.ignore_macs as u8));
                let i = format!("{act} ; {after}");
                if lean.differs(&m, &i) {
                    rep.disagree("route-step", json!({"case": case_json, "step": k, "as": at, "ingress_if": iif}), &i, &m);
                    break;
                }
            }
            let hdr = format!("{} {} {} {} {}", c.start.to_u64(), c.ingress_if, c.dst.to_u64(), c.now, c.ignore_macs as u8);
            let msim = lean.ask(&format!("walkp sim {hdr} {toks}"));
            let impl_walk = format!("{} steps {}", obs.verdict, obs.steps);
            if lean.differs(&msim, &impl_walk) && !obs.verdict.starts_with("panic") {
                rep.disagree("walk", case_json.clone(), &impl_walk, &msim);
            }
            // spec oracle 1 (C13): verdict of the reference router
            if lean.enabled {
                let mref = lean.ask(&format!("walkp ref {hdr} {toks}"));
                let ref_verdict = mref.split(" steps ").next().unwrap_or("").to_string();
                if ref_verdict != obs.verdict && prop != "C01" {
                    let vk = |v: &str| v.split(' ').enumerate().filter(|(i, _)| *i != 1).map(|(_, s)| s).collect::<Vec<_>>().join(" ");
                    // the open findings are specific: (a) one-hop packets are routed with checks missing, i.e. the
                    // simulator lets a packet through that the reference refuses; (b) the P flag is ignored, i.e. the
                    // simulator behaves exactly as the reference does on the same packet with the P flags cleared.
                    // Every other divergence on such packets is reported under its own class.
                    let sim_lets_through = obs.verdict.starts_with("delivered") || obs.verdict.starts_with("simerror");
                    let ref_refuses = ref_verdict.starts_with("scmp") || ref_verdict.starts_with("dropped");
                    let has_p = c.dp.is_none() && c.path.segments.iter().any(|s| s.info_field.flags.contains(InfoFieldFlags::PEERING));
                    let explained_by_ignored_p = has_p && {
                        let mut q = c.path.clone();
                        for sg in q.segments.iter_mut() {
                            sg.info_field.flags.remove(InfoFieldFlags::PEERING);
                        }
                        let r2 = lean.ask(&format!("walkp ref {hdr} std {}", path_tokens(&q)));
                        r2.split(" steps ").next().unwrap_or("") == obs.verdict
                    };
                    rep.hit(&format!("ref-mismatch sim[{}] ref[{}]{}", vk(&obs.verdict), vk(&ref_verdict), if matches!(c.dp, Some(DpPath::OneHop(_))) { " onehop" } else if has_p { " pflag" } else { "" }));
                    let class = if matches!(c.dp, Some(DpPath::OneHop(_))) {
                        // "checks missing" = the simulator carries the packet further than the reference does (or
                        // ends in an internal error where the reference answers with SCMP)
                        let ref_steps: usize = mref.split(" steps ").nth(1).and_then(|x| x.trim().parse().ok()).unwrap_or(usize::MAX);
                        if (sim_lets_through && ref_refuses) || obs.steps > ref_steps || obs.verdict.starts_with("simerror") { "onehop-unchecked" } else { "onehop-other" }
                    } else if has_p {
                        if explained_by_ignored_p { "peering" } else { "pflag-other" }
                    } else if ref_verdict.contains("pp_cons_") && !obs.verdict.contains("pp_cons_") {
                        "segment-origin-hop-accepted-from-link"
                    } else if obs.verdict.contains("pp_cons_") && !ref_verdict.contains("pp_cons_") {
                        "crossover-second-hop-ingress-check"
                    } else {
                        "other"
                    };
                    rep.spec_fail(&format!("C13:ref-mismatch:{class}"), &format!("simulator: {} / reference router: {}", obs.verdict, ref_verdict), case_json.clone());
                }
            }
            // spec oracle 2 (C01): offered paths and their reverses are delivered at the destination
            if c.honest {
                let want = format!("delivered {}", c.dst.to_u64());
                if obs.verdict != want {
                    let class = if c.features.contains(&"peering") { "peering" } else if c.features.contains(&"noncore-crossover") { "shortcut" } else { "other" };
                    if prop == "C01" {
                        rep.spec_fail(&format!("C01:not-forwardable:{class}"), &format!("offered path {} -> {} ends with {}", c.src, c.dst, obs.verdict), case_json.clone());
                    } else {
                        rep.hit(&format!("honest path refused ({class})"));
                    }
                } else {
                    rep.hit("honest path delivered");
                    // the walk used exactly the interfaces the path metadata lists, in order
                    if !c.features.contains(&"reversed") {
                        if let Some(want_ifs) = meta_ifs.get(&path_tokens(&c.path)) {
                            let mut got: Vec<(u64, u16)> = vec![];
                            for (at, iif, _b, act, _a) in obs.trace.iter() {
                                if *iif != 0 {
                                    got.push((*at, *iif));
                                }
                                if let Some(eg) = act.strip_prefix("next ").and_then(|x| x.parse::<u16>().ok()) {
                                    got.push((*at, eg));
                                }
                            }
                            rep.hit("walk compared with metadata interfaces");
                            if &got != want_ifs {
                                rep.spec_fail("C01:metadata-interfaces", &format!("path metadata lists interfaces {want_ifs:?}, the packet travelled over {got:?}"), case_json.clone());
                            }
                        }
                    }
                    // the reply: reverse the path as it arrived and send it back from the destination
                    if !c.features.contains(&"reversed") {
                        if let Some(mut fp) = obs.final_path.clone() {
                            let delivered_toks = path_tokens(&fp);
                            match fp.try_reverse() {
                                Ok(()) => {
                                    // tie of the model's `reversePath` (used by the reply theorems) to `try_reverse`
                                    let m = lean.ask(&format!("reverse {delivered_toks}"));
                                    let i = path_tokens(&fp);
                                    if lean.differs(&m, &i) {
                                        rep.disagree("reverse", json!({"delivered": delivered_toks}), &i, &m);
                                    }
                                    rep.hit("reversal compared with the model");
                                    let mut f2 = c.features.clone();
                                    f2.push("reversed");
                                    queue.push_back((Case { kind: "honest-reverse".into(), start: c.dst, ingress_if: 0, src: c.dst, dst: c.src, path: fp, dp: None, now: c.now, ignore_macs: false, honest: true, features: f2 }, None));
                                }
                                Err(_) => rep.spec_fail("C01:reverse-failed", "try_reverse failed on a delivered offered path", case_json.clone()),
                            }
                        }
                    }
                }
            }
            if rep.samples.len() < 5 && nontrivial && (c.kind != "honest" || rep.samples.is_empty()) {
                rep.sample(json!({"case": case_json, "verdict": obs.verdict, "steps": obs.steps}));
            }
            if down.is_some() {
                send_topo(&mut lean, spec);
            }
        }
        // MAC function probe (AES-CMAC in Lean vs the cmac/aes crates), once
        if !mac_probe_done.get() {
            mac_probe_done.set(true);
            for _ in 0..50 {
                let key = rng.bytes(16);
                let (b, t, e, ci, ce) = (rng.next() as u16, rng.next() as u32, rng.next() as u8, rng.next() as u16, rng.next() as u16);
                let mut k = [0u8; 16];
                k.copy_from_slice(&key);
                let m = sciparse::dataplane_path::standard::mac::algo::calculate_hop_mac(b, t, e, ci, ce, &k);
                let mi = m.iter().fold(0u64, |a, x| a * 256 + *x as u64).to_string();
                let ml = lean.ask(&format!("mac {} {b} {t} {e} {ci} {ce}", hex(&key)));
                if lean.differs(&ml, &mi) {
                    rep.disagree("hop-mac", json!({"key": hex(&key), "beta": b, "ts": t, "exp": e, "ci": ci, "ce": ce}), &mi, &ml);
                }
            }
        }
    }
    rep.write(&args.out);
    std::process::exit(if rep.ok() { 0 } else { 1 });
}
