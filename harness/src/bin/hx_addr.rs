//! C15 — correspondence + spec oracle for the address / identifier text forms.
//!
//! A case is `(kind, string)` or `(kind, value)`.  Kinds: isd asn ia svc host ip ip4 ip6 addr addrsvc addrv4
//! addrv6 ipaddr sock socksvc sockv4 sockv6 ipsock txt (the `FromStr` / `Display` impls of sciparse's identifier
//! and address types, std's IP text codec, and scion-stack's private `parse_txt_payload` through its hook).
//!
//! String case: the real `from_str` runs under `catch`; outcome `ok <canonical value>` | `err` | `panic` is
//! diffed against the Lean model (`drv_addr`, `p <kind> <hex>`).  Spec oracle, independent of the model:
//!  * no panic;
//!  * an accepted string must be a *spelling* of the returned value according to a strict reference
//!    recogniser written against the documented grammar (`spell`): displayed form up to the documented
//!    alternatives (decimal AS < 2^32 / colon-hex, `_A`, `<SVC:0x..>`, TXT white space, std's IP text) and the
//!    variants of Rust's integer grammar (`+`, leading zeros, upper-case hex) – nothing before, between or
//!    after may be dropped;
//!  * the re-displayed value is again a spelling of the same value and parses back to it.
//! Value case: `Display` is diffed against the model's `show` (`s <kind> …`), `parse(display v) == v`, the
//! per-variant types agree, and the serde string form is the displayed form and deserialises to the value.
//! Record case (`txtrec`): a list of DNS TXT resource records, each a list of character-strings (bytes).  The
//! production record level of `ScionTxtDnsResolver::resolve` (`txt_record_to_string` on every record, then
//! `resolve_txt_records_with_invalid`) runs through the hook `verif_resolve_txt_rrs` and is diffed against the
//! model (`r <rr> …`), including the raw texts of the invalid entries of `NoValidEntries`.  Spec oracle
//! (`C15:txtrec:*`), independent of the model: no panic; the returned addresses are exactly, in order, the
//! addresses of the records whose concatenated character-strings are valid UTF-8 and read `scion=` `v1` `;`
//! followed by a spelling of a TXT payload (reference recogniser) – nothing else contributes an address, no
//! such record is lost, and `NoValidEntries` is returned iff there is no such record.
//! The ip4/ip6 kinds validate the executable `HostCodec` instance of the driver against std and check the
//! hypotheses the theorems put on the codec (round trip, alphabet, `:` in every IPv6 text) on std itself.
use std::{
    net::{IpAddr, Ipv4Addr, Ipv6Addr},
    str::FromStr,
};

use sciparse::{
    address::{
        addr::{ScionAddr, ScionAddrSvc, ScionAddrV4, ScionAddrV6},
        host_addr::{ScionHostAddr, ServiceAddr},
        ip_addr::ScionIpAddr,
        ip_socket_addr::ScionSocketIpAddr,
        socket_addr::{ScionSocketAddr, ScionSocketAddrSvc, ScionSocketAddrV4, ScionSocketAddrV6},
    },
    identifier::{asn::Asn, isd::Isd, isd_asn::IsdAsn},
};
use scion_stack::resolver::{
    ResolveError,
    txt::{verif_parse_txt_payload, verif_resolve_txt_rrs},
};
use serde_json::json;
use verif_harness::*;

const KINDS: [&str; 19] = [
    "isd", "asn", "ia", "svc", "host", "ip", "ip4", "ip6", "addr", "addrsvc", "addrv4", "addrv6", "ipaddr", "sock",
    "socksvc", "sockv4", "sockv6", "ipsock", "txt",
];

// ------------------------------------------------------------------------------------------------
// canonical values
// ------------------------------------------------------------------------------------------------
#[derive(Clone, Copy, PartialEq, Eq, Debug)]
enum H {
    V4(u32),
    V6(u128),
    Svc(u16),
}
impl H {
    fn canon(&self) -> String {
        match self {
            H::V4(a) => format!("4:{a}"),
            H::V6(a) => format!("6:{a}"),
            H::Svc(a) => format!("s:{a}"),
        }
    }
    fn real(&self) -> ScionHostAddr {
        match self {
            H::V4(a) => ScionHostAddr::V4(Ipv4Addr::from(*a)),
            H::V6(a) => ScionHostAddr::V6(Ipv6Addr::from(*a)),
            H::Svc(a) => ScionHostAddr::Svc(ServiceAddr(*a)),
        }
    }
    fn of(h: &ScionHostAddr) -> H {
        match h {
            ScionHostAddr::V4(a) => H::V4(u32::from(*a)),
            ScionHostAddr::V6(a) => H::V6(u128::from(*a)),
            ScionHostAddr::Svc(s) => H::Svc(s.0),
        }
    }
}
fn addr_canon(a: &ScionAddr) -> String {
    format!("{} {}", a.isd_asn().to_u64(), H::of(&a.host()).canon())
}
fn sock_canon(a: &ScionSocketAddr) -> String {
    format!("{} {} {}", a.isd_asn().to_u64(), H::of(&a.host()).canon(), a.port())
}

/// the real `from_str` of `kind`, canonicalised
fn impl_parse(kind: &str, s: &str) -> String {
    fn m<T, E>(r: Result<T, E>, f: impl Fn(&T) -> String) -> Option<String> {
        r.ok().map(|v| f(&v))
    }
    let r = catch(|| match kind {
        "isd" => m(Isd::from_str(s), |v| v.0.to_string()),
        "asn" => m(Asn::from_str(s), |v| v.0.to_string()),
        "ia" => m(IsdAsn::from_str(s), |v| v.0.to_string()),
        "svc" => m(ServiceAddr::from_str(s), |v| v.0.to_string()),
        "host" => m(ScionHostAddr::from_str(s), |v| H::of(v).canon()),
        "ip" => m(IpAddr::from_str(s), |v| H::of(&ScionHostAddr::from_ip(*v)).canon()),
        "ip4" => m(Ipv4Addr::from_str(s), |v| u32::from(*v).to_string()),
        "ip6" => m(Ipv6Addr::from_str(s), |v| u128::from(*v).to_string()),
        "addr" => m(ScionAddr::from_str(s), addr_canon),
        "addrsvc" => m(ScionAddrSvc::from_str(s), |v| addr_canon(&(*v).into())),
        "addrv4" => m(ScionAddrV4::from_str(s), |v| addr_canon(&(*v).into())),
        "addrv6" => m(ScionAddrV6::from_str(s), |v| addr_canon(&(*v).into())),
        "ipaddr" => m(ScionIpAddr::from_str(s), |v| addr_canon(&(*v).into())),
        "sock" => m(ScionSocketAddr::from_str(s), sock_canon),
        "socksvc" => m(ScionSocketAddrSvc::from_str(s), |v| sock_canon(&(*v).into())),
        "sockv4" => m(ScionSocketAddrV4::from_str(s), |v| sock_canon(&(*v).into())),
        "sockv6" => m(ScionSocketAddrV6::from_str(s), |v| sock_canon(&(*v).into())),
        "ipsock" => m(ScionSocketIpAddr::from_str(s), |v| sock_canon(&(*v).into())),
        "txt" => m(verif_parse_txt_payload(s), |l| {
            l.iter().map(|a| addr_canon(&(*a).into())).collect::<Vec<_>>().join(";")
        }),
        _ => unreachable!("kind"),
    });
    match r {
        Err(_) => "panic".into(),
        Ok(Some(c)) => format!("ok {c}"),
        Ok(None) => "err".into(),
    }
}

/// serde string form → value (only the types that have one)
fn impl_deser(kind: &str, s: &str) -> Option<String> {
    fn d<T: serde::de::DeserializeOwned>(s: &str, f: impl Fn(&T) -> String) -> String {
        match catch(|| serde_json::from_value::<T>(serde_json::Value::String(s.to_string()))) {
            Err(_) => "panic".into(),
            Ok(Ok(v)) => format!("ok {}", f(&v)),
            Ok(Err(_)) => "err".into(),
        }
    }
    Some(match kind {
        "isd" => d::<Isd>(s, |v| v.0.to_string()),
        "asn" => d::<Asn>(s, |v| v.0.to_string()),
        "ia" => d::<IsdAsn>(s, |v| v.0.to_string()),
        "host" => d::<ScionHostAddr>(s, |v| H::of(v).canon()),
        "addr" => d::<ScionAddr>(s, addr_canon),
        "addrsvc" => d::<ScionAddrSvc>(s, |v| addr_canon(&(*v).into())),
        "addrv4" => d::<ScionAddrV4>(s, |v| addr_canon(&(*v).into())),
        "addrv6" => d::<ScionAddrV6>(s, |v| addr_canon(&(*v).into())),
        "ipaddr" => d::<ScionIpAddr>(s, |v| addr_canon(&(*v).into())),
        "sock" => d::<ScionSocketAddr>(s, sock_canon),
        "socksvc" => d::<ScionSocketAddrSvc>(s, |v| sock_canon(&(*v).into())),
        "sockv4" => d::<ScionSocketAddrV4>(s, |v| sock_canon(&(*v).into())),
        "sockv6" => d::<ScionSocketAddrV6>(s, |v| sock_canon(&(*v).into())),
        "ipsock" => d::<ScionSocketIpAddr>(s, |v| sock_canon(&(*v).into())),
        _ => return None,
    })
}

// ------------------------------------------------------------------------------------------------
// reference recogniser ("spelling"): strict, written against the documented grammar, independent of the
// implementation's splitting strategy.  Returns the canonical value the string spells, if any.
// ------------------------------------------------------------------------------------------------
fn spell_num(s: &str, radix: u32, max: u128) -> Option<u128> {
    let d = s.strip_prefix('+').unwrap_or(s);
    if d.is_empty() {
        return None;
    }
    let mut v: u128 = 0;
    for c in d.chars() {
        if !c.is_ascii() {
            return None;
        }
        let x = c.to_digit(radix)? as u128;
        v = v.saturating_mul(radix as u128).saturating_add(x);
    }
    if v <= max { Some(v) } else { None }
}
fn spell_asn(s: &str) -> Option<u64> {
    let parts: Vec<&str> = s.split(':').collect();
    match parts.len() {
        1 => spell_num(s, 10, u32::MAX as u128).map(|v| v as u64),
        3 => {
            let mut v = 0u64;
            for p in parts {
                v = (v << 16) | spell_num(p, 16, 0xffff)? as u64;
            }
            Some(v)
        }
        _ => None,
    }
}
fn spell_ia(s: &str) -> Option<u64> {
    if s.matches('-').count() != 1 {
        return None;
    }
    let (i, a) = s.split_once('-')?;
    let isd = spell_num(i, 10, 0xffff)? as u64;
    Some((isd << 48) | spell_asn(a)?)
}
fn spell_svc(s: &str) -> Option<u16> {
    let (name, multicast) = if let Some(n) = s.strip_suffix("_M") {
        (n, true)
    } else if let Some(n) = s.strip_suffix("_A") {
        (n, false)
    } else {
        (s, false)
    };
    let v: u16 = match name {
        "DS" => 1,
        "CS" => 2,
        "Wildcard" => 16,
        _ => {
            let hex = name.strip_prefix("<SVC:0x")?.strip_suffix('>')?;
            let v = spell_num(hex, 16, 0x7fff)? as u16;
            v
        }
    };
    Some(if multicast { v | 0x8000 } else { v })
}
fn spell_ip(s: &str) -> Option<H> {
    if let Ok(a) = Ipv4Addr::from_str(s) {
        return Some(H::V4(a.into()));
    }
    Ipv6Addr::from_str(s).ok().map(|a| H::V6(a.into()))
}
fn spell_host(s: &str) -> Option<H> {
    spell_ip(s).or_else(|| spell_svc(s).map(H::Svc))
}
fn spell_addr(s: &str, host: &dyn Fn(&str) -> Option<H>) -> Option<(u64, H)> {
    let i = s.find(',')?;
    Some((spell_ia(&s[..i])?, host(&s[i + 1..])?))
}
fn spell_sock(s: &str, host: &dyn Fn(&str) -> Option<H>) -> Option<(u64, H, u16)> {
    let i = s.rfind(':')?;
    let port = spell_num(&s[i + 1..], 10, 0xffff)? as u16;
    let inner = s[..i].strip_prefix('[')?.strip_suffix(']')?;
    let (ia, h) = spell_addr(inner, host)?;
    Some((ia, h, port))
}
fn spell_txt(s: &str) -> Option<Vec<(u64, H)>> {
    // address-list = address *( "," address ), address = "[" isd-as "," host "]"; white space may surround
    // every token (pinned by the repository's own test); nothing else
    let mut out = vec![];
    let mut rest = s.trim();
    loop {
        rest = rest.strip_prefix('[')?;
        let close = rest.find(']')?;
        let entry = &rest[..close];
        let comma = entry.find(',')?;
        let ia = spell_ia(entry[..comma].trim())?;
        let h = spell_ip(entry[comma + 1..].trim())?;
        out.push((ia, h));
        rest = rest[close + 1..].trim_start();
        if rest.is_empty() {
            return Some(out);
        }
        rest = rest.strip_prefix(',')?.trim_start();
        if rest.is_empty() {
            return None; // a separator must be followed by an address
        }
    }
}
fn only_v4(s: &str) -> Option<H> {
    Ipv4Addr::from_str(s).ok().map(|a| H::V4(a.into()))
}
fn only_v6(s: &str) -> Option<H> {
    Ipv6Addr::from_str(s).ok().map(|a| H::V6(a.into()))
}
fn only_svc(s: &str) -> Option<H> {
    spell_svc(s).map(H::Svc)
}
/// canonical value spelled by `s` for `kind` (same format as `impl_parse` without the `ok `)
fn spell(kind: &str, s: &str) -> Option<String> {
    let a = |x: Option<(u64, H)>| x.map(|(ia, h)| format!("{ia} {}", h.canon()));
    let k = |x: Option<(u64, H, u16)>| x.map(|(ia, h, p)| format!("{ia} {} {p}", h.canon()));
    match kind {
        "isd" => spell_num(s, 10, 0xffff).map(|v| v.to_string()),
        "asn" => spell_asn(s).map(|v| v.to_string()),
        "ia" => spell_ia(s).map(|v| v.to_string()),
        "svc" => spell_svc(s).map(|v| v.to_string()),
        "host" => spell_host(s).map(|h| h.canon()),
        "ip" => spell_ip(s).map(|h| h.canon()),
        "ip4" => Ipv4Addr::from_str(s).ok().map(|v| u32::from(v).to_string()),
        "ip6" => Ipv6Addr::from_str(s).ok().map(|v| u128::from(v).to_string()),
        "addr" => a(spell_addr(s, &spell_host)),
        "addrsvc" => a(spell_addr(s, &only_svc)),
        "addrv4" => a(spell_addr(s, &only_v4)),
        "addrv6" => a(spell_addr(s, &only_v6)),
        "ipaddr" => a(spell_addr(s, &spell_ip)),
        "sock" => k(spell_sock(s, &spell_host)),
        "socksvc" => k(spell_sock(s, &only_svc)),
        "sockv4" => k(spell_sock(s, &only_v4)),
        "sockv6" => k(spell_sock(s, &only_v6)),
        "ipsock" => k(spell_sock(s, &spell_ip)),
        "txt" => spell_txt(s).map(|l| l.iter().map(|(ia, h)| format!("{ia} {}", h.canon())).collect::<Vec<_>>().join(";")),
        _ => None,
    }
}

// ------------------------------------------------------------------------------------------------
// values: display through the real types
// ------------------------------------------------------------------------------------------------
#[derive(Clone, Debug, PartialEq)]
enum Val {
    Isd(u16),
    Asn(u64),
    Ia(u64),
    Svc(u16),
    Ip4(u32),
    Ip6(u128),
    Host(H),
    Addr(u64, H),
    Sock(u64, H, u16),
    Txt(Vec<(u64, H)>),
}
impl Val {
    /// (kind, canonical value, driver `s` request, displayed form by the real code) – one entry per type that
    /// can hold the value
    fn views(&self) -> Vec<(&'static str, String, String, String)> {
        let mut out = vec![];
        match self {
            Val::Isd(v) => out.push(("isd", v.to_string(), format!("s isd {v}"), Isd(*v).to_string())),
            Val::Asn(v) => out.push(("asn", v.to_string(), format!("s asn {v}"), Asn(*v).to_string())),
            Val::Ia(v) => out.push(("ia", v.to_string(), format!("s ia {v}"), IsdAsn(*v).to_string())),
            Val::Svc(v) => out.push(("svc", v.to_string(), format!("s svc {v}"), ServiceAddr(*v).to_string())),
            Val::Ip4(v) => {
                out.push(("ip4", v.to_string(), format!("s ip4 {v}"), Ipv4Addr::from(*v).to_string()));
                out.push(("ip", H::V4(*v).canon(), format!("s ip4 {v}"), IpAddr::V4(Ipv4Addr::from(*v)).to_string()));
            }
            Val::Ip6(v) => {
                out.push(("ip6", v.to_string(), format!("s ip6 {v}"), Ipv6Addr::from(*v).to_string()));
                out.push(("ip", H::V6(*v).canon(), format!("s ip6 {v}"), IpAddr::V6(Ipv6Addr::from(*v)).to_string()));
            }
            Val::Host(h) => out.push(("host", h.canon(), format!("s host {}", h.canon()), h.real().to_string())),
            Val::Addr(ia, h) => {
                let c = format!("{ia} {}", h.canon());
                let req = format!("s addr {ia} {}", h.canon());
                let ia_ = IsdAsn(*ia);
                out.push(("addr", c.clone(), req.clone(), ScionAddr::new(ia_, h.real()).to_string()));
                match h {
                    H::V4(a) => {
                        out.push(("addrv4", c.clone(), req.clone(), ScionAddrV4::new(ia_, (*a).into()).to_string()));
                        out.push(("ipaddr", c, req, ScionIpAddr::new(ia_, IpAddr::V4((*a).into())).to_string()));
                    }
                    H::V6(a) => {
                        out.push(("addrv6", c.clone(), req.clone(), ScionAddrV6::new(ia_, (*a).into()).to_string()));
                        out.push(("ipaddr", c, req, ScionIpAddr::new(ia_, IpAddr::V6((*a).into())).to_string()));
                    }
                    H::Svc(a) => out.push(("addrsvc", c, req, ScionAddrSvc::new(ia_, ServiceAddr(*a)).to_string())),
                }
            }
            Val::Sock(ia, h, p) => {
                let c = format!("{ia} {} {p}", h.canon());
                let req = format!("s sock {ia} {} {p}", h.canon());
                let ia_ = IsdAsn(*ia);
                out.push(("sock", c.clone(), req.clone(), ScionSocketAddr::new(ia_, h.real(), *p).to_string()));
                match h {
                    H::V4(a) => {
                        out.push(("sockv4", c.clone(), req.clone(), ScionSocketAddrV4::new(ia_, (*a).into(), *p).to_string()));
                        out.push(("ipsock", c, req, ScionSocketIpAddr::new(ia_, IpAddr::V4((*a).into()), *p).to_string()));
                    }
                    H::V6(a) => {
                        out.push(("sockv6", c.clone(), req.clone(), ScionSocketAddrV6::new(ia_, (*a).into(), *p).to_string()));
                        out.push(("ipsock", c, req, ScionSocketIpAddr::new(ia_, IpAddr::V6((*a).into()), *p).to_string()));
                    }
                    H::Svc(a) => out.push(("socksvc", c, req, ScionSocketAddrSvc::new(ia_, ServiceAddr(*a), *p).to_string())),
                }
            }
            Val::Txt(l) => {
                // no Display exists for a record: the displayed form is the documented grammar over the
                // displayed forms of the addresses
                let c = l.iter().map(|(ia, h)| format!("{ia} {}", h.canon())).collect::<Vec<_>>().join(";");
                let req = format!("s txt {}", l.iter().map(|(ia, h)| format!("{ia} {}", h.canon())).collect::<Vec<_>>().join(" "));
                let d = l.iter().map(|(ia, h)| format!("[{}]", ScionAddr::new(IsdAsn(*ia), h.real()))).collect::<Vec<_>>().join(",");
                out.push(("txt", c, req, d));
            }
        }
        out
    }
}

// ------------------------------------------------------------------------------------------------
// generators
// ------------------------------------------------------------------------------------------------
const ISD_B: [u16; 10] = [0, 1, 9, 10, 19, 99, 100, 9999, 65534, 65535];
const ASN_B: [u64; 20] = [
    0, 1, 9, 10, 110, 65535, 65536, 0xffff_fffe, 0xffff_ffff, 0x1_0000_0000, 0x1_0000_0001, 0xff00_0000_0110,
    0xff00_0000_0000, 0x0001_0000_ffff, 0xffff_0000_0000, 0x0001_fcd1_0001, 0xffff_ffff_fffe, 0xffff_ffff_ffff,
    0x000a_000b_000c, 0x00ab_0000_0000,
];
const PORT_B: [u16; 8] = [0, 1, 9, 80, 443, 1000, 65534, 65535];
const V4_B: [u32; 10] = [0, 1, 0x7f000001, 0x0a000001, 0xc0000201, 0xffffffff, 0xff000000, 0x00ff00ff, 0x01020304, 0x64c8ff00];
const SVC_B: [u16; 14] = [0, 1, 2, 3, 15, 16, 17, 0x7fff, 0x8000, 0x8001, 0x8002, 0x8010, 0x8003, 0xffff];

fn v6_boundaries() -> Vec<u128> {
    let g = |gs: [u16; 8]| gs.iter().fold(0u128, |a, x| (a << 16) | *x as u128);
    vec![
        0,
        1,
        u128::MAX,
        g([0, 0, 0, 0, 0, 0xffff, 0x0102, 0x0304]), // v4-mapped
        g([0, 0, 0, 0, 0, 0, 0x0102, 0x0304]),      // v4-compatible
        g([0, 0, 0, 0, 0, 0xffff, 0, 0]),
        g([0x2001, 0xdb8, 0, 0, 0, 0, 0, 1]),
        g([1, 0, 0, 0, 0, 0, 0, 0]),
        g([1, 0, 0, 2, 0, 0, 0, 3]),
        g([1, 0, 0, 0, 2, 0, 0, 3]),
        g([1, 0, 0, 2, 0, 0, 3, 4]),
        g([1, 0, 2, 0, 3, 0, 4, 0]),
        g([0, 1, 0, 2, 0, 3, 0, 4]),
        g([0, 0, 1, 2, 3, 4, 5, 6]),
        g([1, 2, 3, 4, 5, 6, 0, 0]),
        g([1, 2, 3, 4, 5, 6, 7, 0]),
        g([0, 2, 3, 4, 5, 6, 7, 8]),
        g([1, 2, 3, 4, 5, 6, 7, 8]),
        g([0xffff; 8]),
        g([0xfe80, 0, 0, 0, 0xabcd, 0xef01, 0x2345, 0x6789]),
        g([0, 0, 0, 0, 0, 0xfffe, 0x0102, 0x0304]),
        g([0, 0, 0, 0, 1, 0xffff, 0x0102, 0x0304]),
        g([0x64, 0xff9b, 0, 0, 0, 0, 0x0102, 0x0304]),
    ]
}
fn rnd_isd(r: &mut Rng) -> u16 {
    if r.chance(1, 2) { *r.pick(&ISD_B) } else { r.next() as u16 }
}
fn rnd_asn(r: &mut Rng) -> u64 {
    match r.below(6) {
        0 => *r.pick(&ASN_B),
        1 => r.below(1 << 32),
        2 => r.below(1000),
        3 => {
            // colon-hex with small / zero groups
            let p = |r: &mut Rng| match r.below(4) { 0 => 0, 1 => r.below(16), 2 => r.below(256), _ => r.below(65536) };
            (p(r) << 32) | (p(r) << 16) | p(r)
        }
        _ => r.next() & 0xffff_ffff_ffff,
    }
}
fn rnd_ia(r: &mut Rng) -> u64 {
    ((rnd_isd(r) as u64) << 48) | rnd_asn(r)
}
fn rnd_v4(r: &mut Rng) -> u32 {
    match r.below(4) {
        0 => *r.pick(&V4_B),
        1 => {
            let o = |r: &mut Rng| *r.pick(&[0u32, 1, 9, 10, 99, 100, 199, 200, 249, 250, 255]);
            (o(r) << 24) | (o(r) << 16) | (o(r) << 8) | o(r)
        }
        _ => r.next() as u32,
    }
}
fn rnd_v6(r: &mut Rng, b: &[u128]) -> u128 {
    match r.below(4) {
        0 => *r.pick(b),
        1 | 2 => {
            // random zero groups → exercises `::` placement
            let mut v = 0u128;
            for _ in 0..8 {
                let g = match r.below(5) { 0 | 1 => 0, 2 => r.below(16), 3 => r.below(256), _ => r.below(65536) };
                v = (v << 16) | g as u128;
            }
            v
        }
        _ => ((r.next() as u128) << 64) | r.next() as u128,
    }
}
fn rnd_svc(r: &mut Rng) -> u16 {
    if r.chance(1, 2) { *r.pick(&SVC_B) } else { r.next() as u16 }
}
fn rnd_host(r: &mut Rng, b6: &[u128], ip_only: bool) -> H {
    match r.below(if ip_only { 2 } else { 3 }) {
        0 => H::V4(rnd_v4(r)),
        1 => H::V6(rnd_v6(r, b6)),
        _ => H::Svc(rnd_svc(r)),
    }
}
fn rnd_port(r: &mut Rng) -> u16 {
    if r.chance(1, 2) { *r.pick(&PORT_B) } else { r.next() as u16 }
}

/// a random *spelling variant* of a number: sign, leading zeros, upper-case hex
fn var_num(r: &mut Rng, v: u128, radix: u32) -> String {
    let mut s = if radix == 16 { format!("{v:x}") } else { v.to_string() };
    if radix == 16 && r.chance(1, 3) {
        s = s.to_uppercase();
    }
    if r.chance(1, 4) {
        s = "0".repeat(r.range(1, 3) as usize) + &s;
    }
    if r.chance(1, 5) {
        s.insert(0, '+');
    }
    s
}
fn var_asn(r: &mut Rng, v: u64) -> String {
    if v <= u32::MAX as u64 && r.chance(2, 3) {
        var_num(r, v as u128, 10)
    } else {
        format!(
            "{}:{}:{}",
            var_num(r, (v >> 32 & 0xffff) as u128, 16),
            var_num(r, (v >> 16 & 0xffff) as u128, 16),
            var_num(r, (v & 0xffff) as u128, 16)
        )
    }
}
fn var_ia(r: &mut Rng, v: u64) -> String {
    format!("{}-{}", var_num(r, (v >> 48) as u128, 10), var_asn(r, v & 0xffff_ffff_ffff))
}
fn var_svc(r: &mut Rng, v: u16) -> String {
    let any = v & 0x7fff;
    let base = match any {
        1 if r.chance(3, 4) => "DS".to_string(),
        2 if r.chance(3, 4) => "CS".to_string(),
        16 if r.chance(3, 4) => "Wildcard".to_string(),
        _ => {
            if r.chance(1, 2) { format!("<SVC:{any:#06x}>") } else { format!("<SVC:0x{}>", var_num(r, any as u128, 16)) }
        }
    };
    if v & 0x8000 != 0 { base + "_M" } else if r.chance(1, 3) { base + "_A" } else { base }
}
fn var_v6(r: &mut Rng, v: u128) -> String {
    let gs: Vec<u16> = (0..8).map(|i| (v >> (16 * (7 - i))) as u16).collect();
    match r.below(5) {
        0 => Ipv6Addr::from(v).to_string(),
        1 => gs.iter().map(|g| format!("{g:x}")).collect::<Vec<_>>().join(":"),
        2 => gs.iter().map(|g| format!("{g:04X}")).collect::<Vec<_>>().join(":"),
        3 => {
            // embedded IPv4 tail
            let head = gs[..6].iter().map(|g| format!("{g:x}")).collect::<Vec<_>>().join(":");
            format!("{head}:{}", Ipv4Addr::from(v as u32))
        }
        _ => {
            // compress the first zero group run of any length ≥ 1 (also a single group, also not the longest)
            if let Some(i) = gs.iter().position(|g| *g == 0) {
                let mut j = i;
                while j < 8 && gs[j] == 0 && (j == i || r.chance(2, 3)) {
                    j += 1;
                }
                let f = |x: &[u16]| x.iter().map(|g| format!("{g:x}")).collect::<Vec<_>>().join(":");
                format!("{}::{}", f(&gs[..i]), f(&gs[j..]))
            } else {
                Ipv6Addr::from(v).to_string()
            }
        }
    }
}
fn var_host(r: &mut Rng, h: &H) -> String {
    match h {
        H::V4(a) => Ipv4Addr::from(*a).to_string(),
        H::V6(a) => var_v6(r, *a),
        H::Svc(v) => var_svc(r, *v),
    }
}
fn ws(r: &mut Rng) -> String {
    match r.below(8) {
        0 => " ".into(),
        1 => "\t".into(),
        2 => "  ".into(),
        3 => "\u{2003}".into(),
        4 => "\u{a0}\n".into(),
        _ => String::new(),
    }
}
/// grammar-derived valid spelling (with documented alternatives) of a random value of `kind`
fn gen_valid(r: &mut Rng, kind: &str, b6: &[u128]) -> String {
    let host_for = |r: &mut Rng, kind: &str| -> H {
        match kind {
            "addrsvc" | "socksvc" => H::Svc(rnd_svc(r)),
            "addrv4" | "sockv4" => H::V4(rnd_v4(r)),
            "addrv6" | "sockv6" => H::V6(rnd_v6(r, b6)),
            "ipaddr" | "ipsock" | "txt" | "ip" => rnd_host(r, b6, true),
            _ => rnd_host(r, b6, false),
        }
    };
    match kind {
        "isd" => { let v = rnd_isd(r); var_num(r, v as u128, 10) }
        "asn" => { let v = rnd_asn(r); var_asn(r, v) }
        "ia" => { let v = rnd_ia(r); var_ia(r, v) }
        "svc" => { let v = rnd_svc(r); var_svc(r, v) }
        "ip4" => Ipv4Addr::from(rnd_v4(r)).to_string(),
        "ip6" => { let v = rnd_v6(r, b6); var_v6(r, v) }
        "host" | "ip" => { let h = host_for(r, kind); var_host(r, &h) }
        "addr" | "addrsvc" | "addrv4" | "addrv6" | "ipaddr" => {
            let h = host_for(r, kind);
            let ia = rnd_ia(r);
            format!("{},{}", var_ia(r, ia), var_host(r, &h))
        }
        "sock" | "socksvc" | "sockv4" | "sockv6" | "ipsock" => {
            let h = host_for(r, kind);
            let (ia, p) = (rnd_ia(r), rnd_port(r));
            format!("[{},{}]:{}", var_ia(r, ia), var_host(r, &h), var_num(r, p as u128, 10))
        }
        "txt" => {
            let n = r.range(1, 4);
            let mut s = ws(r);
            for i in 0..n {
                if i > 0 {
                    s += &ws(r);
                    s.push(',');
                    s += &ws(r);
                }
                let h = host_for(r, kind);
                let ia = rnd_ia(r);
                s += &format!("[{}{}{},{}{}{}]", ws(r), var_ia(r, ia), ws(r), ws(r), var_host(r, &h), ws(r));
            }
            s + &ws(r)
        }
        _ => unreachable!(),
    }
}

const EDIT_CHARS: &str = "[]:,-+_ 0123456789abcdefABCDEFxX<>.\tCSDWM";
const EDIT_NON_ASCII: [char; 5] = ['é', '\u{2003}', '１', '\u{85}', '𝟙'];

fn all_single_edits(s: &str) -> Vec<String> {
    let cs: Vec<char> = s.chars().collect();
    let alpha: Vec<char> = EDIT_CHARS.chars().chain(EDIT_NON_ASCII.iter().copied()).collect();
    let mut out = vec![];
    for i in 0..=cs.len() {
        for a in &alpha {
            let mut t = cs.clone();
            t.insert(i, *a);
            out.push(t.iter().collect());
        }
        if i < cs.len() {
            let mut t = cs.clone();
            t.remove(i);
            out.push(t.iter().collect());
            for a in &alpha {
                if *a != cs[i] {
                    let mut t = cs.clone();
                    t[i] = *a;
                    out.push(t.iter().collect());
                }
            }
        }
    }
    out
}
fn random_edit(r: &mut Rng, s: &str) -> String {
    let mut cs: Vec<char> = s.chars().collect();
    let alpha: Vec<char> = EDIT_CHARS.chars().chain(EDIT_NON_ASCII.iter().copied()).collect();
    // positions near structure characters are more interesting
    let pos = |r: &mut Rng, n: usize| -> usize {
        if n == 0 { 0 } else { match r.below(4) { 0 => 0, 1 => n - 1, _ => r.below(n as u64) as usize } }
    };
    match r.below(3) {
        0 => {
            let i = if r.chance(1, 4) { cs.len() } else { pos(r, cs.len()) };
            cs.insert(i, *r.pick(&alpha));
        }
        1 if !cs.is_empty() => {
            let i = pos(r, cs.len());
            cs.remove(i);
        }
        _ if !cs.is_empty() => {
            let i = pos(r, cs.len());
            cs[i] = *r.pick(&alpha);
        }
        _ => cs.push(*r.pick(&alpha)),
    }
    cs.iter().collect()
}

/// hand-written boundary strings: brackets, ports, overflow, the historical defects
fn boundary_strings() -> Vec<(&'static str, String)> {
    let mut v: Vec<(&'static str, String)> = vec![];
    let big = ["65535", "65536", "4294967295", "4294967296", "281474976710655", "281474976710656", "18446744073709551615",
        "18446744073709551616", "99999999999999999999999999999999999999999", "+0", "-0", "+", "-", "", "0x10", "1e3", "00000000000000000000001",
        "+00065535", "++1", "+-1", "1+", " 1", "1 ", "１", "٣"];
    for b in big {
        v.push(("isd", b.to_string()));
        v.push(("asn", b.to_string()));
        v.push(("ia", format!("{b}-1")));
        v.push(("ia", format!("1-{b}")));
        v.push(("sock", format!("[1-ff00:0:110,10.0.0.1]:{b}")));
        v.push(("sockv4", format!("[1-ff00:0:110,10.0.0.1]:{b}")));
        v.push(("svc", format!("<SVC:0x{b}>")));
        v.push(("ip4", format!("1.2.3.{b}")));
    }
    for a in ["ffff:ffff:ffff", "10000:0:0", "0:10000:0", "0:0:10000", "0:0:0", "0:0", "0:0:0:0", ":0:0", "0:0:", "::", ":", "0:0x0:0",
        "FFFF:FfFf:ffff", "+f:+0:+1", "0000f:0:0", "ffff:ffff:ffff:ffff", "g:0:0", "0:0:0 ", "4294967295:0:0", "1-2", "-", "f-f:f:f"] {
        v.push(("asn", a.to_string()));
        v.push(("ia", format!("1-{a}")));
        v.push(("ia", format!("65535-{a}")));
    }
    for i in ["1-1-0:0:1", "-1", "1-", "-", "--", "1--1", "a-0:0:1", "1-ff00:0:110-", "-1-ff00:0:110", "1 -1", "1- 1", "1–1", "65536-1", "0-0"] {
        v.push(("ia", i.to_string()));
    }
    for s in ["CS", "DS", "Wildcard", "CS_A", "CS_M", "DS_M", "Wildcard_M", "Wildcard_A", "CS_", "_M", "_", "CS_AM", "CS_M_M", "CS_A_A", "cs", "Cs",
        "<SVC:0x0003>", "<SVC:0x0003>_M", "<SVC:0x0003>_A", "<SVC:0x7fff>_M", "<SVC:0x7fff>", "<SVC:0x8000>", "<SVC:0x8003>", "<SVC:0x8003>_M", "<SVC:0xffff>",
        "<SVC:0x0001>", "<SVC:0x0002>_M", "<SVC:0x0010>", "<SVC:0x3>", "<SVC:0x00003>", "<SVC:0x+3>", "<SVC:0X0003>", "<SVC:0003>", "<SVC:0x>", "<SVC:0x0003",
        "SVC:0x0003>", "<<SVC:0x0003>>", "<SVC:0x0003>x", "x<SVC:0x0003>", "<SVC:0x000G>", "<SVC:0x10000>", "<svc:0x0003>", "< SVC:0x0003>", "", "CSDS", "CS DS", "Wildcard_"] {
        v.push(("svc", s.to_string()));
        v.push(("host", s.to_string()));
        v.push(("addr", format!("1-ff00:0:110,{s}")));
        v.push(("addrsvc", format!("1-ff00:0:110,{s}")));
        v.push(("sock", format!("[1-ff00:0:110,{s}]:80")));
        v.push(("socksvc", format!("[1-ff00:0:110,{s}]:80")));
    }
    for h in ["1.2.3.4", "1.2.3", "1.2.3.4.5", "256.1.1.1", "01.2.3.4", "1.2.3.04", "1.2.3.4 ", " 1.2.3.4", "1.2.3.4,", "0.0.0.0", "255.255.255.255", "1..2.3",
        "::", "::1", "1::", "::ffff:1.2.3.4", "::1.2.3.4", "1.2.3.4::", "1:2:3:4:5:6:7:8", "1:2:3:4:5:6:7::", "::2:3:4:5:6:7:8", "1:2:3:4:5:6:7:8:9", "1::2::3",
        ":::", "1:2:3:4:5:6:1.2.3.4", "1:2:3:4:5:6:7:1.2.3.4", "::1.2.3.4.5", "12345::", "::g", "[::1]", "::1%eth0", "fe80::1%1", "0:0:0:0:0:0:0:0", "::0:0",
        "1:2:3:4:5:6:7:8::", "::1:2:3:4:5:6:7:8", "1::2:3:4:5:6:7:8", "1:2:3:4::5:6:7:8", "::FFFF:255.255.255.255", "::ffff:0:0", "0::0", "::00001", "0x1::"] {
        v.push(("ip4", h.to_string()));
        v.push(("ip6", h.to_string()));
        v.push(("ip", h.to_string()));
        v.push(("host", h.to_string()));
        v.push(("addr", format!("1-ff00:0:110,{h}")));
        v.push(("ipaddr", format!("1-ff00:0:110,{h}")));
        v.push(("sock", format!("[1-ff00:0:110,{h}]:80")));
        v.push(("txt", format!("[1-ff00:0:110,{h}]")));
    }
    for a in ["1-ff00:0:110,10.0.0.1", "1-ff00:0:110,", ",10.0.0.1", ",", "1-ff00:0:110", "1-ff00:0:110,10.0.0.1,", "1-ff00:0:110,,10.0.0.1", "1-ff00:0:110,10.0.0.1,CS",
        " 1-ff00:0:110,10.0.0.1", "1-ff00:0:110, 10.0.0.1", "1-ff00:0:110 ,10.0.0.1", "1-ff00:0:110;10.0.0.1", "1-ff00:0:110,CS_M", "1-ff00:0:110,::1", "x1-ff00:0:110,10.0.0.1",
        "1-ff00:0:110,10.0.0.1y", "[1-ff00:0:110,10.0.0.1]", "1-0,CS", "+1-+5,1.2.3.4"] {
        for k in ["addr", "addrsvc", "addrv4", "addrv6", "ipaddr"] {
            v.push((k, a.to_string()));
        }
    }
    for s in [":80", "[:80", "]:80", "[]:80", "[[]]:80", ":", "", "::", "[1-ff00:0:110,10.0.0.1]:80", "[1-ff00:0:110,10.0.0.1]:", "[1-ff00:0:110,10.0.0.1]", "1-ff00:0:110,10.0.0.1:80",
        "[1-ff00:0:110,10.0.0.1:80", "1-ff00:0:110,10.0.0.1]:80", "x1-ff00:0:110,10.0.0.1y:1000", "[1-ff00:0:110,10.0.0.1y:1000", "x1-ff00:0:110,10.0.0.1]:1000",
        "[[1-ff00:0:110,10.0.0.1]]:80", "[1-ff00:0:110,10.0.0.1]]:80", "[[1-ff00:0:110,10.0.0.1]:80", " [1-ff00:0:110,10.0.0.1]:80", "[1-ff00:0:110,10.0.0.1] :80",
        "[1-ff00:0:110,10.0.0.1]: 80", "[1-ff00:0:110,10.0.0.1]:80 ", "[1-ff00:0:110,::1]:80", "[1-ff00:0:110,::1]", "[1-ff00:0:110,::1]:", "[1-ff00:0:110,[::1]]:80",
        "[1-ff00:0:110,CS]:80", "[1-ff00:0:110,CS_M]:65535", "[1-ff00:0:110,<SVC:0x0003>]:1", "é1-ff00:0:110,10.0.0.1]:80", "[1-ff00:0:110,10.0.0.1é:80", "é:80", "éé:80", "1:80",
        "[1-ff00:0:110,10.0.0.1]:80:80", "[1-ff00:0:110,10.0.0.1]:+80", "[1-ff00:0:110,10.0.0.1]:080", "[1-ff00:0:110,10.0.0.1]:-80", "[1-ff00:0:110,10.0.0.1]:0x50",
        "[0-0,0.0.0.0]:0", "[65535-ffff:ffff:ffff,255.255.255.255]:65535", "[65535-ffff:ffff:ffff,ffff:ffff:ffff:ffff:ffff:ffff:ffff:ffff]:65535"] {
        for k in ["sock", "socksvc", "sockv4", "sockv6", "ipsock"] {
            v.push((k, s.to_string()));
        }
    }
    for t in ["", " ", "[19-ff00:0:110,192.0.2.1]", "[19-ff00:0:110,192.0.2.1],", "[19-ff00:0:110,192.0.2.1] , ", "[19-ff00:0:110,192.0.2.1],,[19-ff00:0:111,2001:db8::1]",
        "[19-ff00:0:110,192.0.2.1],[19-ff00:0:111,2001:db8::1]", "[19-ff00:0:110,192.0.2.1] , [19-ff00:0:111,2001:db8::1]", "[19-ff00:0:110,192.0.2.1][19-ff00:0:111,2001:db8::1]",
        "[19-ff00:0:110,192.0.2.1];[19-ff00:0:111,2001:db8::1]", ",[19-ff00:0:110,192.0.2.1]", "x[19-ff00:0:110,192.0.2.1]", "[19-ff00:0:110,192.0.2.1]x", "[19-ff00:0:110,192.0.2.1",
        "19-ff00:0:110,192.0.2.1]", "[]", "[,]", "[", "]", "[]]", "[[19-ff00:0:110,192.0.2.1]]", "[ 19-ff00:0:110 , 192.0.2.1 ]", "[19-ff00:0:110,192.0.2.1,]", "[19-ff00:0:110,CS]",
        "[bad,192.0.2.2]", "[19-ff00:0:110 192.0.2.1]", "\u{2003}[19-ff00:0:110,192.0.2.1]\u{a0}", "[19-ff00:0:110,192.0.2.1]\u{2003},\u{85}[19-ff00:0:111,::1]", "é", "[é]", "[é,é]",
        "[19-ff00:0:110,192.0.2.1]é", "scion=v1;[19-ff00:0:110,192.0.2.1]", "[19-ff00:0:110,[::1]]", "[19-ff00:0:110,::ffff:1.2.3.4]", "[+19-FF00:0:0110,192.0.2.1]"] {
        v.push(("txt", t.to_string()));
    }
    v
}

// ------------------------------------------------------------------------------------------------
// checking
// ------------------------------------------------------------------------------------------------
struct Ctx {
    lean: Lean,
    rep: Report,
}

/// spec failures of one string case on the implementation: (key, what)
fn spec_of_string(kind: &str, s: &str, io: &str) -> Vec<(String, String)> {
    let mut out = vec![];
    if io == "panic" {
        out.push((format!("C15:{kind}:panic"), format!("{kind}::from_str panicked on {s:?}")));
    } else if let Some(v) = io.strip_prefix("ok ") {
        match spell(kind, s) {
            Some(sv) if sv == v => {}
            Some(sv) => out.push((format!("C15:{kind}:accepts-as-other-value"), format!("{s:?} parsed as `{v}` but spells `{sv}`"))),
            None => out.push((format!("C15:{kind}:accepts-non-spelling"), format!("{s:?} is accepted as `{v}` but is not a spelling of any {kind} value"))),
        }
    }
    out
}

fn check_string(cx: &mut Ctx, stream: &str, kind: &str, s: &str, near_valid: bool) {
    let io = impl_parse(kind, s);
    let mo = cx.lean.ask(&format!("p {kind} {}", hex(s.as_bytes())));
    let accepted = io.starts_with("ok");
    cx.rep.case(&format!("{kind}|{s}"), accepted || (near_valid && !s.is_empty()));
    cx.rep.hit(&format!("str {kind} {}", if accepted { "ok" } else { &io }));
    cx.rep.hit(&format!("stream {stream}"));
    if stream == "mutation" && matches!(kind, "sock" | "txt" | "addr") && s.len() > 20 {
        // one accepted and one rejected single-edit mutant per kind
        let tag = format!("sampled {kind} {}", if accepted { "ok" } else { "err" });
        if !cx.rep.distribution.contains_key(&tag) && cx.rep.samples.len() < 6 {
            cx.rep.hit(&tag);
            cx.rep.sample(json!({"stream": stream, "kind": kind, "string": s, "impl": io, "model": mo, "spelling_oracle": spell(kind, s)}));
        }
    }
    if cx.lean.differs(&mo, &io) {
        let lean = &mut cx.lean;
        let small = shrink(s, &mut |t| { let a = impl_parse(kind, t); let b = lean.ask(&format!("p {kind} {}", hex(t.as_bytes()))); a != b });
        let (a, b) = (impl_parse(kind, &small), cx.lean.ask(&format!("p {kind} {}", hex(small.as_bytes()))));
        cx.rep.disagree(&format!("parse-{kind}"), json!({"kind": kind, "string": small, "hex": hex(small.as_bytes()), "found_as": s, "line": format!("{kind} {}", hex(small.as_bytes()))}), &a, &b);
    }
    for (key, what) in spec_of_string(kind, s, &io) {
        let k2 = key.clone();
        let small = shrink(s, &mut |t| spec_of_string(kind, t, &impl_parse(kind, t)).iter().any(|(k, _)| *k == k2));
        let what2 = spec_of_string(kind, &small, &impl_parse(kind, &small)).into_iter().find(|(k, _)| *k == key).map(|x| x.1).unwrap_or(what);
        cx.rep.spec_fail(&key, &what2, json!({"kind": kind, "string": small, "hex": hex(small.as_bytes()), "found_as": s, "line": format!("{kind} {}", hex(small.as_bytes()))}));
    }
    if accepted {
        // serde string form = FromStr
        if let Some(d) = impl_deser(kind, s) {
            if d != io {
                cx.rep.spec_fail(&format!("C15:{kind}:serde-differs"), &format!("deserialising {s:?} gives `{d}`, from_str gives `{io}`"), json!({"kind": kind, "string": s}));
            }
        }
        // hypotheses the theorems put on the IP codec, checked on std itself
        if kind == "ip4" && !s.chars().all(|c| c.is_ascii_digit() || c == '.') {
            cx.rep.spec_fail("C15:codec-hypothesis", "std accepts an IPv4 text with a character outside [0-9.]", json!({"string": s}));
        }
        if kind == "ip4" && Ipv6Addr::from_str(s).is_ok() {
            cx.rep.spec_fail("C15:codec-hypothesis", "std reads the same text as an IPv4 and as an IPv6 address", json!({"string": s}));
        }
        if kind == "ip6" && !s.chars().all(|c| c.is_ascii_hexdigit() || c == ':' || c == '.') {
            cx.rep.spec_fail("C15:codec-hypothesis", "std accepts an IPv6 text with a character outside [0-9a-fA-F:.]", json!({"string": s}));
        }
    }
}

/// greedy one-character deletions while `fails` stays true
fn shrink(s: &str, fails: &mut dyn FnMut(&str) -> bool) -> String {
    let mut cur: Vec<char> = s.chars().collect();
    let mut budget = 400;
    loop {
        let mut progressed = false;
        let mut i = 0;
        while i < cur.len() && budget > 0 {
            let mut cand = cur.clone();
            cand.remove(i);
            budget -= 1;
            if fails(&cand.iter().collect::<String>()) {
                cur = cand;
                progressed = true;
            } else {
                i += 1;
            }
        }
        if !progressed || budget == 0 {
            break;
        }
    }
    cur.iter().collect()
}

fn check_value(cx: &mut Ctx, v: &Val) {
    for (kind, canon, req, disp) in v.views() {
        cx.rep.case(&format!("val {kind}|{canon}"), true);
        cx.rep.hit(&format!("val {kind}"));
        let md = cx.lean.ask(&req);
        let id = hex(disp.as_bytes());
        if cx.lean.differs(&md, &id) {
            let ms = unhex(&md).and_then(|b| String::from_utf8(b).ok()).unwrap_or(md.clone());
            cx.rep.disagree(&format!("show-{kind}"), json!({"kind": kind, "value": canon}), &disp, &ms);
        }
        let io = impl_parse(kind, &disp);
        if io != format!("ok {canon}") {
            let key = if io == "panic" { format!("C15:{kind}:panic") } else { format!("C15:{kind}:roundtrip") };
            cx.rep.spec_fail(&key, &format!("{kind} value `{canon}` is displayed as {disp:?}, which parses to `{io}`"), json!({"kind": kind, "value": canon, "display": disp}));
        }
        let mo = cx.lean.ask(&format!("p {kind} {}", hex(disp.as_bytes())));
        if cx.lean.differs(&mo, &io) {
            cx.rep.disagree(&format!("parse-{kind}"), json!({"kind": kind, "string": disp}), &io, &mo);
        }
        // the displayed form must itself be a spelling of the value (sanity of the oracle and of Display)
        if spell(kind, &disp).as_deref() != Some(canon.as_str()) {
            cx.rep.spec_fail(&format!("C15:{kind}:display-not-a-spelling"), &format!("displayed form {disp:?} of `{canon}` is not recognised as its spelling"), json!({"kind": kind, "value": canon, "display": disp}));
        }
        // serde string form
        if let Some(d) = impl_deser(kind, &disp) {
            if d != format!("ok {canon}") {
                cx.rep.spec_fail(&format!("C15:{kind}:serde-roundtrip"), &format!("deserialising the displayed form {disp:?} gives `{d}`"), json!({"kind": kind, "value": canon}));
            }
        }
        if cx.rep.samples.len() < 2 && matches!(kind, "sock" | "txt") && disp.len() > 30 && disp.contains("::") {
            cx.rep.sample(json!({"kind": kind, "value": canon, "display": disp, "model_display_hex": md, "reparsed": io}));
        }
    }
    // serialisation side of serde for the enum types
    match v {
        Val::Sock(ia, h, p) => {
            let a = ScionSocketAddr::new(IsdAsn(*ia), h.real(), *p);
            if serde_json::to_value(a).ok() != Some(serde_json::Value::String(a.to_string())) {
                cx.rep.spec_fail("C15:sock:serde-roundtrip", "serialised form is not the displayed form", json!({"value": a.to_string()}));
            }
        }
        Val::Addr(ia, h) => {
            let a = ScionAddr::new(IsdAsn(*ia), h.real());
            if serde_json::to_value(a).ok() != Some(serde_json::Value::String(a.to_string())) {
                cx.rep.spec_fail("C15:addr:serde-roundtrip", "serialised form is not the displayed form", json!({"value": a.to_string()}));
            }
        }
        Val::Ia(x) => {
            if serde_json::to_value(IsdAsn(*x)).ok() != Some(serde_json::Value::String(IsdAsn(*x).to_string())) {
                cx.rep.spec_fail("C15:ia:serde-roundtrip", "serialised form is not the displayed form", json!({"value": x}));
            }
        }
        Val::Ip6(x) => {
            // codec hypothesis: every displayed IPv6 address contains ':' and is not an IPv4 text
            let d = Ipv6Addr::from(*x).to_string();
            if !d.contains(':') || Ipv4Addr::from_str(&d).is_ok() {
                cx.rep.spec_fail("C15:codec-hypothesis", "an IPv6 display form without ':' / readable as IPv4", json!({"value": d}));
            }
        }
        _ => {}
    }
}

// ------------------------------------------------------------------------------------------------
// multi-edit mutants: 2-3 edits, structure-aware (doubled separators / brackets, nesting, swaps)
// ------------------------------------------------------------------------------------------------
fn multi_edit(r: &mut Rng, s: &str) -> String {
    let mut cur = s.to_string();
    for _ in 0..r.range(2, 3) {
        let cs: Vec<char> = cur.chars().collect();
        let structural: Vec<usize> = cs.iter().enumerate().filter(|(_, c)| "[]:,-_<>.;=".contains(**c)).map(|(i, _)| i).collect();
        cur = match r.below(7) {
            0 if !structural.is_empty() => {
                // double a structural character: `]]`, `,,`, `::`, `--`
                let i = *r.pick(&structural);
                let mut t = cs.clone();
                t.insert(i, cs[i]);
                t.iter().collect()
            }
            1 if !structural.is_empty() => {
                // put a bracket next to a structural character
                let i = *r.pick(&structural) + r.below(2) as usize;
                let mut t = cs.clone();
                t.insert(i.min(t.len()), *r.pick(&['[', ']']));
                t.iter().collect()
            }
            2 if cs.len() >= 2 => {
                // nest: wrap a random infix in brackets
                let a = r.below(cs.len() as u64) as usize;
                let b = r.range(a as u64, cs.len() as u64) as usize;
                let mut t = cs.clone();
                t.insert(b, ']');
                t.insert(a, '[');
                t.iter().collect()
            }
            3 if cs.len() >= 2 => {
                let i = r.below(cs.len() as u64 - 1) as usize;
                let mut t = cs.clone();
                t.swap(i, i + 1);
                t.iter().collect()
            }
            4 if !structural.is_empty() => {
                // drop a structural character
                let i = *r.pick(&structural);
                let mut t = cs.clone();
                t.remove(i);
                t.iter().collect()
            }
            _ => random_edit(r, &cur),
        };
    }
    cur
}

// ------------------------------------------------------------------------------------------------
// DNS TXT record level
// ------------------------------------------------------------------------------------------------
type RR = Vec<Vec<u8>>;
const DOMAIN: &str = "example.com";

fn rr_token(rr: &RR) -> String {
    if rr.is_empty() { "0".into() } else { rr.iter().map(|c| hex(c)).collect::<Vec<_>>().join(",") }
}
fn rr_from_token(t: &str) -> Option<RR> {
    if t == "0" { Some(vec![]) } else { t.split(',').map(unhex).collect() }
}
fn rrs_line(rrs: &[RR]) -> String {
    std::iter::once("txtrec".to_string()).chain(rrs.iter().map(rr_token)).collect::<Vec<_>>().join(" ")
}
fn rrs_lossy(rrs: &[RR]) -> Vec<String> {
    rrs.iter().map(|rr| String::from_utf8_lossy(&rr.concat()).into_owned()).collect()
}

/// the production record level, canonicalised: `ok a;b` | `novalid <hex raw> …` | `panic`
fn impl_resolve(rrs: &[RR]) -> String {
    match catch(|| verif_resolve_txt_rrs(DOMAIN, rrs)) {
        Err(_) => "panic".into(),
        Ok(Ok(l)) => format!("ok {}", l.iter().map(|a| addr_canon(&(*a).into())).collect::<Vec<_>>().join(";")),
        Ok(Err(ResolveError::NoValidEntries { domain, invalid_entries })) if domain == DOMAIN => {
            std::iter::once("novalid".to_string()).chain(invalid_entries.iter().map(|e| hex(e.raw().as_bytes()))).collect::<Vec<_>>().join(" ")
        }
        Ok(Err(e)) => format!("other-error {e:?}"),
    }
}
fn model_resolve(lean: &mut Lean, rrs: &[RR]) -> String {
    lean.ask(&std::iter::once("r".to_string()).chain(rrs.iter().map(rr_token)).collect::<Vec<_>>().join(" "))
}

/// what the property demands: the addresses of the records that are, after concatenating their
/// character-strings, valid UTF-8 and exactly `"scion=" version separator address-list` of the module
/// documentation (address-list up to the documented white space), in record order
fn spec_records(rrs: &[RR]) -> Vec<String> {
    let mut out = vec![];
    for rr in rrs {
        let bytes = rr.concat();
        let Ok(s) = std::str::from_utf8(&bytes) else { continue };
        let Some(payload) = s.strip_prefix("scion=").and_then(|x| x.strip_prefix("v1")).and_then(|x| x.strip_prefix(';')) else { continue };
        if let Some(l) = spell_txt(payload) {
            out.extend(l.iter().map(|(ia, h)| format!("{ia} {}", h.canon())));
        }
    }
    out
}
fn is_subsequence(xs: &[&str], of: &[String]) -> bool {
    let mut it = of.iter();
    xs.iter().all(|x| it.any(|y| y == x))
}
fn spec_of_records(rrs: &[RR], io: &str) -> Vec<(String, String)> {
    let want = spec_records(rrs);
    let shown = rrs_lossy(rrs);
    let mut out = vec![];
    if io == "panic" {
        out.push(("C15:txtrec:panic".to_string(), format!("the TXT record level panicked on {shown:?}")));
    } else if let Some(v) = io.strip_prefix("ok ") {
        let got: Vec<&str> = v.split(';').collect();
        if got.iter().map(|x| x.to_string()).collect::<Vec<_>>() != want {
            if is_subsequence(&got, &want) {
                out.push(("C15:txtrec:drops-valid-record".to_string(), format!("records {shown:?} resolve to `{v}` but spell `{}`", want.join(";"))));
            } else {
                out.push(("C15:txtrec:accepts-non-spelling".to_string(), format!("records {shown:?} resolve to `{v}`; the records that are prefix + payload spelling give `{}`", want.join(";"))));
            }
        }
    } else if io.starts_with("novalid") {
        if !want.is_empty() {
            out.push(("C15:txtrec:rejects-valid-record".to_string(), format!("records {shown:?} give NoValidEntries but spell `{}`", want.join(";"))));
        }
    } else {
        out.push(("C15:txtrec:unexpected-error".to_string(), format!("records {shown:?} give `{io}`")));
    }
    out
}

/// greedy shrinking of a record set: drop records, merge character-strings, drop bytes
fn shrink_rrs(rrs: &[RR], fails: &mut dyn FnMut(&[RR]) -> bool) -> Vec<RR> {
    let mut cur: Vec<RR> = rrs.to_vec();
    let mut budget = 600;
    loop {
        let mut progressed = false;
        let mut i = 0;
        while i < cur.len() && budget > 0 {
            let mut cand = cur.clone();
            cand.remove(i);
            budget -= 1;
            if fails(&cand) { cur = cand; progressed = true; } else { i += 1; }
        }
        for i in 0..cur.len() {
            if cur[i].len() > 1 && budget > 0 {
                let mut cand = cur.clone();
                cand[i] = vec![cur[i].concat()];
                budget -= 1;
                if fails(&cand) { cur = cand; progressed = true; }
            }
        }
        for i in 0..cur.len() {
            for j in 0..cur[i].len() {
                let mut k = 0;
                while k < cur[i][j].len() && budget > 0 {
                    let mut cand = cur.clone();
                    cand[i][j].remove(k);
                    budget -= 1;
                    if fails(&cand) { cur = cand; progressed = true; } else { k += 1; }
                }
            }
        }
        if !progressed || budget == 0 { break; }
    }
    cur
}

/// class of one record for the distribution: valid / invalid / foreign / nonutf8
fn record_class(rr: &RR) -> &'static str {
    let bytes = rr.concat();
    match std::str::from_utf8(&bytes) {
        Err(_) => "nonutf8",
        Ok(s) => match s.strip_prefix("scion=v1;") {
            None => "foreign",
            Some(p) => if spell_txt(p).is_some() { "valid" } else { "invalid" },
        },
    }
}

fn check_records(cx: &mut Ctx, stream: &str, rrs: &[RR]) {
    let io = impl_resolve(rrs);
    let mo = model_resolve(&mut cx.lean, rrs);
    let classes: Vec<&str> = rrs.iter().map(record_class).collect();
    let prefixed = classes.iter().any(|c| *c == "valid" || *c == "invalid");
    cx.rep.case(&rrs_line(rrs), prefixed);
    cx.rep.hit(&format!("txtrec {}", io.split(' ').next().unwrap_or("")));
    cx.rep.hit(&format!("stream txtrec-{stream}"));
    for c in &classes { cx.rep.hit(&format!("txtrec record {c}")); }
    let has = |c: &str| classes.iter().any(|x| *x == c);
    if has("valid") && (has("invalid") || has("nonutf8")) { cx.rep.hit("txtrec set valid+invalid"); }
    if has("valid") && has("foreign") { cx.rep.hit("txtrec set valid+foreign"); }
    if classes.iter().filter(|c| **c == "valid").count() > 1 { cx.rep.hit("txtrec set several valid"); }
    if rrs.iter().any(|rr| rr.len() > 1) { cx.rep.hit("txtrec set with split record"); }
    if rrs.iter().any(|rr| rr.iter().any(|c| c.len() == 255)) { cx.rep.hit("txtrec set with 255-byte character-string"); }
    if stream == "random" && has("valid") && has("invalid") && rrs.iter().any(|rr| rr.len() > 1) {
        let tag = "sampled txtrec";
        if !cx.rep.distribution.contains_key(tag) {
            cx.rep.hit(tag);
            cx.rep.sample(json!({"stream": stream, "kind": "txtrec", "records": rrs_lossy(rrs), "line": rrs_line(rrs), "impl": io, "model": mo, "spec_addresses": spec_records(rrs)}));
        }
    }
    // the model's UTF-8 decoder against std's, on every record
    for rr in rrs {
        let bytes = rr.concat();
        let want = match std::str::from_utf8(&bytes) {
            Ok(s) => std::iter::once("ok".to_string()).chain(s.chars().map(|c| (c as u32).to_string())).collect::<Vec<_>>().join(" "),
            Err(_) => "err".into(),
        };
        let m = cx.lean.ask(&format!("u {}", hex(&bytes)));
        if cx.lean.differs(&m, &want) {
            cx.rep.disagree("prim-utf8", json!({"bytes": hex(&bytes)}), &want, &m);
        }
    }
    if cx.lean.differs(&mo, &io) {
        let lean = &mut cx.lean;
        let small = shrink_rrs(rrs, &mut |t| impl_resolve(t) != model_resolve(lean, t));
        let (a, b) = (impl_resolve(&small), model_resolve(&mut cx.lean, &small));
        cx.rep.disagree("resolve-txt-records", json!({"kind": "txtrec", "records": rrs_lossy(&small), "line": rrs_line(&small), "found_as": rrs_line(rrs)}), &a, &b);
    }
    for (key, what) in spec_of_records(rrs, &io) {
        let k2 = key.clone();
        let small = shrink_rrs(rrs, &mut |t| spec_of_records(t, &impl_resolve(t)).iter().any(|(k, _)| *k == k2));
        let what2 = spec_of_records(&small, &impl_resolve(&small)).into_iter().find(|(k, _)| *k == key).map(|x| x.1).unwrap_or(what);
        cx.rep.spec_fail(&key, &what2, json!({"kind": "txtrec", "records": rrs_lossy(&small), "line": rrs_line(&small), "found_as": rrs_line(rrs)}));
    }
}

const PREFIX_VARIANTS: [&str; 27] = [
    "scion=v2;", "scion=v0;", "scion=v10;", "scion=v1.0;", "scion=v01;", "SCION=v1;", "Scion=v1;", "scion=V1;", " scion=v1;", "\tscion=v1;",
    "scion =v1;", "scion= v1;", "scion=v1 ;", "scion=v1", "scion=v1:", "scion=v1,", "scion=v1;;", "scion=v1;scion=v1;", "scion=v1; ", "scion=v1;\t",
    "scion=v1;\u{2003}", "\u{feff}scion=v1;", "xscion=v1;", "scion=v1;x", "\"scion=v1;", "scion-v1;", "",
];
const FOREIGN: [&str; 8] = [
    "v=spf1 include:_spf.example.com ~all", "", " ", "google-site-verification=abc123", "scion", "scion=", "scion=v1", "[19-ff00:0:110,192.0.2.1]",
];

/// one record text (bytes) and what it was meant to be
fn gen_record(r: &mut Rng, b6: &[u128]) -> Vec<u8> {
    let payload = gen_valid(r, "txt", b6);
    match r.below(12) {
        0..=4 => format!("scion=v1;{payload}").into_bytes(),
        5 => format!("scion=v1;{}", multi_edit(r, &payload)).into_bytes(),
        6 => format!("scion=v1;{}", random_edit(r, &payload)).into_bytes(),
        7 => format!("{}{payload}", r.pick(&PREFIX_VARIANTS)).into_bytes(),
        8 => r.pick(&FOREIGN).as_bytes().to_vec(),
        9 => {
            // not UTF-8: a stray byte, or a truncated multi-byte sequence
            let mut b = format!("scion=v1;{payload}").into_bytes();
            let i = r.below(b.len() as u64 + 1) as usize;
            match r.below(3) {
                0 => b.insert(i, *r.pick(&[0xffu8, 0xc0, 0x80, 0xfe, 0xed])),
                1 => { let t = "\u{2003}".as_bytes(); b.splice(i..i, t[..r.range(1, 2) as usize].iter().copied()); }
                _ => { if i < b.len() { b[i] |= 0x80; } else { b.push(0xe2); } }
            }
            b
        }
        10 => random_edit(r, &format!("scion=v1;{payload}")).into_bytes(),
        _ => multi_edit(r, &format!("scion=v1;{payload}")).into_bytes(),
    }
}
/// split a record text into character-strings
fn chunk(r: &mut Rng, b: &[u8]) -> RR {
    match r.below(7) {
        0 | 1 => vec![b.to_vec()],
        2 => { let i = r.below(b.len() as u64 + 1) as usize; vec![b[..i].to_vec(), b[i..].to_vec()] }
        3 => {
            // several pieces, some of them empty
            let mut cuts: Vec<usize> = (0..r.range(2, 5)).map(|_| r.below(b.len() as u64 + 1) as usize).collect();
            cuts.sort();
            let mut out = vec![];
            let mut last = 0;
            for c in cuts { out.push(b[last..c].to_vec()); last = c; }
            out.push(b[last..].to_vec());
            out
        }
        4 => b.chunks(255).map(|c| c.to_vec()).collect(), // as a DNS server splits a long text (empty text: no string)
        5 if b.len() <= 64 => b.iter().map(|x| vec![*x]).collect(),
        5 => b.chunks(r.range(1, 40) as usize).map(|c| c.to_vec()).collect(),
        _ => { let mut v = vec![vec![], b.to_vec(), vec![]]; if r.chance(1, 2) { v.remove(0); } v }
    }
}
fn rr1(s: &str) -> RR { vec![s.as_bytes().to_vec()] }

fn record_stream(cx: &mut Ctx, rng: &mut Rng, b6: &[u128], args: &Args) {
    let good = "scion=v1;[19-ff00:0:110,192.0.2.1]";
    let good2 = "scion=v1;[19-ff00:0:111,2001:db8::1] , [1-64512,10.0.0.1]";
    let bad = "scion=v1;[bad,192.0.2.2]";
    // ---- hand-written sets: every record class alone, before and after a valid record -------------------
    let mut singles: Vec<String> = vec![good.into(), good2.into(), bad.into(), "scion=v1;".into(), "scion=v1; ".into(), "scion=v1;[19-ff00:0:110,192.0.2.1],".into(),
        "scion=v1;[19-ff00:0:110,192.0.2.1]]".into(), "scion=v1;[[19-ff00:0:110,192.0.2.1]]".into(), "scion=v1;[19-ff00:0:110,192.0.2.1]x".into(),
        "scion=v1;x[19-ff00:0:110,192.0.2.1]".into(), "scion=v1;[19-ff00:0:110,CS]".into(), "scion=v1; [ 19-ff00:0:110 , 192.0.2.1 ] ".into(),
        "scion=v1;\u{2003}[19-ff00:0:110,192.0.2.1]\u{a0}".into(), "scion=v1;[19-ff00:0:110,192.0.2.1];[19-ff00:0:111,::1]".into(),
        "scion=v1;[19-ff00:0:110,192.0.2.1]scion=v1;[19-ff00:0:111,::1]".into(), "scion=v1;[19-ff00:0:110,192.0.2.1]\nscion=v1;[19-ff00:0:111,::1]".into()];
    for p in PREFIX_VARIANTS { singles.push(format!("{p}[19-ff00:0:110,192.0.2.1]")); }
    for f in FOREIGN { singles.push(f.to_string()); }
    check_records(cx, "boundary", &[]);
    check_records(cx, "boundary", &[vec![]]);
    check_records(cx, "boundary", &[vec![], rr1(good), vec![vec![]]]);
    for s in &singles {
        check_records(cx, "boundary", &[rr1(s)]);
        check_records(cx, "boundary", &[rr1(s), rr1(good2)]);
        check_records(cx, "boundary", &[rr1(good2), rr1(s)]);
        check_records(cx, "boundary", &[rr1(s), rr1(s)]);
        check_records(cx, "boundary", &[rr1(bad), rr1(s), rr1(good), rr1(s)]);
    }
    for nonutf8 in [vec![0xffu8], b"scion=v1;[19-ff00:0:110,192.0.2.1]\xff".to_vec(), b"\xffscion=v1;[19-ff00:0:110,192.0.2.1]".to_vec(), b"scion=v1;\xe2\x80".to_vec(), b"scion=v1;[19-ff00:0:110,192.0.2.1\xc0\xaf]".to_vec(),
        b"scion=v1;\xed\xa0\x80[19-ff00:0:110,192.0.2.1]".to_vec(), b"scion=v1;\xf4\x90\x80\x80".to_vec(), b"scion=v1;\xc2".to_vec()] {
        check_records(cx, "boundary", &[vec![nonutf8.clone()]]);
        check_records(cx, "boundary", &[vec![nonutf8.clone()], rr1(good)]);
        check_records(cx, "boundary", &[rr1(good), vec![nonutf8.clone()], rr1(bad)]);
        check_records(cx, "boundary", &[rr1(bad), vec![nonutf8.clone()]]);
    }
    // a multi-byte character split over two character-strings is one character of the record
    check_records(cx, "boundary", &[vec![b"scion=v1;\xe2\x80".to_vec(), b"\x83[19-ff00:0:110,192.0.2.1]".to_vec()]]);
    check_records(cx, "boundary", &[vec![b"scion=v1;\xe2\x80".to_vec()], vec![b"\x83[19-ff00:0:110,192.0.2.1]".to_vec()]]);
    // ---- long records: more than 255 bytes, split as a DNS server does, and at 255 exactly ----------------
    for n in [8usize, 9, 10, 11, 12, 30] {
        let payload = (0..n).map(|i| format!("[{}-ff00:0:{:x},2001:db8::{:x}]", i + 1, 0x110 + i, i + 1)).collect::<Vec<_>>().join(",");
        let rec = format!("scion=v1;{payload}").into_bytes();
        check_records(cx, "long", &[rec.chunks(255).map(|c| c.to_vec()).collect()]);
        check_records(cx, "long", &[vec![rec.clone()]]);
        let mut broken = rec.clone();
        broken.truncate(255);
        check_records(cx, "long", &[vec![broken.clone()], rr1(good)]);
        check_records(cx, "long", &[vec![broken], vec![rec[255.min(rec.len())..].to_vec()]]);
    }
    for pad in 0..3usize {
        // a record whose text is exactly 255 / 510 bytes (white space padding is part of the grammar)
        for total in [255usize, 510] {
            let base = format!("scion=v1;{}", "[19-ff00:0:110,192.0.2.1],".repeat(30));
            let mut t: String = base.chars().take(total - 26 - pad).collect();
            t = t.trim_end_matches(|c| c != ',').to_string();
            let mut rec = format!("{t}[19-ff00:0:110,192.0.2.1]");
            while rec.len() < total { rec.push(' '); }
            check_records(cx, "long", &[rec.as_bytes().chunks(255).map(|c| c.to_vec()).collect()]);
        }
    }
    // ---- every split position of a few records, alone and next to another record ---------------------------
    let n_split = args.scale(6, 60);
    for i in 0..n_split {
        let rec = match i { 0 => good.as_bytes().to_vec(), 1 => "scion=v1;\u{2003}[19-ff00:0:110 ,\u{a0}2001:db8::1]\u{85}".as_bytes().to_vec(), 2 => bad.as_bytes().to_vec(), _ => gen_record(rng, b6) };
        for cut in 0..=rec.len() {
            let rr = vec![rec[..cut].to_vec(), rec[cut..].to_vec()];
            check_records(cx, "split", &[rr.clone()]);
            if cut % 3 == 0 {
                // the same two character-strings as two separate records are two different texts
                check_records(cx, "split", &[vec![rec[..cut].to_vec()], vec![rec[cut..].to_vec()]]);
                check_records(cx, "split", &[rr1(bad), rr, rr1(good2)]);
            }
        }
    }
    // ---- random record sets -----------------------------------------------------------------------------------
    for _ in 0..args.scale(2500, 120000) {
        let n = match rng.below(10) { 0 => 0, 1..=3 => 1, 4..=6 => 2, 7 | 8 => 3, _ => rng.range(4, 6) } as usize;
        let mut rrs: Vec<RR> = vec![];
        for _ in 0..n {
            if !rrs.is_empty() && rng.chance(1, 6) {
                // duplicate of an earlier record (possibly split differently)
                let b = rng.pick(&rrs).concat();
                rrs.push(chunk(rng, &b));
            } else {
                let b = gen_record(rng, b6);
                rrs.push(chunk(rng, &b));
            }
        }
        check_records(cx, "random", &rrs);
    }
    // ---- values: every list of address lists, written as records, resolves to exactly those addresses ------
    for _ in 0..args.scale(400, 20000) {
        let n = rng.range(1, 4);
        let lists: Vec<Vec<(u64, H)>> = (0..n).map(|_| (0..rng.range(1, 3)).map(|_| (rnd_ia(rng), rnd_host(rng, b6, true))).collect()).collect();
        let mut rrs: Vec<RR> = vec![];
        for l in &lists {
            let d = l.iter().map(|(ia, h)| format!("[{}]", ScionAddr::new(IsdAsn(*ia), h.real()))).collect::<Vec<_>>().join(",");
            rrs.push(chunk(rng, format!("scion=v1;{d}").as_bytes()));
            if rng.chance(1, 4) { let f = *rng.pick(&FOREIGN); rrs.push(chunk(rng, f.as_bytes())); }
        }
        let want = format!("ok {}", lists.iter().flatten().map(|(ia, h)| format!("{ia} {}", h.canon())).collect::<Vec<_>>().join(";"));
        let io = impl_resolve(&rrs);
        if io != want {
            cx.rep.spec_fail(if io == "panic" { "C15:txtrec:panic" } else { "C15:txtrec:roundtrip" }, &format!("the records {:?} written for `{want}` resolve to `{io}`", rrs_lossy(&rrs)),
                json!({"kind": "txtrec", "records": rrs_lossy(&rrs), "line": rrs_line(&rrs)}));
        }
        check_records(cx, "value", &rrs);
    }
}

fn main() {
    let args = Args::parse();
    quiet_panics();
    let lean = Lean::spawn(&args.driver);
    let mut rng = Rng::new(args.seed);
    let rep = Report::new(
        "C15",
        "case = (kind, string) parsed by the real FromStr / TXT parser and by the Lean model, or (kind, value) displayed \
         by both and parsed back, or (txtrec, list of TXT resource records as lists of character-strings) resolved by the production \
         record level (hook verif_resolve_txt_rrs) and by the model. Streams: corpus; boundary (hand-written bracket/port/overflow/service/IP cases); \
         grammar (valid spellings with the documented alternatives); mutation (single insert/delete/replace edits of valid \
         forms over `[]:,-+_ 0-9a-fA-FxX<>.` and non-ASCII); short (all strings of length 0..3 over 12 characters, length 0..4 over the \
         service alphabet); multiedit (2-3 structure-aware edits of a valid form: doubled separators/brackets, nesting, swaps, drops); \
         txtrec-boundary/long/split/random/value (record sets: valid/invalid/foreign/wrong-version/non-UTF-8 records in every order, \
         duplicates, records split into character-strings at every position, 255-byte strings). Non-trivial = a value case, or a \
         string that is accepted, or a non-empty string from the grammar/mutation/multiedit/boundary streams (at most three edits away \
         from a valid form), or a record set with at least one record that carries the scion=v1; prefix; distinct by hash of \
         (kind, string) / of the record-set line",
    );
    let mut cx = Ctx { lean, rep };
    let b6 = v6_boundaries();

    // ---- corpus / replay: `<kind> <hex of utf8>` ----------------------------------------------------
    let lines = if let Some(p) = &args.replay {
        std::fs::read_to_string(p).expect("replay file").lines().map(|l| l.trim().to_string()).filter(|l| !l.is_empty() && !l.starts_with('#')).collect()
    } else {
        read_corpus(&args.corpus)
    };
    for l in &lines {
        let mut it = l.split_whitespace();
        let Some(k) = it.next() else { continue };
        if k == "txtrec" {
            match it.map(rr_from_token).collect::<Option<Vec<RR>>>() {
                Some(rrs) => check_records(&mut cx, "corpus", &rrs),
                None => cx.rep.notes.push(format!("bad record token in corpus line: {l}")),
            }
            continue;
        }
        let Some(hx) = it.next() else { cx.rep.notes.push(format!("unparseable corpus line: {l}")); continue };
        let Some(kind) = KINDS.iter().find(|x| **x == k) else { cx.rep.notes.push(format!("unknown kind in corpus: {k}")); continue };
        match unhex(hx).and_then(|b| String::from_utf8(b).ok()) {
            Some(s) => check_string(&mut cx, "corpus", kind, &s, true),
            None => cx.rep.notes.push(format!("bad hex in corpus line: {l}")),
        }
    }
    if args.replay.is_some() {
        cx.rep.write(&args.out);
        std::process::exit(if cx.rep.ok() { 0 } else { 1 });
    }

    // ---- primitives and constants of the model against Rust itself ----------------------------------
    {
        let rust_ws: Vec<String> = (0..=0x10FFFFu32).filter_map(char::from_u32).filter(|c| c.is_whitespace()).map(|c| (c as u32).to_string()).collect();
        let m = cx.lean.ask("wslist");
        cx.rep.case("prim wslist", true);
        if cx.lean.differs(&m, &rust_ws.join(" ")) {
            cx.rep.disagree("prim-whitespace", json!("char::is_whitespace over all scalar values"), &rust_ws.join(" "), &m);
        }
        for radix in [10u32, 16] {
            let rd: Vec<String> = (0..=0x10FFFFu32).filter_map(char::from_u32).filter_map(|c| c.to_digit(radix).map(|d| format!("{}:{d}", c as u32))).collect();
            let m = cx.lean.ask(&format!("digits {radix}"));
            cx.rep.case(&format!("prim digits {radix}"), true);
            if cx.lean.differs(&m, &rd.join(" ")) {
                cx.rep.disagree("prim-to_digit", json!({"radix": radix}), &rd.join(" "), &m);
            }
        }
        let tab = |t: &[(&str, u16)]| t.iter().map(|(n, v)| format!("{n}={v}")).collect::<Vec<_>>().join(",");
        // Display order (DS, CS, Wildcard) and FromStr order (CS, DS, Wildcard) as the translator extracts them
        let show = [("DS", ServiceAddr::DAEMON.0), ("CS", ServiceAddr::CONTROL.0), ("Wildcard", ServiceAddr::WILDCARD.0)];
        let parse = [("CS", ServiceAddr::CONTROL.0), ("DS", ServiceAddr::DAEMON.0), ("Wildcard", ServiceAddr::WILDCARD.0)];
        for (n, v) in show {
            if ServiceAddr(v).to_string() != n || ServiceAddr::from_str(n).ok() != Some(ServiceAddr(v)) {
                cx.rep.disagree("consts", json!({"service": n}), "name/value table of the harness does not match the code", "-");
            }
        }
        let rust_consts = format!(
            "ISD_BITS={} ASN_BITS={} ASN_MAX={} ASN_DISPLAY_DECIMAL_MAX={} ASN_PARSE_DECIMAL_MAX={} IA_BITS={} SVC_BITS={} SVC_MULTICAST_FLAG={} PORT_BITS={} SHOW={} PARSE={} TXT_PREFIX={} TXT_INVALID_UTF8_RAW={} TXT_UTF8_STRICT=1",
            Isd::BITS, Asn::BITS, Asn::MAX.0, u32::MAX, u32::MAX, IsdAsn::BITS, u16::BITS, ServiceAddr(0).to_multicast().0, u16::BITS, tab(&show), tab(&parse), "scion=v1;",
            // the raw text of a record that is not UTF-8, as the production code reports it
            match verif_resolve_txt_rrs(DOMAIN, &[vec![vec![0xff]]]) { Err(ResolveError::NoValidEntries { invalid_entries, .. }) if invalid_entries.len() == 1 => invalid_entries[0].raw().to_string(), o => format!("{o:?}") }
        );
        let m = cx.lean.ask("consts");
        cx.rep.case("prim consts", true);
        if cx.lean.differs(&m, &rust_consts) {
            cx.rep.disagree("consts", json!("generated constants vs the Rust API"), &rust_consts, &m);
        }
        // values outside the documented 48-bit range are constructible through the public tuple field only
        // (`new` masks, `new_checked` / `TryFrom` / `from_str` reject); they are outside the property's "every AS
        // value" and outside `asn_parse_show`'s hypothesis.  What the code does with them is recorded, not judged.
        {
            let big = Asn(1 << 48);
            let d = big.to_string();
            let back = impl_parse("asn", &d);
            cx.rep.notes.push(format!(
                "out-of-range Asn(1<<48) (public tuple field; Asn::new_checked(1<<48) = {:?}) displays as {d:?}, which parses to `{back}`",
                Asn::new_checked(1 << 48).map(|a| a.0)
            ));
            cx.rep.hit("prim out-of-range asn recorded");
        }
        if Ipv4Addr::from_str("").is_ok() || Ipv6Addr::from_str("").is_ok() {
            cx.rep.spec_fail("C15:codec-hypothesis", "std reads the empty text as an IP address", json!({"string": ""}));
        }
        // the TXT prefix is only visible through behaviour: the record stream below runs the production record level
        cx.rep.hit("prim checks");
    }

    // ---- values -------------------------------------------------------------------------------------
    let mut vals: Vec<Val> = vec![];
    for v in ISD_B { vals.push(Val::Isd(v)); }
    for v in ASN_B { vals.push(Val::Asn(v)); }
    for i in ISD_B { for a in ASN_B { vals.push(Val::Ia(((i as u64) << 48) | a)); } }
    vals.push(Val::Ia(u64::MAX));
    // every service value
    for v in 0..=0xffffu32 { vals.push(Val::Svc(v as u16)); }
    for v in V4_B { vals.push(Val::Ip4(v)); vals.push(Val::Host(H::V4(v))); }
    for v in &b6 { vals.push(Val::Ip6(*v)); vals.push(Val::Host(H::V6(*v))); }
    for v in SVC_B { vals.push(Val::Host(H::Svc(v))); }
    for (n, ia) in [0u64, u64::MAX, 0x0001_ff00_0000_0110, 0x0013_0000_0000_0001, 0xffff_0000_ffff_ffff].iter().enumerate() {
        for h in V4_B.iter().map(|a| H::V4(*a)).chain(b6.iter().map(|a| H::V6(*a))).chain(SVC_B.iter().map(|a| H::Svc(*a))) {
            vals.push(Val::Addr(*ia, h));
            vals.push(Val::Sock(*ia, h, PORT_B[n % PORT_B.len()]));
        }
    }
    for p in PORT_B { vals.push(Val::Sock(0x0001_ff00_0000_0110, H::V4(0x0a000001), p)); }
    let nrand = args.scale(1500, 60000);
    for _ in 0..nrand {
        vals.push(Val::Isd(rnd_isd(&mut rng)));
        vals.push(Val::Asn(rnd_asn(&mut rng)));
        vals.push(Val::Ia(rnd_ia(&mut rng)));
        vals.push(Val::Ip4(rnd_v4(&mut rng)));
        vals.push(Val::Ip6(rnd_v6(&mut rng, &b6)));
        let h = rnd_host(&mut rng, &b6, false);
        vals.push(Val::Host(h));
        let h = rnd_host(&mut rng, &b6, false);
        vals.push(Val::Addr(rnd_ia(&mut rng), h));
        let h = rnd_host(&mut rng, &b6, false);
        vals.push(Val::Sock(rnd_ia(&mut rng), h, rnd_port(&mut rng)));
        let n = rng.range(1, 4);
        vals.push(Val::Txt((0..n).map(|_| (rnd_ia(&mut rng), rnd_host(&mut rng, &b6, true))).collect()));
    }
    for v in &vals {
        check_value(&mut cx, v);
    }

    // ---- boundary strings ---------------------------------------------------------------------------
    for (k, s) in boundary_strings() {
        check_string(&mut cx, "boundary", k, &s, true);
    }

    // ---- DNS TXT record level --------------------------------------------------------------------------------
    record_stream(&mut cx, &mut rng, &b6, &args);

    // ---- all short strings --------------------------------------------------------------------------
    let alpha: Vec<char> = "01a:,-+[]._é".chars().collect();
    assert_eq!(alpha.len(), 12);
    let mut shorts: Vec<String> = vec![String::new()];
    let mut layer: Vec<String> = vec![String::new()];
    for _ in 0..3 {
        let mut next = vec![];
        for p in &layer { for c in &alpha { let mut t = p.clone(); t.push(*c); next.push(t); } }
        shorts.extend(next.iter().cloned());
        layer = next;
    }
    for k in KINDS {
        for s in &shorts { check_string(&mut cx, "short", k, s, false); }
    }
    let salpha: Vec<char> = "CSD_AM".chars().collect();
    let mut layer: Vec<String> = vec![String::new()];
    for _ in 0..4 {
        let mut next = vec![];
        for p in &layer { for c in &salpha { let mut t = p.clone(); t.push(*c); next.push(t); } }
        for s in &next { for k in ["svc", "host"] { check_string(&mut cx, "short", k, s, false); } }
        layer = next;
    }
    cx.rep.exhaustive = true; // the short-string scopes above are complete enumerations

    // ---- grammar-derived valid spellings and their single edits ---------------------------------------
    let n_valid = args.scale(120, 1500);
    let n_edits = args.scale(25, 0); // 0 = all single edits (thorough)
    for k in KINDS {
        for i in 0..n_valid {
            let base = if i % 3 == 0 {
                // displayed form of a random value
                let v = match k {
                    "isd" => Val::Isd(rnd_isd(&mut rng)), "asn" => Val::Asn(rnd_asn(&mut rng)), "ia" => Val::Ia(rnd_ia(&mut rng)),
                    "svc" => Val::Svc(rnd_svc(&mut rng)), "ip4" => Val::Ip4(rnd_v4(&mut rng)), "ip6" => Val::Ip6(rnd_v6(&mut rng, &b6)),
                    _ => Val::Isd(0),
                };
                match v { Val::Isd(0) if k != "isd" => gen_valid(&mut rng, k, &b6), v => v.views()[0].3.clone() }
            } else {
                gen_valid(&mut rng, k, &b6)
            };
            check_string(&mut cx, "grammar", k, &base, true);
            if !impl_parse(k, &base).starts_with("ok") {
                cx.rep.spec_fail(&format!("C15:{k}:rejects-valid-spelling"), &format!("grammar-derived spelling {base:?} is rejected"), json!({"kind": k, "string": base}));
            }
            if n_edits == 0 && i < 60 {
                for e in all_single_edits(&base) { check_string(&mut cx, "mutation", k, &e, true); }
            } else {
                for _ in 0..n_edits.max(25) { let e = random_edit(&mut rng, &base); check_string(&mut cx, "mutation", k, &e, true); }
            }
        }
    }
    // ---- mutants two or three edits away from a valid form (doubled separators / brackets, nesting, swaps) -----
    for k in KINDS {
        for _ in 0..args.scale(400, 20000) {
            let base = gen_valid(&mut rng, k, &b6);
            let e = multi_edit(&mut rng, &base);
            check_string(&mut cx, "multiedit", k, &e, true);
        }
    }

    cx.rep.traces = cx.rep.evaluations;
    cx.rep.notes.push(format!("driver requests: {}", cx.lean.requests));
    cx.rep.write(&args.out);
    std::process::exit(if cx.rep.ok() { 0 } else { 1 });
}
