//! C18 — correspondence + spec oracle for `sciparse::scion::{signed_message, segment, segment::rpc, path}`.
//!
//! Streams (every random choice from the one `Rng`):
//!  * `msg`   plain `SignedMessage`: sign (all digests, key ids, metadata, chunked associated data, lengths up
//!            to and beyond `i32::MAX`), validate / decode_validated with the same / other associated data,
//!            other keys, all single-bit flips of `header_and_body` and `signature`;
//!  * `seg`   signed path segments with 1..=5 entries and peer entries, real P-256 keys; tampered variants are
//!            built in the RPC form and converted back (that is how a verifier gets them): all single-bit flips
//!            of every signed blob (exhaustive for some segments, sampled for the rest), entry permutations,
//!            truncations, extensions (replayed and foreign entries), key substitutions, chunk-boundary shifts;
//!  * `segrpc` arbitrary `control_plane::v1::PathSegment` messages (ranges beyond 16 bits, missing fields, wrong
//!            MAC lengths, undecodable blobs);
//!  * `pathrpc` arbitrary `daemon::v1::Path` messages (ditto + inconsistent metadata vector lengths, wildcard /
//!            equal / different source and destination, valid / truncated / over-long raw paths) and `to_rpc` of
//!            the results and of directly constructed paths.
//!
//! Compared with the Lean model (`drv_signed`): verdict and error class of every validation (the model gets
//! the prost decodings and the P-256 verdicts, computed here with `prost`/`p256`/`sha2` directly, as oracle
//! tokens and decides check order, casts and the associated data itself), canonical `Ok(value)` / `Err class`
//! / `panic` of every conversion, the message `to_rpc` produces.
//!
//! Spec oracle (independent of the model, evaluated on the implementation):
//!  * an entry is accepted **iff** its (`header_and_body`, `signature`) pair is one the honest signer produced,
//!    the bytes `info ‖ (hb, sig) of all preceding entries` equal the bytes it was signed over, and the key
//!    offered is the signer's — anything else (flip, reorder, truncation, extension, other key) ⇒ rejected;
//!  * `try_from_rpc(into_rpc(v)) == v` for segments and paths; conversions never panic.
use std::collections::HashMap;

use p256::ecdsa::{
    Signature, SigningKey, VerifyingKey,
    signature::hazmat::PrehashVerifier,
};
use prost::Message;
use sciparse::{
    core::view::View,
    dataplane_path::standard::{types::HopFieldMac, view::StandardPathView},
    identifier::isd_asn::IsdAsn,
    path::{
        ScionPath,
        metadata::{
            InterfaceMetadata, PathMetadata,
            epic::EpicAuths,
            geo::GeoCoordinates,
            link::{LinkMeta, LinkType},
            path_interface::PathInterface,
        },
    },
    reexport::{prost_types, protobuf as pb},
    rpc::FromRpcError,
    segment::{
        AsEntry, EntryKeyInfo, HopEntry, PeerEntry, SegmentHopField, SignedAsEntry, SignedPathSegment,
        UnsignedPathSegment,
    },
    signed_message::{DigestAlgorithm, SignedMessage, ValidateError},
};
use serde_json::json;
use sha2::Digest;
use verif_harness::*;

type KeyId = pb::control_plane::v1::VerificationKeyId;

// ------------------------------------------------------------------------------------------------
// labels

fn verr_label(e: &ValidateError) -> String {
    match e {
        ValidateError::InvalidHeaderAndBody => "invalid_header_and_body".into(),
        ValidateError::InvalidHeader => "invalid_header".into(),
        ValidateError::InvalidValidationKeyId => "invalid_validation_key_id".into(),
        ValidateError::InvalidAssociatedDataLength { expected, actual } => format!("ad_len {expected} {actual}"),
        ValidateError::InvalidDigestAlgorithm => "invalid_digest_algorithm".into(),
        ValidateError::InvalidBody => "invalid_body".into(),
        ValidateError::InvalidMetadata => "invalid_metadata".into(),
        ValidateError::KeyMissing(_) => "key_missing".into(),
        ValidateError::SignatureMalformed => "signature_malformed".into(),
        ValidateError::SignatureVerificationFailed(_) => "verification_failed".into(),
    }
}

fn rerr_label(e: &FromRpcError) -> String {
    let m = e.message.as_ref();
    let table: &[(&str, &str)] = &[
        ("Invalid MAC length in HopField", "mac_len"),
        ("Exp Time in HopField", "exp_time"),
        ("Ingress in HopField", "hf_ingress"),
        ("Egress in HopField", "hf_egress"),
        ("Ingress MTU in HopEntry", "ingress_mtu"),
        ("Missing hop field in HopEntry", "missing_hop_field"),
        ("Peer interface in PeerEntry", "peer_interface"),
        ("Peer MTU in PeerEntry", "peer_mtu"),
        ("Missing Hop Field in Peer Entry", "missing_peer_hop_field"),
        ("Missing Signed Message", "missing_signed"),
        ("Failed to decode Signed Header and Body", "decode_hb"),
        ("Failed to decode AsEntrySignedBody", "decode_body"),
        ("missing Hop Entry", "missing_hop_entry"),
        ("Failed to decode segment info", "decode_info"),
        ("Timestamp is not a valid u32", "timestamp"),
        ("Segment ID is not a valid u16", "segment_id"),
        ("cannot create empty path with wildcard", "wildcard_empty"),
        ("RPC payload had an empty path", "empty_path"),
        ("failed to parse standard path from RPC", "raw_parse"),
        ("RPC payload had extra data", "raw_extra"),
        ("failed to parse next hop address", "next_hop_parse"),
        ("RPC payload had invalid number of interfaces", "iface_count"),
        ("interface_id exceeds u16 range", "iface_id"),
        ("RPC payload missing expiration", "missing_expiration"),
        ("RPC MTU does not fit in u16", "mtu"),
    ];
    for (p, l) in table {
        if m.starts_with(p) {
            return (*l).into();
        }
    }
    format!("unknown:{m}")
}

// ------------------------------------------------------------------------------------------------
// keys and the key provider

fn gen_key(rng: &mut Rng) -> SigningKey {
    loop {
        if let Ok(k) = SigningKey::from_slice(&rng.bytes(32)) {
            return k;
        }
    }
}

#[derive(Clone)]
struct KeyTable {
    /// (isd_as, subject key id) -> key
    by_id: HashMap<(u64, Vec<u8>), VerifyingKey>,
    /// used when the header carries no key id
    by_local: HashMap<u64, VerifyingKey>,
}

/// what the key provider answers for a header key id
#[derive(Clone, Copy)]
enum Kp {
    Ok(VerifyingKey),
    Missing,
    BadId,
}
impl Kp {
    fn tok(&self) -> &'static str {
        match self {
            Kp::Ok(_) => "ok",
            Kp::Missing => "missing",
            Kp::BadId => "badid",
        }
    }
    fn result(&self) -> Result<VerifyingKey, ValidateError> {
        match self {
            Kp::Ok(k) => Ok(*k),
            Kp::Missing => Err(ValidateError::KeyMissing("no such key".into())),
            Kp::BadId => Err(ValidateError::InvalidValidationKeyId),
        }
    }
}
impl KeyTable {
    fn resolve(&self, key_id: &[u8], local: u64) -> Kp {
        if key_id.is_empty() {
            return self.by_local.get(&local).map(|k| Kp::Ok(*k)).unwrap_or(Kp::Missing);
        }
        match KeyId::decode(key_id) {
            Err(_) => Kp::BadId,
            Ok(id) => self.by_id.get(&(id.isd_as, id.subject_key_id)).map(|k| Kp::Ok(*k)).unwrap_or(Kp::Missing),
        }
    }
}

// ------------------------------------------------------------------------------------------------
// oracles computed with prost / p256 / sha2 directly

fn hash_concat(alg: i32, parts: &[&[u8]]) -> Option<Vec<u8>> {
    fn h<D: Digest>(parts: &[&[u8]]) -> Vec<u8> {
        let mut d = D::new();
        for p in parts {
            d.update(p);
        }
        d.finalize().to_vec()
    }
    match alg {
        1 => Some(h::<sha2::Sha256>(parts)),
        2 => Some(h::<sha2::Sha384>(parts)),
        3 => Some(h::<sha2::Sha512>(parts)),
        _ => None,
    }
}

/// the scheme's verdict on `concat(parts)` (false when the digest is unknown or the signature is not DER)
fn verify_oracle(pk: &VerifyingKey, alg: i32, parts: &[&[u8]], sig: &[u8]) -> bool {
    let Some(hash) = hash_concat(alg, parts) else { return false };
    let Ok(sig) = Signature::from_der(sig) else { return false };
    pk.verify_prehash(&hash, &sig).is_ok()
}

struct Decoded {
    hb: Option<pb::crypto::v1::HeaderAndBodyInternal>,
    hdr: Option<pb::crypto::v1::Header>,
}
fn decode_msg(hb: &[u8]) -> Decoded {
    let d = pb::crypto::v1::HeaderAndBodyInternal::decode(hb).ok();
    let hdr = d.as_ref().and_then(|d| pb::crypto::v1::Header::decode(&d.header[..]).ok());
    Decoded { hb: d, hdr }
}
impl Decoded {
    fn tok_hb(&self) -> String {
        match &self.hb {
            None => "H0".into(),
            Some(d) => format!("H1 {} {}", hex(&d.header), hex(&d.body)),
        }
    }
    fn tok_hdr(&self) -> String {
        match &self.hdr {
            None => "D0".into(),
            Some(h) => format!(
                "D1 {} {} {} {}",
                h.signature_algorithm,
                hex(&h.verification_key_id),
                h.associated_data_length,
                hex(&h.metadata)
            ),
        }
    }
}

// ------------------------------------------------------------------------------------------------
// generators of domain values

const IA_BASE: u64 = 0x0001_ff00_0000_0100;

fn gen_hop_field(rng: &mut Rng) -> SegmentHopField {
    let edge = [0u16, 1, 2, 255, 256, 65534, 65535];
    let pick16 = |rng: &mut Rng| if rng.chance(1, 3) { *rng.pick(&edge) } else { rng.next() as u16 };
    SegmentHopField {
        expiration_units: if rng.chance(1, 4) { *rng.pick(&[0u8, 1, 63, 255]) } else { rng.next() as u8 },
        cons_ingress: pick16(rng),
        cons_egress: pick16(rng),
        mac: HopFieldMac(rng.bytes(6).try_into().unwrap()),
    }
}

fn gen_entry(rng: &mut Rng, idx: u64) -> AsEntry {
    // `idx` already contains the per-segment offset
    let npeers = *rng.pick(&[0usize, 0, 1, 1, 2, 3]);
    AsEntry {
        local: IsdAsn::from(IA_BASE + idx),
        next: IsdAsn::from(if rng.chance(1, 8) { 0 } else { IA_BASE + idx + 1 }),
        mtu: if rng.chance(1, 4) { *rng.pick(&[0u32, 1280, 65535, 65536, u32::MAX]) } else { rng.range(1000, 9000) as u32 },
        hop_entry: HopEntry {
            ingress_mtu: if rng.chance(1, 4) { *rng.pick(&[0u16, 1, 65535]) } else { rng.range(1000, 9000) as u16 },
            hop_field: gen_hop_field(rng),
        },
        peer_entries: (0..npeers)
            .map(|_| PeerEntry {
                peer: IsdAsn::from(if rng.chance(1, 6) { rng.next() } else { IA_BASE + 0x1000 + rng.below(50) }),
                peer_interface: if rng.chance(1, 3) { *rng.pick(&[0u16, 65535]) } else { rng.next() as u16 },
                peer_mtu: if rng.chance(1, 3) { *rng.pick(&[0u16, 65535]) } else { rng.range(1000, 9000) as u16 },
                hop_field: gen_hop_field(rng),
            })
            .collect(),
        extensions: vec![],
        unsigned_extensions: vec![],
    }
}

struct Honest {
    /// the segment as the verifier holds it (built in-process, or converted from `rpc`)
    seg: SignedPathSegment,
    /// the segment as the signer sends it (its `segment_info` are the bytes the signer hashed)
    rpc: RpcSeg,
    /// what the signer signed: per entry (hb, sig, bytes of `info ‖ preceding chunks`, key)
    set: SignedSet,
    keys: Vec<SigningKey>,
    table: KeyTable,
    with_key_ids: bool,
}
impl Honest {
    /// a segment signed in-process by the repo's own signing code
    fn of_built(seg: SignedPathSegment, keys: Vec<SigningKey>, table: KeyTable, with_key_ids: bool) -> Honest {
        let set = signed_set(&seg, &keys);
        let mut rpc = seg.clone().into_rpc();
        // the signer hashed `info.encoded`; that is what it must send
        rpc.segment_info = seg.info().encoded.clone();
        Honest { seg, rpc, set, keys, table, with_key_ids }
    }
    fn var(&self) -> Var {
        Var { seg: self.seg.clone(), raw_info: self.rpc.segment_info.clone() }
    }
}

fn key_id_for(local: u64, idx: usize) -> KeyId {
    KeyId { isd_as: local, subject_key_id: vec![0xA0 + idx as u8, idx as u8], trc_base: 1, trc_serial: 2 }
}

fn gen_honest(rng: &mut Rng, n: usize, ia_off: u64) -> Honest {
    let entries: Vec<AsEntry> = (0..n).map(|i| gen_entry(rng, ia_off + i as u64)).collect();
    let with_key_ids = rng.chance(3, 4);
    let mac_update = rng.chance(1, 2);
    build_honest(rng, entries, with_key_ids, mac_update)
}

/// Sign `entries` with the repo's own signing code.  One key per *AS* (entries sharing a local ISD-AS share
/// the key and the key id of the first of them – the signing API resolves keys by ISD-AS).
fn build_honest(rng: &mut Rng, entries: Vec<AsEntry>, with_key_ids: bool, mac_update: bool) -> Honest {
    build_honest_at(rng, entries, with_key_ids, mac_update, None)
}

/// as `build_honest`, with the segment's (timestamp, segment id) given (`None`: drawn, boundary values 1 in 5)
fn build_honest_at(rng: &mut Rng, entries: Vec<AsEntry>, with_key_ids: bool, mac_update: bool, info: Option<(u32, u16)>) -> Honest {
    let n = entries.len();
    let owner: Vec<usize> = (0..n).map(|i| (0..=i).find(|&j| entries[j].local == entries[i].local).unwrap()).collect();
    let own_keys: Vec<SigningKey> = (0..n).map(|_| gen_key(rng)).collect();
    let keys: Vec<SigningKey> = (0..n).map(|i| own_keys[owner[i]].clone()).collect();
    let mut table = KeyTable { by_id: HashMap::new(), by_local: HashMap::new() };
    let mut by_ia: HashMap<u64, usize> = HashMap::new();
    for (i, e) in entries.iter().enumerate() {
        let id = key_id_for(e.local.to_u64(), owner[i]);
        table.by_id.insert((id.isd_as, id.subject_key_id), *keys[i].verifying_key());
        table.by_local.insert(e.local.to_u64(), *keys[i].verifying_key());
        by_ia.entry(e.local.to_u64()).or_insert(owner[i]);
    }
    let ts = if rng.chance(1, 5) { *rng.pick(&[0u32, 1, u32::MAX]) } else { rng.next() as u32 };
    let seg_id = if rng.chance(1, 5) { *rng.pick(&[0u16, 65535]) } else { rng.next() as u16 };
    let (ts, seg_id) = info.unwrap_or((ts, seg_id));
    let sig_ts = rng.next() as u32;
    let idx_of = |ia: IsdAsn| by_ia[&ia.to_u64()];
    let seg = if !mac_update {
        UnsignedPathSegment::new(ts, seg_id, entries)
            .try_into_signed_segment(
                |ia| {
                    let i = idx_of(ia);
                    Some((keys[i].clone(), with_key_ids.then(|| key_id_for(ia.to_u64(), i))))
                },
                sig_ts,
            )
            .expect("signing")
    } else {
        let mac_key: [u8; 16] = rng.bytes(16).try_into().unwrap();
        SignedPathSegment::new(ts, seg_id, entries, |ia| {
            let i = idx_of(ia);
            Some(EntryKeyInfo { key: keys[i].clone(), key_id: with_key_ids.then(|| key_id_for(ia.to_u64(), i)), mac_key })
        })
        .expect("signing")
    };
    Honest::of_built(seg, keys, table, with_key_ids)
}

/// entries of a segment that traverses one AS twice: positions `k1 < k2` share the local ISD-AS
/// (`equal_entries`: the whole `AsEntry` is repeated, otherwise only the AS, with different interfaces)
fn gen_repeated_entries(rng: &mut Rng, n: usize, equal_entries: bool) -> (Vec<AsEntry>, usize, usize) {
    let mut entries: Vec<AsEntry> = (0..n).map(|i| gen_entry(rng, 200 + i as u64)).collect();
    let k1 = rng.below((n - 2) as u64) as usize;
    let k2 = rng.range(k1 as u64 + 2, n as u64 - 1) as usize;
    if equal_entries {
        entries[k2] = entries[k1].clone();
    } else {
        entries[k2].local = entries[k1].local;
        if entries[k2] == entries[k1] {
            entries[k2].hop_entry.hop_field.cons_ingress ^= 1;
        }
    }
    (entries, k1, k2)
}

/// protobuf encodings of `SegmentInformation { timestamp, segment_id }` that every protobuf decoder reads as
/// the same message: the canonical one (what `SegmentInfo::new` / prost / Go produce) and equivalent
/// non-canonical ones (unknown field, other field order, non-minimal varint, explicit zero, duplicated field)
fn info_encodings(ts: u32, seg_id: u16) -> Vec<(&'static str, Vec<u8>)> {
    use prost::encoding::encode_varint;
    let canon = sciparse::segment::SegmentInfo::new(ts, seg_id).encoded;
    let f = |tag: u8, v: u64| {
        let mut b = vec![tag];
        encode_varint(v, &mut b);
        b
    };
    let (f1, f2) = (f(0x08, ts as u64), f(0x10, seg_id as u64));
    let mut padded = f(0x08, ts as u64);
    *padded.last_mut().unwrap() |= 0x80;
    padded.push(0x00);
    vec![
        ("canonical", canon.clone()),
        ("unknown varint field 3 appended", [canon.clone(), vec![0x18, 0x00]].concat()),
        ("unknown bytes field 3 prepended", [vec![0x1a, 0x01, 0x41], canon.clone()].concat()),
        ("fields in the order 2, 1 (zero values written)", [f2.clone(), f1.clone()].concat()),
        ("non-minimal varint timestamp", [padded, f2.clone()].concat()),
        ("timestamp field twice (last wins)", [f(0x08, ts as u64 ^ 1), f1.clone(), f2.clone()].concat()),
        ("explicit values incl. zeros, fields 1, 2", [f1, f2].concat()),
    ]
}

/// A segment signed *by position* with `SignedMessage::sign` directly – what a conforming implementation
/// (e.g. the Go control service) produces: entry i is signed over `info ‖ (hb, sig) of entries 0..i-1`, where
/// `info` are the segment-info bytes the signer sends (`info_bytes`; canonical when `None`).
/// The verifier's value is obtained from the RPC form.
fn reference_signed(rng: &mut Rng, entries: &[AsEntry], ts: u32, seg_id: u16, info_bytes: Option<Vec<u8>>) -> Option<Honest> {
    reference_signed_x(rng, entries, ts, seg_id, info_bytes).ok()
}

/// what the receiver did with a positionally signed segment that it could not turn into a value
struct RefFail {
    why: String,
    /// the message as sent, with the public key of every position (None: the signing itself failed)
    sent: Option<(RpcSeg, Vec<VerifyingKey>)>,
}
impl RefFail {
    fn case(&self, ts: u32, seg_id: u16) -> serde_json::Value {
        match &self.sent {
            None => json!({"why": self.why, "timestamp": ts, "segment_id": seg_id}),
            Some((rpc, keys)) => {
                let enc = hex(&rpc.encode_to_vec());
                let ks = keys.iter().map(|k| hex(k.to_encoded_point(true).as_bytes())).collect::<Vec<_>>();
                json!({"why": self.why, "timestamp": ts, "segment_id": seg_id, "segment_info_sent": hex(&rpc.segment_info),
                       "entries": rpc.as_entries.len(), "rpc": enc, "keys": ks,
                       "line": format!("seg-expect-case accept {} {}", enc, ks.join(" "))})
            }
        }
    }
}

fn reference_signed_x(rng: &mut Rng, entries: &[AsEntry], ts: u32, seg_id: u16, info_bytes: Option<Vec<u8>>) -> Result<Honest, RefFail> {
    let r = reference_signed_msg(rng, entries, ts, seg_id, info_bytes).ok_or(RefFail { why: "signing failed".into(), sent: None })?;
    let (rpc, items, keys, table) = r;
    let sent = || Some((rpc.clone(), keys.iter().map(|k| *k.verifying_key()).collect::<Vec<_>>()));
    match from_rpc_seg(rpc.clone()) {
        Ok(Ok(seg)) => Ok(Honest { seg, rpc, set: SignedSet { items }, keys, table, with_key_ids: true }),
        Ok(Err(e)) => Err(RefFail { why: format!("try_from_rpc: {e}"), sent: sent() }),
        Err(m) => Err(RefFail { why: format!("try_from_rpc panicked: {m}"), sent: sent() }),
    }
}

#[allow(clippy::type_complexity)]
fn reference_signed_msg(rng: &mut Rng, entries: &[AsEntry], ts: u32, seg_id: u16, info_bytes: Option<Vec<u8>>) -> Option<(RpcSeg, Vec<(Vec<u8>, Vec<u8>, Vec<u8>, VerifyingKey)>, Vec<SigningKey>, KeyTable)> {
    let n = entries.len();
    let owner: Vec<usize> = (0..n).map(|i| (0..=i).find(|&j| entries[j].local == entries[i].local).unwrap()).collect();
    let own_keys: Vec<SigningKey> = (0..n).map(|_| gen_key(rng)).collect();
    let keys: Vec<SigningKey> = (0..n).map(|i| own_keys[owner[i]].clone()).collect();
    let info = info_bytes.unwrap_or_else(|| sciparse::segment::SegmentInfo::new(ts, seg_id).encoded);
    let mut table = KeyTable { by_id: HashMap::new(), by_local: HashMap::new() };
    let mut rpc = RpcSeg { segment_info: info.clone(), as_entries: vec![] };
    let mut items = vec![];
    let mut ad: Vec<u8> = info.clone();
    for (i, e) in entries.iter().enumerate() {
        // the body the repo would sign for this entry (taken from a one-entry segment signed by the repo)
        let one = UnsignedPathSegment::new(ts, seg_id, vec![e.clone()]).try_into_signed_segment(|_| Some((keys[i].clone(), None)), 0).ok()?;
        let hb = pb::crypto::v1::HeaderAndBodyInternal::decode(one.as_entries[0].signature().header_and_body.as_slice()).ok()?;
        let body = RpcBody::decode(hb.body.as_slice()).ok()?;
        let id = key_id_for(e.local.to_u64(), owner[i]);
        table.by_id.insert((id.isd_as, id.subject_key_id.clone()), *keys[i].verifying_key());
        table.by_local.insert(e.local.to_u64(), *keys[i].verifying_key());
        let sm = SignedMessage::sign(&keys[i], DigestAlgorithm::Sha256, ts, Some(id), (ad.len(), std::iter::once(ad.as_slice())), &body, &()).ok()?;
        items.push((sm.header_and_body.clone(), sm.signature.clone(), ad.clone(), *keys[i].verifying_key()));
        ad.extend_from_slice(&sm.header_and_body);
        ad.extend_from_slice(&sm.signature);
        rpc.as_entries.push(pb::control_plane::v1::AsEntry { signed: Some(sm.into_rpc()), unsigned: None });
    }
    Some((rpc, items, keys, table))
}

// ------------------------------------------------------------------------------------------------
// validation of one entry: implementation, model, spec oracle

/// equality classes of the `AsEntry` values of a segment (what `take_while(e.entry != *self)` looks at)
fn entry_classes(seg: &SignedPathSegment) -> Vec<usize> {
    let mut cls: Vec<usize> = vec![];
    for (i, e) in seg.as_entries.iter().enumerate() {
        let c = (0..i).find(|&j| seg.as_entries[j].entry() == e.entry()).map(|j| cls[j]).unwrap_or(i);
        cls.push(c);
    }
    cls
}

/// position of the first entry whose `AsEntry` equals that of entry `j`
fn cls_first(seg: &SignedPathSegment, j: usize) -> usize {
    entry_classes(seg)[j]
}

fn prefix_parts<'a>(seg: &'a SignedPathSegment, hb: &'a [u8], k: usize) -> Vec<&'a [u8]> {
    let mut parts: Vec<&[u8]> = vec![hb, seg.info().encoded.as_slice()];
    for e in &seg.as_entries[..k] {
        parts.push(e.signature().header_and_body.as_slice());
        parts.push(e.signature().signature.as_slice());
    }
    parts
}

struct EntryVerdict {
    imp: String,
    model: Option<String>,
    model_idx: Option<String>,
}

/// `subst`: key offered instead of the resolved one (key substitution)
fn validate_entry(
    seg: &SignedPathSegment,
    i: usize,
    table: &KeyTable,
    subst: Option<&VerifyingKey>,
    lean: Option<&mut Lean>,
    rep: &mut Report,
) -> EntryVerdict {
    let e = &seg.as_entries[i];
    let local = e.local.to_u64();
    let resolve = |kid: &[u8]| -> Kp {
        match (table.resolve(kid, local), subst) {
            (Kp::Ok(_), Some(k)) => Kp::Ok(*k),
            (r, _) => r,
        }
    };
    let r = catch(|| e.validate_signature(|kid| resolve(kid).result(), seg));
    let imp = match &r {
        Err(_) => "panic".to_string(),
        Ok(Ok(())) => "ok".to_string(),
        Ok(Err(err)) => format!("err {}", verr_label(err)),
    };
    rep.hit(&format!("validate_signature -> {}", imp.split(' ').take(2).collect::<Vec<_>>().join(" ").replace(|c: char| c.is_ascii_digit(), "")));
    let mut out = EntryVerdict { imp, model: None, model_idx: None };
    if let Some(lean) = lean {
        let sm = e.signature();
        let dec = decode_msg(&sm.header_and_body);
        let kp = dec.hdr.as_ref().map(|h| resolve(&h.verification_key_id)).unwrap_or(Kp::Missing);
        let wf = Signature::from_der(&sm.signature).is_ok();
        let cls = entry_classes(seg);
        let n = seg.as_entries.len();
        let mut bits: Vec<Option<bool>> = vec![None; n + 1];
        let req = |bits: &Vec<Option<bool>>| {
            let mut s = format!("ent {} {} {}", hex(&seg.info().encoded), i, n);
            for (j, x) in seg.as_entries.iter().enumerate() {
                s.push_str(&format!(" {} {} {}", cls[j], hex(&x.signature().header_and_body), hex(&x.signature().signature)));
            }
            s.push_str(&format!(" {} {} {} {}", dec.tok_hb(), dec.tok_hdr(), kp.tok(), wf as u8));
            for b in bits {
                s.push_str(match b {
                    None => " ?",
                    Some(true) => " 1",
                    Some(false) => " 0",
                });
            }
            s
        };
        let mut ans = lean.ask(&req(&bits));
        if let Some(rest) = ans.strip_prefix("need ") {
            let ks: Vec<usize> = rest.split(' ').filter_map(|x| x.parse().ok()).collect();
            for k in ks {
                if k <= n {
                    let v = match (&kp, &dec.hdr) {
                        (Kp::Ok(pk), Some(h)) => {
                            verify_oracle(pk, h.signature_algorithm, &prefix_parts(seg, &sm.header_and_body, k), &sm.signature)
                        }
                        _ => false,
                    };
                    bits[k] = Some(v);
                }
            }
            ans = lean.ask(&req(&bits));
        }
        // "tw K TOTAL verdict | idx K TOTAL verdict"
        let mut halves = ans.split(" | ");
        let strip = |h: Option<&str>| -> Option<String> {
            let h = h?;
            let mut it = h.splitn(4, ' ');
            it.next()?;
            it.next()?;
            it.next()?;
            Some(it.next()?.to_string())
        };
        out.model = strip(halves.next()).or(Some(ans.clone()));
        out.model_idx = strip(halves.next());
    }
    out
}

/// the honest signer's view: which (hb, sig) pairs exist and over which bytes each was signed
#[derive(Clone)]
struct SignedSet {
    /// (hb, sig) -> (position, bytes of `info ‖ chunks of the preceding entries`, verifying key)
    items: Vec<(Vec<u8>, Vec<u8>, Vec<u8>, VerifyingKey)>,
}
/// `info ‖ (hb, sig) of the first k entries`; `info` = the segment-info bytes **as received** (the RPC
/// field), not whatever the conversion stored
fn assoc_bytes(info: &[u8], seg: &SignedPathSegment, k: usize) -> Vec<u8> {
    let mut v = info.to_vec();
    for e in &seg.as_entries[..k] {
        v.extend_from_slice(&e.signature().header_and_body);
        v.extend_from_slice(&e.signature().signature);
    }
    v
}
fn signed_set(seg: &SignedPathSegment, keys: &[SigningKey]) -> SignedSet {
    let items = seg
        .as_entries
        .iter()
        .enumerate()
        .map(|(j, e)| {
            (e.signature().header_and_body.clone(), e.signature().signature.clone(), assoc_bytes(&seg.info().encoded, seg, j), *keys[j].verifying_key())
        })
        .collect();
    SignedSet { items }
}
/// spec: must entry `i` of `seg` be accepted when `offered` is the key the provider hands out?
fn expected_accept(set: &SignedSet, var: &Var, i: usize, offered: Option<&VerifyingKey>) -> bool {
    let seg = &var.seg;
    let sm = seg.as_entries[i].signature();
    let ad = assoc_bytes(&var.raw_info, seg, i);
    set.items.iter().any(|(hb, sig, signed_ad, vk)| {
        *hb == sm.header_and_body && *sig == sm.signature && *signed_ad == ad && offered.map(|k| k == vk).unwrap_or(false)
    })
}

// ------------------------------------------------------------------------------------------------
// stream `seg`: honest segments and their tampered variants

fn rng_ts(rng: &mut Rng) -> u32 {
    if rng.chance(1, 5) { *rng.pick(&[0u32, 1, u32::MAX]) } else { rng.next() as u32 }
}

struct Tally {
    validations: u64,
    model_compared: u64,
}

fn offered_key(seg: &SignedPathSegment, i: usize, table: &KeyTable, subst: Option<&VerifyingKey>) -> Option<VerifyingKey> {
    let e = &seg.as_entries[i];
    let dec = decode_msg(&e.signature().header_and_body);
    let hdr = dec.hdr?;
    match table.resolve(&hdr.verification_key_id, e.local.to_u64()) {
        Kp::Ok(k) => Some(subst.copied().unwrap_or(k)),
        _ => None,
    }
}

fn seg_brief(seg: &SignedPathSegment) -> serde_json::Value {
    json!({
        "info": hex(&seg.info().encoded),
        "entries": seg.as_entries.iter().map(|e| json!({
            "local": e.local.to_string(), "peers": e.peer_entries.len(),
            "hb_len": e.signature().header_and_body.len(), "sig_len": e.signature().signature.len()})).collect::<Vec<_>>()
    })
}

/// a (possibly tampered) segment as the verifier holds it, together with the `segment_info` bytes it was
/// received with (for a segment built in-process: the bytes the signer hashed, `info.encoded`)
struct Var {
    seg: SignedPathSegment,
    raw_info: Vec<u8>,
}
/// RPC form → verifier's value (None: conversion error or panic)
fn conv(rpc: pb::control_plane::v1::PathSegment) -> Option<Var> {
    let raw_info = rpc.segment_info.clone();
    match from_rpc_seg(rpc) {
        Ok(Ok(seg)) => Some(Var { seg, raw_info }),
        _ => None,
    }
}

/// validate the given positions of a (possibly tampered) segment; compare with the model; apply the spec oracle
#[allow(clippy::too_many_arguments)]
fn check_positions(
    kind: &str,
    detail: &str,
    h: &Honest,
    set: &SignedSet,
    vr: &Var,
    positions: &[usize],
    subst: Option<&VerifyingKey>,
    mut lean: Option<&mut Lean>,
    rep: &mut Report,
    tally: &mut Tally,
) {
    let var = &vr.seg;
    let cls = entry_classes(var);
    for &i in positions {
        if i >= var.as_entries.len() {
            continue;
        }
        let v = validate_entry(var, i, &h.table, subst, lean.as_deref_mut(), rep);
        tally.validations += 1;
        let accepted = v.imp == "ok";
        let reached_crypto = accepted || v.imp.starts_with("err verification_failed") || v.imp.starts_with("err ad_len");
        let canon = format!(
            "{kind}|{}|{i}|{}",
            hex(&var.info().encoded),
            var.as_entries.iter().map(|e| format!("{}:{}", hex(&e.signature().header_and_body), hex(&e.signature().signature))).collect::<Vec<_>>().join(",")
        );
        rep.case(&canon, reached_crypto);
        let case = || json!({"kind": kind, "detail": detail, "position": i, "segment": seg_brief(var),
                             "received_info": hex(&vr.raw_info),
                             "keys": (0..var.as_entries.len()).map(|j| offered_key(var, j, &h.table, None).map(|k| hex(k.to_encoded_point(true).as_bytes())).unwrap_or("-".into())).collect::<Vec<_>>(),
                             "rpc": hex(&RpcSeg { segment_info: vr.raw_info.clone(), as_entries: var.clone().into_rpc().as_entries }.encode_to_vec())});
        if i == 0 && (kind == "info-encoding" || kind == "info-reencoded" || kind == "default-info") && std::env::var("HX_EMIT").is_ok() {
            let c = case();
            eprintln!("EMIT {kind} | {detail} | seg-expect-case {} {} {}", if kind == "info-reencoded" { "reject" } else { "accept" }, c["rpc"].as_str().unwrap(),
                      c["keys"].as_array().unwrap().iter().map(|k| k.as_str().unwrap().to_string()).collect::<Vec<_>>().join(" "));
        }
        if let Some(m) = &v.model {
            tally.model_compared += 1;
            rep.traces += 1;
            if lean.as_ref().map(|l| l.differs(m, &v.imp)).unwrap_or(false) {
                rep.disagree(&format!("validate_signature/{kind}"), case(), &v.imp, m);
            }
            if let Some(mi) = &v.model_idx {
                if *mi != *m {
                    rep.hit("model: take_while form and index form give different verdicts");
                }
            }
        }
        if v.imp == "panic" {
            rep.spec_fail("C18:panic:validate", "validate_signature panicked", case());
            continue;
        }
        let offered = offered_key(var, i, &h.table, subst);
        let expected = expected_accept(set, vr, i, offered.as_ref());
        if accepted && !expected {
            if kind == "forged-equal-entry" && cls[i] != i {
                rep.spec_fail(
                    "C18:forged-equal-entry-accepted",
                    &format!("an entry signed by ANOTHER AS's key over a prefix of the segment, whose decoded AsEntry equals the entry at position {}, is accepted at position {i}: the by-value take_while stops at position {} and the key provider is only asked for the header's key id ({detail})", cls[i], cls[i]),
                    case(),
                );
            } else if cls[i] != i {
                rep.spec_fail(
                    "C18:extension-replay-accepted",
                    &format!("entry at position {i} is a copy of the entry at position {} and is accepted although the bytes preceding it are not the bytes it was signed over ({kind}: {detail})", cls[i]),
                    case(),
                );
            } else {
                rep.spec_fail("C18:tamper-accepted", &format!("tampered segment accepted at position {i} ({kind}: {detail})"), case());
            }
        } else if !accepted && expected {
            rep.spec_fail("C18:authentic-rejected", &format!("authentic entry rejected at position {i}: {} ({kind}: {detail})", v.imp), case());
        }
        rep.hit(&format!("seg {kind}: {}", if accepted { "accepted" } else { "rejected" }));
    }
}

fn from_rpc_seg(rpc: pb::control_plane::v1::PathSegment) -> Result<Result<SignedPathSegment, FromRpcError>, String> {
    catch(|| SignedPathSegment::try_from_rpc(rpc))
}

/// proto3 reading of a `SegmentInformation { int64 timestamp = 1; uint32 segment_id = 2 }` message, written out
/// from the wire-format rules (independent of prost): a message is a sequence of (tag, value) records, a scalar
/// field that does not occur has its default value 0 (so the EMPTY byte string is the message (0, 0), and it is
/// what every canonical encoder writes for it), the last occurrence of a field wins, unknown fields are skipped
fn proto3_info_fields(b: &[u8]) -> Option<(u64, u64)> {
    fn varint(b: &[u8], i: &mut usize) -> Option<u64> {
        let mut v = 0u64;
        for k in 0..10 {
            let x = *b.get(*i)?;
            *i += 1;
            v |= ((x & 0x7f) as u64) << (7 * k);
            if x & 0x80 == 0 {
                return Some(v);
            }
        }
        None
    }
    let (mut ts, mut id, mut i) = (0u64, 0u64, 0usize);
    while i < b.len() {
        let tag = varint(b, &mut i)?;
        let (field, wt) = (tag >> 3, tag & 7);
        if field == 0 || ((field == 1 || field == 2) && wt != 0) {
            return None;
        }
        match wt {
            0 => {
                let v = varint(b, &mut i)?;
                if field == 1 { ts = v } else if field == 2 { id = v & 0xffff_ffff }
            }
            1 | 5 => {
                i += if wt == 1 { 8 } else { 4 };
                if i > b.len() { return None }
            }
            2 => {
                let l = varint(b, &mut i)?;
                i = i.checked_add(usize::try_from(l).ok()?)?;
                if i > b.len() { return None }
            }
            _ => return None,
        }
    }
    Some((ts, id))
}

/// Spec, on the implementation alone (second sentence of the property + the first one for the receiver): an
/// authentic segment VALUE `h.seg` → `into_rpc` → `try_from_rpc` is the same value, the segment info that
/// travels reads (proto3) as the value's (timestamp, segment id) and is the byte string the entries were signed
/// over, and every authentic entry validates on the RECEIVED value.  Segments whose info fields take the proto3
/// default value (timestamp 0 and / or segment id 0 – the field is then absent from the canonical encoding, for
/// (0, 0) the info is the empty byte string) are reported under their own key.
fn check_value_roundtrip(kind: &str, detail: &str, h: &Honest, lean: &mut Lean, rep: &mut Report, tally: &mut Tally) {
    let (ts, id) = (h.seg.info().timestamp, h.seg.info().segment_id);
    let key = if ts == 0 || id == 0 { "C18:segment-roundtrip:default-info" } else { "C18:segment-roundtrip" };
    let n = h.seg.as_entries.len();
    let keys: Vec<String> = h.keys.iter().map(|k| hex(k.verifying_key().to_encoded_point(true).as_bytes())).collect();
    let sent = match catch(|| h.seg.clone().into_rpc()) {
        Ok(s) => s,
        Err(m) => {
            rep.spec_fail("C18:panic:segment-rpc", &format!("into_rpc panicked: {m}"), json!({"kind": kind, "detail": detail, "segment": seg_brief(&h.seg)}));
            return;
        }
    };
    let enc = hex(&sent.encode_to_vec());
    rep.case(&format!("value-roundtrip|{kind}|{enc}"), n > 0);
    let case = || json!({"kind": kind, "detail": detail, "timestamp": ts, "segment_id": id, "segment": seg_brief(&h.seg),
                         "segment_info_sent": hex(&sent.segment_info), "rpc": enc, "keys": keys,
                         "line": format!("seg-expect-case accept {} {}", enc, keys.join(" "))});
    if sent.segment_info != h.rpc.segment_info {
        rep.spec_fail("C18:segment-roundtrip:info-bytes", "into_rpc does not send the segment-info bytes the entries were signed over", case());
    }
    if proto3_info_fields(&sent.segment_info) != Some((ts as u64, id as u64)) {
        rep.spec_fail("C18:segment-roundtrip:info-fields", &format!("the segment info sent by into_rpc does not read (proto3) as the value's timestamp {ts} and segment id {id}"), case());
    }
    let info_txt = if sent.segment_info.is_empty() { "the empty byte string, the canonical proto3 encoding of (0, 0)".to_string() } else { format!("{} ({} bytes)", hex(&sent.segment_info), sent.segment_info.len()) };
    match from_rpc_seg(sent.clone()) {
        Err(m) => rep.spec_fail("C18:panic:segment-rpc", &format!("try_from_rpc panicked on into_rpc output: {m}"), case()),
        Ok(Err(e)) => rep.spec_fail(
            key,
            &format!("a correctly signed segment of {n} entries with timestamp {ts} and segment id {id} does not survive value → into_rpc → try_from_rpc: the receiver answers '{e}' instead of the same value, so its authentic entries can never be validated (segment info on the wire: {info_txt}; {kind}: {detail})"),
            case(),
        ),
        Ok(Ok(back)) => {
            if back != h.seg {
                rep.spec_fail(key, &format!("try_from_rpc(into_rpc(seg)) != seg for a correctly signed segment with timestamp {ts} and segment id {id} ({kind}: {detail}): received {}", canon_seg(&back).chars().take(120).collect::<String>()), case());
            }
            rep.hit(&format!("value roundtrip checked ({kind})"));
            // the receiver validates what it received
            let var = Var { seg: back, raw_info: sent.segment_info.clone() };
            let all: Vec<usize> = (0..n).collect();
            check_positions(kind, detail, h, &h.set, &var, &all, None, Some(lean), rep, tally);
        }
    }
}

/// Segments whose info fields take proto3 default values: timestamp 0 and / or segment id 0 (both 0: the
/// canonical info is the empty byte string), with the neighbouring boundary values; signed by both signing entry
/// points of the repo and by the positional reference signer (canonical bytes, and for (0, 0) every equivalent
/// non-canonical encoding).  Deterministic in everything but keys and entry contents.
fn default_info_stream(rng: &mut Rng, foreign: &Honest, lean: &mut Lean, rep: &mut Report, tally: &mut Tally, thorough: bool) {
    let x_ts = (rng.next() as u32) | 1;
    let x_id = (rng.next() as u16) | 1;
    let combos: [(u32, u16); 9] = [(0, 0), (0, x_id), (x_ts, 0), (0, 1), (1, 0), (0, u16::MAX), (u32::MAX, 0), (0, 0), (1, 1)];
    for (k, &(ts, id)) in combos.iter().enumerate() {
        let n = 1 + k % 3;
        let entries: Vec<AsEntry> = (0..n).map(|i| gen_entry(rng, 400 + i as u64)).collect();
        let o = SegOpts { exhaustive_flips: false, sampled_flips_per_blob: if thorough { 12 } else { 3 }, model_every: 1 };
        // the repo's signing code: try_into_signed_segment / SignedPathSegment::new (with MAC update)
        for mac_update in [false, true] {
            let detail = format!("timestamp {ts}, segment id {id}, signed by {}", if mac_update { "SignedPathSegment::new" } else { "try_into_signed_segment" });
            let h = build_honest_at(rng, entries.clone(), k % 2 == 0, mac_update, Some((ts, id)));
            rep.hit(&format!("default-info segment ts{} id{} entries={n}", if ts == 0 { "=0" } else { "≠0" }, if id == 0 { "=0" } else { "≠0" }));
            if h.seg.info().encoded.is_empty() {
                rep.hit("default-info segment: info.encoded is the empty byte string");
            }
            check_value_roundtrip("default-info", &detail, &h, lean, rep, tally);
            if (ts, id) == (0, 0) || thorough {
                seg_stream_one(&h, foreign, rng, lean, rep, tally, &o);
            }
        }
        // a conforming remote signer: canonical bytes (for (0, 0): nothing), received over RPC
        let encs: Vec<(&'static str, Vec<u8>)> = if (ts, id) == (0, 0) { info_encodings(0, 0) } else { info_encodings(ts, id).into_iter().take(1).collect() };
        for (what, bytes) in encs {
            if proto3_info_fields(&bytes) != Some((ts as u64, id as u64)) {
                rep.notes.push(format!("harness: info encoding '{what}' of ({ts}, {id}) does not read back as such"));
                continue;
            }
            let detail = format!("timestamp {ts}, segment id {id}, signed by position over the info bytes {} ({what})", if bytes.is_empty() { "-".to_string() } else { hex(&bytes) });
            match reference_signed_x(rng, &entries, ts, id, Some(bytes.clone())) {
                Ok(hx) => {
                    rep.hit(&format!("default-info reference-signed segment, info encoding: {what}"));
                    if hx.seg.info().timestamp != ts || hx.seg.info().segment_id != id {
                        rep.spec_fail("C18:segment-roundtrip:default-info", &format!("a received segment info that reads as ({ts}, {id}) is converted to ({}, {})", hx.seg.info().timestamp, hx.seg.info().segment_id), json!({"info": hex(&bytes), "what": what}));
                    }
                    let all: Vec<usize> = (0..n).collect();
                    check_positions("default-info", &detail, &hx, &hx.set, &hx.var(), &all, None, Some(&mut *lean), rep, tally);
                    check_value_roundtrip("default-info", &detail, &hx, lean, rep, tally);
                    if (ts, id) == (0, 0) && (what == "canonical" || thorough) {
                        seg_stream_one(&hx, foreign, rng, lean, rep, tally, &o);
                    }
                }
                Err(f) => rep.spec_fail(
                    "C18:segment-roundtrip:default-info",
                    &format!("a segment of {n} entries correctly signed by position over a valid protobuf segment info that reads as timestamp {ts}, segment id {id} ({what}: {}) is refused by the receiver ({}): its authentic entries can never be validated",
                             if bytes.is_empty() { "the empty byte string".to_string() } else { hex(&bytes) }, f.why),
                    f.case(ts, id),
                ),
            }
        }
    }
}

fn all_perms(n: usize) -> Vec<Vec<usize>> {
    fn go(cur: &mut Vec<usize>, used: &mut Vec<bool>, n: usize, out: &mut Vec<Vec<usize>>) {
        if cur.len() == n {
            out.push(cur.clone());
            return;
        }
        for i in 0..n {
            if !used[i] {
                used[i] = true;
                cur.push(i);
                go(cur, used, n, out);
                cur.pop();
                used[i] = false;
            }
        }
    }
    let mut out = vec![];
    go(&mut vec![], &mut vec![false; n], n, &mut out);
    out
}

struct SegOpts {
    exhaustive_flips: bool,
    sampled_flips_per_blob: usize,
    /// compare 1 in `model_every` flip validations with the model (structural variants always)
    model_every: u64,
}

fn seg_stream_one(h: &Honest, foreign: &Honest, rng: &mut Rng, lean: &mut Lean, rep: &mut Report, tally: &mut Tally, o: &SegOpts) {
    let set = h.set.clone();
    let n = h.seg.as_entries.len();
    let all: Vec<usize> = (0..n).collect();
    rep.hit(&format!("honest segment entries={n} peers={} key_ids={}", h.seg.as_entries.iter().map(|e| e.peer_entries.len()).sum::<usize>(), h.with_key_ids));

    // 1. the honest segment validates at every position
    check_positions("honest", "", h, &set, &h.var(), &all, None, Some(lean), rep, tally);

    // 1b. the signer's side (spec, independent of `validate_signature`): every entry's signature must be one a
    //     conforming verifier accepts – it verifies under the signer's key over `hb ‖ info ‖ (hb, sig) of ALL
    //     preceding entries` (index form) and the header's associated_data_length is that length
    {
        let cls = entry_classes(&h.seg);
        for (j, (hb, sig, ad_idx, vk)) in set.items.iter().enumerate() {
            let Some(hdr) = decode_msg(hb).hdr else { continue };
            let len_ok = hdr.associated_data_length as i64 == ad_idx.len() as i64;
            let ver_ok = verify_oracle(vk, hdr.signature_algorithm, &[hb.as_slice(), ad_idx.as_slice()], sig);
            if len_ok && ver_ok {
                rep.hit("signer: entry signed over info + all preceding entries");
                continue;
            }
            let case = json!({"position": j, "first_equal_entry_at": cls[j], "segment": seg_brief(&h.seg),
                              "header_ad_len": hdr.associated_data_length, "index_form_len": ad_idx.len(), "rpc": hex(&h.rpc.encode_to_vec())});
            if cls[j] != j {
                rep.spec_fail("C18:signing-by-value:repeated-entry", &format!("the signing code signed entry {j} (equal to entry {}) over the associated data of its first occurrence only: the entries in between are not covered and a conforming verifier rejects the segment", cls[j]), case);
            } else {
                rep.spec_fail("C18:signer-nonconforming", &format!("entry {j} is not signed over info + all preceding entries"), case);
            }
        }
    }

    // 2. RPC round trip of the honest segment (spec) – value equality of the real types; what `into_rpc`
    //    sends as segment info must be the bytes the entries were signed over
    let rpc = h.rpc.clone();
    match catch(|| h.seg.clone().into_rpc()) {
        Ok(sent) if sent.segment_info != rpc.segment_info => rep.spec_fail(
            "C18:segment-roundtrip:info-bytes",
            "into_rpc does not send the segment-info bytes the entries were signed over",
            json!({"signed_over": hex(&rpc.segment_info), "sent": hex(&sent.segment_info)}),
        ),
        Ok(sent) => {
            check_seg_to_rpc(&h.seg, &sent, lean, rep);
            rep.hit("into_rpc sends the signed info bytes")
        }
        Err(_) => rep.spec_fail("C18:panic:segment-rpc", "into_rpc panicked", json!({"segment": seg_brief(&h.seg)})),
    }
    match from_rpc_seg(h.seg.clone().into_rpc()) {
        Ok(Ok(back)) => {
            if back != h.seg {
                rep.spec_fail("C18:segment-roundtrip", "try_from_rpc(into_rpc(seg)) != seg for an honestly built segment", json!({"segment": seg_brief(&h.seg)}));
            }
            rep.hit("segment roundtrip checked");
        }
        Ok(Err(e)) => rep.spec_fail("C18:segment-roundtrip", &format!("try_from_rpc(into_rpc(seg)) failed: {e}"), json!({"segment": seg_brief(&h.seg)})),
        Err(_) => rep.spec_fail("C18:panic:segment-rpc", "try_from_rpc panicked on into_rpc output", json!({"segment": seg_brief(&h.seg)})),
    }

    // 3. single-bit flips of every signed blob (blob 0 = segment info, 2j+1 = hb of entry j, 2j+2 = its signature)
    let nblobs = 1 + 2 * n;
    let mut flip_no = 0u64;
    for b in 0..nblobs {
        let len = match b {
            0 => rpc.segment_info.len(),
            _ => {
                let s = rpc.as_entries[(b - 1) / 2].signed.as_ref().unwrap();
                if (b - 1) % 2 == 0 { s.header_and_body.len() } else { s.signature.len() }
            }
        };
        let bits: Vec<usize> = if o.exhaustive_flips {
            (0..len * 8).collect()
        } else {
            (0..o.sampled_flips_per_blob.min(len * 8)).map(|_| rng.below((len * 8) as u64) as usize).collect()
        };
        for bit in bits {
            let mut t = rpc.clone();
            {
                let blob: &mut Vec<u8> = match b {
                    0 => &mut t.segment_info,
                    _ => {
                        let s = t.as_entries[(b - 1) / 2].signed.as_mut().unwrap();
                        if (b - 1) % 2 == 0 { &mut s.header_and_body } else { &mut s.signature }
                    }
                };
                blob[bit / 8] ^= 1 << (bit % 8);
            }
            flip_no += 1;
            let what = match b {
                0 => "info".to_string(),
                _ => format!("{}[{}]", if (b - 1) % 2 == 0 { "hb" } else { "sig" }, (b - 1) / 2),
            };
            let raw_info = t.segment_info.clone();
            match from_rpc_seg(t) {
                Err(_) => rep.spec_fail("C18:panic:segment-rpc", "try_from_rpc panicked on a bit-flipped segment", json!({"flip": what, "bit": bit})),
                Ok(Err(e)) => rep.hit(&format!("flip {}: conversion error {}", what.split('[').next().unwrap(), rerr_label(&e))),
                Ok(Ok(seg)) => {
                    let var = Var { seg, raw_info };
                    // positions whose signed bytes (index form) contain the flipped blob, plus now and then all
                    let first = if b == 0 { 0 } else { (b - 1) / 2 };
                    let pos: Vec<usize> = if rng.chance(1, 16) { all.clone() } else { (first..n).collect() };
                    let use_model = flip_no % o.model_every == 0;
                    check_positions("bitflip", &format!("{what} bit {bit}"), h, &set, &var, &pos, None,
                                    if use_model { Some(&mut *lean) } else { None }, rep, tally);
                }
            }
        }
    }

    // 4. permutations
    let mut perms = all_perms(n);
    if perms.len() > 30 {
        rng.shuffle(&mut perms);
        perms.truncate(30);
    }
    for p in perms {
        if p.iter().enumerate().all(|(i, &x)| i == x) {
            continue;
        }
        let mut t = rpc.clone();
        t.as_entries = p.iter().map(|&j| rpc.as_entries[j].clone()).collect();
        if let Some(var) = conv(t) {
            check_positions("permutation", &format!("{p:?}"), h, &set, &var, &all, None, Some(lean), rep, tally);
        }
    }

    // 5. truncations: drop one entry / keep a prefix
    for d in 0..n {
        let mut t = rpc.clone();
        t.as_entries.remove(d);
        if let Some(var) = conv(t) {
            check_positions("truncation", &format!("entry {d} removed"), h, &set, &var, &all, None, Some(lean), rep, tally);
        }
    }
    for k in 0..n {
        let mut t = rpc.clone();
        t.as_entries.truncate(k);
        if let Some(var) = conv(t) {
            check_positions("truncation", &format!("prefix of {k}"), h, &set, &var, &all, None, Some(lean), rep, tally);
        }
    }

    for k in 1..n {
        let mut t = rpc.clone();
        t.as_entries.drain(..k);
        if let Some(var) = conv(t) {
            check_positions("truncation", &format!("first {k} entries dropped"), h, &set, &var, &all, None, Some(lean), rep, tally);
        }
    }

    // 6. extensions: a replayed copy of entry j appended / inserted after position p > j; a foreign entry appended
    for j in 0..n {
        for p in (j + 1)..=n {
            if p != n && !rng.chance(1, 2) {
                continue;
            }
            let mut t = rpc.clone();
            t.as_entries.insert(p, rpc.as_entries[j].clone());
            if let Some(var) = conv(t) {
                let pos: Vec<usize> = (0..=n).collect();
                check_positions("extension-replay", &format!("copy of entry {j} inserted at {p}"), h, &set, &var, &pos, None, Some(lean), rep, tally);
            }
        }
    }
    {
        let frpc = foreign.seg.clone().into_rpc();
        let mut merged = h.table.clone();
        merged.by_id.extend(foreign.table.by_id.clone());
        let hx = Honest { seg: h.seg.clone(), rpc: h.rpc.clone(), set: h.set.clone(), keys: h.keys.clone(), table: merged, with_key_ids: h.with_key_ids };
        for fe in frpc.as_entries.iter().take(2) {
            let mut t = rpc.clone();
            let p = rng.range(0, n as u64) as usize;
            t.as_entries.insert(p, fe.clone());
            if let Some(var) = conv(t) {
                let pos: Vec<usize> = (0..=n).collect();
                check_positions("extension-foreign", &format!("entry of another segment inserted at {p}"), &hx, &set, &var, &pos, None, Some(lean), rep, tally);
            }
        }
    }

    // 6b. forged entry: another AS (holding its own, resolvable key) signs a body byte-equal to the body of
    //     entry j over the segment info alone and appends it: its decoded AsEntry equals entry j's
    {
        let fkey = foreign.keys[0].clone();
        let fia = foreign.seg.as_entries[0].local.to_u64();
        let fid = key_id_for(fia, 0);
        let mut merged = h.table.clone();
        merged.by_id.insert((fid.isd_as, fid.subject_key_id.clone()), *fkey.verifying_key());
        let hx = Honest { seg: h.seg.clone(), rpc: h.rpc.clone(), set: h.set.clone(), keys: h.keys.clone(), table: merged, with_key_ids: h.with_key_ids };
        let j = rng.below(n as u64) as usize;
        let body = decode_msg(&h.seg.as_entries[j].signature().header_and_body).hb.and_then(|d| RpcBody::decode(d.body.as_slice()).ok());
        if let Some(body) = body {
            // … over what the by-value take_while will select for it: the info and the (public) entries before j
            let info = assoc_bytes(&rpc.segment_info, &h.seg, cls_first(&h.seg, j));
            if let Ok(sm) = SignedMessage::sign(&fkey, DigestAlgorithm::Sha256, 1, Some(fid), (info.len(), std::iter::once(info.as_slice())), &body, &()) {
                let mut t = rpc.clone();
                t.as_entries.push(pb::control_plane::v1::AsEntry { signed: Some(sm.into_rpc()), unsigned: None });
                if let Some(var) = conv(t) {
                    check_positions("forged-equal-entry", &format!("body of entry {j} re-signed by another AS over the info and the entries before it, appended"), &hx, &set, &var, &[n], None, Some(lean), rep, tally);
                }
            }
        }
    }

    // 6c. ECDSA malleability: (r, s) ↦ (r, n − s) is another valid signature of the same bytes under the same
    //     key. Not a violation of the property (the entry *is* signed by that key over exactly these bytes); only
    //     recorded, and compared with the model
    {
        let i = rng.below(n as u64) as usize;
        let sm = rpc.as_entries[i].signed.as_ref().unwrap();
        if let Ok(sig) = Signature::from_der(&sm.signature) {
            let (r, s_) = sig.split_scalars();
            let neg: p256::Scalar = -*s_;
            if let Ok(m) = Signature::from_scalars(r.to_bytes(), neg.to_bytes()) {
                let mut t = rpc.clone();
                t.as_entries[i].signed.as_mut().unwrap().signature = m.to_der().as_bytes().to_vec();
                if let Some(var) = conv(t) {
                    let v = validate_entry(&var.seg, i, &h.table, None, Some(lean), rep);
                    tally.validations += 1;
                    rep.traces += 1;
                    rep.case(&format!("malleated|{}|{i}", hex(m.to_der().as_bytes())), true);
                    if let Some(mo) = &v.model {
                        if lean.differs(mo, &v.imp) {
                            rep.disagree("validate_signature/malleated-signature", json!({"position": i, "segment": seg_brief(&var.seg)}), &v.imp, mo);
                        }
                    }
                    rep.hit(&format!("malleated signature (r, n-s) of an authentic entry: {}", if v.imp == "ok" { "accepted (same key, same bytes)" } else { "rejected" }));
                }
            }
        }
    }

    // 7. key substitution: another AS's key of this segment, a fresh key
    let fresh = *gen_key(rng).verifying_key();
    for i in 0..n {
        let other = *h.keys[(i + 1) % n].verifying_key();
        if n > 1 {
            check_positions("key-substitution", "key of the next AS", h, &set, &h.var(), &[i], Some(&other), Some(lean), rep, tally);
        }
        check_positions("key-substitution", "fresh key", h, &set, &h.var(), &[i], Some(&fresh), Some(lean), rep, tally);
    }

    // 9. the received segment info replaced by another protobuf encoding of the same (timestamp, segment id):
    //    a change of the header bytes ⇒ every entry must be rejected (all of them are signed over the info)
    for (what, enc) in info_encodings(h.seg.info().timestamp, h.seg.info().segment_id) {
        if enc == rpc.segment_info {
            continue;
        }
        let mut t = rpc.clone();
        t.segment_info = enc;
        match conv(t) {
            Some(var) => check_positions("info-reencoded", what, h, &set, &var, &all, None, Some(lean), rep, tally),
            None => rep.hit("info-reencoded: does not convert"),
        }
    }

    // 8. chunk-boundary shift (concatenation ambiguity, not a defect): the first two bytes of entry 0's DER
    //    signature (0x30, len) are a valid unknown protobuf varint field when appended to its header_and_body
    if n >= 2 {
        let mut t = rpc.clone();
        let s0 = t.as_entries[0].signed.as_mut().unwrap();
        let moved: Vec<u8> = s0.signature.drain(..2).collect();
        s0.header_and_body.extend_from_slice(&moved);
        if let Some(var) = conv(t) {
            let before = rep.spec_failures.len();
            check_positions("boundary-shift", "2 bytes moved from sig[0] to hb[0]", h, &set, &var, &all, None, Some(lean), rep, tally);
            if rep.spec_failures.len() == before {
                let ok1 = var.seg.as_entries[1].validate_signature(|kid| h.table.resolve(kid, var.seg.as_entries[1].local.to_u64()).result(), &var.seg).is_ok();
                rep.hit(if ok1 { "boundary-shift: later entry still accepted (concatenation ambiguity)" } else { "boundary-shift: later entry rejected" });
            }
        } else {
            rep.hit("boundary-shift: shifted entry does not convert");
        }
    }
}

// ------------------------------------------------------------------------------------------------
// stream `msg`: plain signed messages

type Req = pb::control_plane::v1::SegmentsRequest;

/// one `validate` + `decode_validated::<Body, Req>` call against the model; returns the implementation's verdict
#[allow(clippy::too_many_arguments)]
fn check_msg(
    what: &str,
    sm: &SignedMessage,
    kp: Kp,
    ad_n: usize,
    ad: &[Vec<u8>],
    body_as_header: bool,
    expect: Option<bool>,
    lean: &mut Lean,
    rep: &mut Report,
) -> String {
    let chunks = || ad.iter().map(|c| c.as_slice());
    let r = catch(|| sm.validate(|_| kp.result(), (ad_n, chunks())));
    let imp_v = match &r {
        Err(_) => "panic".to_string(),
        Ok(Ok((h, body))) => format!(
            "ok {} {} {} {} {}",
            h.signature_algorithm,
            hex(&h.verification_key_id),
            h.associated_data_length,
            hex(&h.metadata),
            hex(body)
        ),
        Ok(Err(e)) => format!("err {}", verr_label(e)),
    };
    let imp_d = if body_as_header {
        match catch(|| sm.decode_validated::<pb::crypto::v1::Header, Req>(|_| kp.result(), (ad_n, chunks()))) {
            Err(_) => "panic".to_string(),
            Ok(Ok((_, None))) => "ok nometa".into(),
            Ok(Ok((_, Some(_)))) => "ok meta".into(),
            Ok(Err(e)) => format!("err {}", verr_label(&e)),
        }
    } else {
        match catch(|| sm.decode_validated::<Req, Req>(|_| kp.result(), (ad_n, chunks()))) {
            Err(_) => "panic".to_string(),
            Ok(Ok((_, None))) => "ok nometa".into(),
            Ok(Ok((_, Some(_)))) => "ok meta".into(),
            Ok(Err(e)) => format!("err {}", verr_label(&e)),
        }
    };
    let imp = format!("{imp_v} | {imp_d}");
    // oracles
    let dec = decode_msg(&sm.header_and_body);
    let wf = Signature::from_der(&sm.signature).is_ok();
    let ver = match (&kp, &dec.hdr) {
        (Kp::Ok(pk), Some(h)) => {
            let mut parts: Vec<&[u8]> = vec![&sm.header_and_body];
            parts.extend(ad.iter().map(|c| c.as_slice()));
            verify_oracle(pk, h.signature_algorithm, &parts, &sm.signature)
        }
        _ => false,
    };
    let body_dec = dec
        .hb
        .as_ref()
        .map(|d| if body_as_header { pb::crypto::v1::Header::decode(&d.body[..]).is_ok() } else { Req::decode(&d.body[..]).is_ok() })
        .unwrap_or(false);
    let meta_dec = dec.hdr.as_ref().map(|h| Req::decode(&h.metadata[..]).is_ok()).unwrap_or(false);
    let req = format!(
        "val {} {} {} {} {} {} {} {} {} {}",
        hex(&sm.header_and_body),
        hex(&sm.signature),
        ad_n,
        dec.tok_hb(),
        dec.tok_hdr(),
        kp.tok(),
        wf as u8,
        ver as u8,
        body_dec as u8,
        meta_dec as u8
    );
    let model = lean.ask(&req);
    rep.traces += 1;
    let case = || json!({"what": what, "hb": hex(&sm.header_and_body), "sig": hex(&sm.signature), "ad_n": ad_n,
                         "ad": ad.iter().map(|c| hex(c)).collect::<Vec<_>>(), "kp": kp.tok()});
    if lean.differs(&model, &imp) {
        rep.disagree(&format!("validate/{what}"), case(), &imp, &model);
    }
    let accepted = imp_v.starts_with("ok");
    let reached = accepted || imp_v.starts_with("err verification_failed") || imp_v.starts_with("err ad_len");
    rep.case(&format!("msg|{what}|{}|{}|{ad_n}|{}", hex(&sm.header_and_body), hex(&sm.signature), ad.iter().map(|c| hex(c)).collect::<String>()), reached);
    rep.hit(&format!("msg {what}: {}", imp_v.split(' ').take(2).collect::<Vec<_>>().join(" ")));
    rep.hit(&format!("decode_validated -> {}", imp_d.split(' ').take(2).collect::<Vec<_>>().join(" ")));
    if imp.contains("panic") {
        rep.spec_fail("C18:panic:validate", "validate / decode_validated panicked", case());
    }
    match expect {
        Some(true) if !accepted => {
            let key = if ad_n >= (1usize << 31) { "C18:adlen-i32-wrap" } else { "C18:authentic-rejected" };
            rep.spec_fail(key, &format!("authentic message rejected ({what}): {imp_v}"), case());
        }
        Some(false) if accepted => rep.spec_fail("C18:tamper-accepted", &format!("tampered message accepted ({what})"), case()),
        _ => {}
    }
    imp_v
}

fn msg_stream_one(rng: &mut Rng, lean: &mut Lean, rep: &mut Report, exhaustive: bool, huge_len: bool) {
    let key = gen_key(rng);
    let vk = *key.verifying_key();
    let other = *gen_key(rng).verifying_key();
    let (alg, alg_n) = *rng.pick(&[(DigestAlgorithm::Sha256, 1u32), (DigestAlgorithm::Sha384, 2), (DigestAlgorithm::Sha512, 3)]);
    let ts = if rng.chance(1, 4) { *rng.pick(&[0u32, u32::MAX]) } else { rng.next() as u32 };
    let key_id = rng.chance(2, 3).then(|| KeyId { isd_as: rng.next(), subject_key_id: { let l_ = rng.below(20) as usize; rng.bytes(l_) }, trc_base: rng.below(5), trc_serial: rng.below(5) });
    let nchunks = rng.below(4) as usize;
    let ad: Vec<Vec<u8>> = (0..nchunks).map(|_| { let l = rng.below(40) as usize; rng.bytes(l) }).collect();
    let total: usize = ad.iter().map(|c| c.len()).sum();
    // the length handed to `sign` is the caller's claim; normally the true total
    let ad_n = if huge_len { *rng.pick(&[(1usize << 31), (1usize << 31) + 5, (1usize << 32) + 7, u32::MAX as usize]) } else { total };
    let msg = Req { src_isd_as: rng.next(), dst_isd_as: rng.below(3) };
    let with_meta = rng.chance(1, 2);
    let meta = Req { src_isd_as: rng.below(2), dst_isd_as: rng.next() };
    let chunks = || ad.iter().map(|c| c.as_slice());
    let sm = if with_meta {
        SignedMessage::sign(&key, alg, ts, key_id.clone(), (ad_n, chunks()), &msg, &meta)
    } else {
        SignedMessage::sign(&key, alg, ts, key_id.clone(), (ad_n, chunks()), &msg, &())
    }
    .expect("sign");
    // header built by `sign` vs the model
    let dec = decode_msg(&sm.header_and_body);
    let h = dec.hdr.clone().expect("own header decodes");
    let imp_hdr = format!(
        "{} {} {} {} {}",
        h.signature_algorithm,
        hex(&h.verification_key_id),
        h.timestamp.map(|t| format!("{} {}", t.seconds, t.nanos)).unwrap_or("none".into()),
        h.associated_data_length,
        hex(&h.metadata)
    );
    let kid_tok = match &key_id {
        None => "K0".to_string(),
        Some(k) => format!("K1 {}", hex(&k.encode_to_vec())),
    };
    let meta_bytes = if with_meta { meta.encode_to_vec() } else { vec![] };
    let model_hdr = lean.ask(&format!("signhdr {alg_n} {ts} {kid_tok} {ad_n} {}", hex(&meta_bytes)));
    rep.traces += 1;
    if lean.differs(&model_hdr, &imp_hdr) {
        rep.disagree("sign/header", json!({"alg": alg_n, "ts": ts, "ad_n": ad_n}), &imp_hdr, &model_hdr);
    }
    rep.hit(&format!("msg signed alg={alg_n} key_id={} meta={with_meta} chunks={nchunks} huge_len={huge_len}", key_id.is_some()));

    // authentic: same claim, same data (spec: accepted)
    check_msg("authentic", &sm, Kp::Ok(vk), ad_n, &ad, false, Some(true), lean, rep);
    if huge_len {
        return;
    }
    // same bytes, different chunking (concatenation): accepted
    let flat: Vec<u8> = ad.concat();
    let cut = if flat.is_empty() { 0 } else { rng.below(flat.len() as u64 + 1) as usize };
    let rechunk = vec![flat[..cut].to_vec(), flat[cut..].to_vec()];
    check_msg("rechunked", &sm, Kp::Ok(vk), ad_n, &rechunk, false, Some(true), lean, rep);
    // wrong body type
    check_msg("wrong-body-type", &sm, Kp::Ok(vk), ad_n, &ad, true, None, lean, rep);
    // other key / provider errors
    check_msg("other-key", &sm, Kp::Ok(other), ad_n, &ad, false, Some(false), lean, rep);
    check_msg("key-missing", &sm, Kp::Missing, ad_n, &ad, false, Some(false), lean, rep);
    check_msg("key-id-bad", &sm, Kp::BadId, ad_n, &ad, false, Some(false), lean, rep);
    // wrong claimed length (data unchanged), wrong data of the same length, longer / shorter data
    check_msg("len+1", &sm, Kp::Ok(vk), ad_n + 1, &ad, false, Some(false), lean, rep);
    if ad_n > 0 {
        check_msg("len-1", &sm, Kp::Ok(vk), ad_n - 1, &ad, false, Some(false), lean, rep);
        let mut ad2 = ad.clone();
        let c = ad2.iter().position(|c| !c.is_empty()).unwrap();
        let k = rng.below(ad2[c].len() as u64) as usize;
        ad2[c][k] ^= 1 << rng.below(8);
        check_msg("ad-bitflip", &sm, Kp::Ok(vk), ad_n, &ad2, false, Some(false), lean, rep);
        let mut ad3 = ad.clone();
        ad3[c].pop();
        check_msg("ad-shorter-same-claim", &sm, Kp::Ok(vk), ad_n, &ad3, false, Some(false), lean, rep);
    }
    let mut ad4 = ad.clone();
    ad4.push(vec![rng.next() as u8]);
    check_msg("ad-longer-same-claim", &sm, Kp::Ok(vk), ad_n, &ad4, false, Some(false), lean, rep);
    check_msg("ad-longer-true-claim", &sm, Kp::Ok(vk), ad_n + 1, &ad4, false, Some(false), lean, rep);
    // single-bit flips of both blobs
    for (which, len) in [(0, sm.header_and_body.len()), (1, sm.signature.len())] {
        let bits: Vec<usize> = if exhaustive { (0..len * 8).collect() } else { (0..12).map(|_| rng.below((len * 8) as u64) as usize).collect() };
        for bit in bits {
            let mut t = sm.clone();
            let blob = if which == 0 { &mut t.header_and_body } else { &mut t.signature };
            blob[bit / 8] ^= 1 << (bit % 8);
            check_msg(if which == 0 { "flip-hb" } else { "flip-sig" }, &t, Kp::Ok(vk), ad_n, &ad, false, Some(false), lean, rep);
        }
    }
    // truncated / empty blobs
    let mut t = sm.clone();
    t.signature.clear();
    check_msg("empty-sig", &t, Kp::Ok(vk), ad_n, &ad, false, Some(false), lean, rep);
    let mut t = sm.clone();
    t.header_and_body.clear();
    check_msg("empty-hb", &t, Kp::Ok(vk), ad_n, &ad, false, Some(false), lean, rep);
    // header with an unknown / unspecified algorithm, negative length: re-encode a modified header (unsigned ⇒ rejected)
    for (what, f) in [
        ("alg-unspecified", Box::new(|h: &mut pb::crypto::v1::Header| h.signature_algorithm = 0) as Box<dyn Fn(&mut pb::crypto::v1::Header)>),
        ("alg-unknown", Box::new(|h: &mut pb::crypto::v1::Header| h.signature_algorithm = 77)),
        ("alg-other", Box::new(|h: &mut pb::crypto::v1::Header| h.signature_algorithm = h.signature_algorithm % 3 + 1)),
        ("adlen-negative", Box::new(|h: &mut pb::crypto::v1::Header| h.associated_data_length = -1)),
        ("no-key-id", Box::new(|h: &mut pb::crypto::v1::Header| h.verification_key_id.clear())),
        ("meta-garbage", Box::new(|h: &mut pb::crypto::v1::Header| h.metadata = vec![0xff])),
    ] {
        let mut hb = dec.hb.clone().unwrap();
        let mut hd = h.clone();
        f(&mut hd);
        hb.header = hd.encode_to_vec();
        let t = SignedMessage { header_and_body: hb.encode_to_vec(), signature: sm.signature.clone() };
        let unchanged = t.header_and_body == sm.header_and_body;
        check_msg(what, &t, Kp::Ok(vk), ad_n, &ad, false, Some(unchanged), lean, rep);
    }
}

// ------------------------------------------------------------------------------------------------
// stream `segrpc`: arbitrary control-plane PathSegment messages

type RpcSeg = pb::control_plane::v1::PathSegment;
type RpcBody = pb::control_plane::v1::AsEntrySignedBody;

fn canon_hf(h: &SegmentHopField) -> String {
    format!("{} {} {} {}", h.expiration_units, h.cons_ingress, h.cons_egress, hex(&h.mac.0))
}
fn canon_entry(e: &SignedAsEntry) -> String {
    let a = e.entry();
    let peers: String = a
        .peer_entries
        .iter()
        .map(|p| format!(" {} {} {} {}", p.peer.to_u64(), p.peer_interface, p.peer_mtu, canon_hf(&p.hop_field)))
        .collect();
    format!(
        "{} {} {} {} {} {}{} {} {} {} {}",
        a.local.to_u64(),
        a.next.to_u64(),
        a.mtu,
        a.hop_entry.ingress_mtu,
        canon_hf(&a.hop_entry.hop_field),
        a.peer_entries.len(),
        peers,
        hex(&a.extensions),
        hex(&a.unsigned_extensions),
        hex(&e.signature().header_and_body),
        hex(&e.signature().signature)
    )
}
fn canon_seg(s: &SignedPathSegment) -> String {
    let mut out = format!("{} {} {} {}", s.info().timestamp, s.info().segment_id, hex(&s.info().encoded), s.as_entries.len());
    for e in &s.as_entries {
        out.push(' ');
        out.push_str(&canon_entry(e));
    }
    out
}

fn tok_rpc_hf(h: &Option<pb::control_plane::v1::HopField>) -> String {
    match h {
        None => "F0".into(),
        Some(h) => format!("F1 {} {} {} {}", h.ingress, h.egress, h.exp_time, hex(&h.mac)),
    }
}
fn tok_rpc_body(b: &Option<RpcBody>) -> String {
    match b {
        None => "B0".into(),
        Some(b) => {
            let he = match &b.hop_entry {
                None => "E0".to_string(),
                Some(he) => format!("E1 {} {}", he.ingress_mtu, tok_rpc_hf(&he.hop_field)),
            };
            let peers: String = b
                .peer_entries
                .iter()
                .map(|p| format!(" {} {} {} {}", p.peer_isd_as, p.peer_interface, p.peer_mtu, tok_rpc_hf(&p.hop_field)))
                .collect();
            format!("B1 {} {} {} {} {}{}", b.isd_as, b.next_isd_as, b.mtu, he, b.peer_entries.len(), peers)
        }
    }
}

fn segrpc_request(r: &RpcSeg) -> String {
    let info = pb::control_plane::v1::SegmentInformation::decode(r.segment_info.as_slice()).ok();
    let (itok, enc) = match &info {
        None => ("I0".to_string(), "-".to_string()),
        Some(i) => (format!("I1 {} {}", i.timestamp, i.segment_id), hex(&i.encode_to_vec())),
    };
    let mut s = format!("segrpc {} {} {} {}", hex(&r.segment_info), itok, enc, r.as_entries.len());
    for e in &r.as_entries {
        match &e.signed {
            None => s.push_str(" S0"),
            Some(sm) => {
                s.push_str(&format!(" S1 {} {}", hex(&sm.header_and_body), hex(&sm.signature)));
                match pb::crypto::v1::HeaderAndBodyInternal::decode(sm.header_and_body.as_slice()) {
                    Err(_) => s.push_str(" H0"),
                    Ok(hb) => s.push_str(&format!(" H1 {}", tok_rpc_body(&RpcBody::decode(hb.body.as_slice()).ok()))),
                }
            }
        }
    }
    s
}

/// `into_rpc` of a segment: implementation vs model (`segToRpc`)
fn check_seg_to_rpc(v: &SignedPathSegment, sent: &RpcSeg, lean: &mut Lean, rep: &mut Report) {
    let reenc = pb::control_plane::v1::SegmentInformation { timestamp: v.info().timestamp as i64, segment_id: v.info().segment_id as u32 }.encode_to_vec();
    let mut req = format!("segto {} {} {} {} {}", v.info().timestamp, v.info().segment_id, hex(&v.info().encoded), hex(&reenc), v.as_entries.len());
    for e in &v.as_entries {
        req.push_str(&format!(" {} {}", hex(&e.signature().header_and_body), hex(&e.signature().signature)));
    }
    let mut imp = format!("{} {}", hex(&sent.segment_info), sent.as_entries.len());
    for e in &sent.as_entries {
        match &e.signed {
            None => imp.push_str(" S0"),
            Some(sm) => imp.push_str(&format!(" S1 {} {}", hex(&sm.header_and_body), hex(&sm.signature))),
        }
    }
    let model = lean.ask(&req);
    rep.traces += 1;
    if lean.differs(&model, &imp) {
        let cut = |s: &str| if s.len() > 200 { format!("{}…", &s[..200]) } else { s.to_string() };
        rep.disagree("segment into_rpc", json!({"info": hex(&v.info().encoded), "timestamp": v.info().timestamp, "segment_id": v.info().segment_id}), &cut(&imp), &cut(&model));
    }
    rep.hit("segment into_rpc compared");
}

/// conversion of one RPC segment: implementation vs model + spec (no panic, result is stable under a round trip)
fn check_segrpc(what: &str, r: &RpcSeg, lean: &mut Lean, rep: &mut Report) {
    let res = from_rpc_seg(r.clone());
    let imp = match &res {
        Err(_) => "panic".to_string(),
        Ok(Err(e)) => format!("err {}", rerr_label(e)),
        Ok(Ok(s)) => format!("ok {}", canon_seg(s)),
    };
    let model = lean.ask(&segrpc_request(r));
    rep.traces += 1;
    let enc = r.encode_to_vec();
    let case = || json!({"what": what, "line": format!("segrpc-case {}", hex(&enc))});
    let cut = |s: &str| if s.len() > 300 { format!("{}…", &s[..300]) } else { s.to_string() };
    if lean.differs(&model, &imp) {
        rep.disagree(&format!("segment try_from_rpc/{what}"), case(), &cut(&imp), &cut(&model));
    }
    let label = imp.split(' ').take(2).collect::<Vec<_>>().join(" ");
    rep.hit(&format!("segrpc -> {}", if imp.starts_with("ok") { "ok" } else { &label }));
    rep.case(&format!("segrpc|{}", hex(&enc)), !r.as_entries.is_empty() && !imp.starts_with("err decode_info"));
    match res {
        Err(m) => rep.spec_fail("C18:panic:segment-rpc", &format!("SignedPathSegment::try_from_rpc panicked: {m}"), case()),
        Ok(Ok(v)) => {
            let sent = v.clone().into_rpc();
            check_seg_to_rpc(&v, &sent, lean, rep);
            // spec: what is sent on is what was received (info bytes and signed messages; the `unsigned` part
            // of the entries is not carried), and the value survives the round trip
            let same_signed = sent.as_entries.len() == r.as_entries.len()
                && sent.as_entries.iter().zip(&r.as_entries).all(|(a, b)| a.signed == b.signed);
            if sent.segment_info != r.segment_info || !same_signed {
                rep.spec_fail("C18:segment-roundtrip:info-bytes", "into_rpc(try_from_rpc(r)) does not carry the received segment-info bytes / signed messages", case());
            }
            match from_rpc_seg(sent) {
                Ok(Ok(v2)) if v2 == v => {}
                _ => rep.spec_fail("C18:segment-roundtrip", "a segment obtained from RPC does not survive into_rpc → try_from_rpc", case()),
            }
        }
        Ok(Err(_)) => {}
    }
}

fn big(rng: &mut Rng, bits: u32) -> u64 {
    // around the 2^bits boundary and beyond
    let b = 1u64 << bits;
    match rng.below(6) {
        0 => b - 1,
        1 => b,
        2 => b + 1,
        3 => u64::MAX >> rng.below(32),
        4 => rng.below(b),
        _ => b + rng.below(1 << 20),
    }
}

fn mutate_hf(rng: &mut Rng, h: &mut Option<pb::control_plane::v1::HopField>) -> &'static str {
    match rng.below(6) {
        0 => {
            *h = None;
            "hop field missing"
        }
        k => {
            let Some(f) = h.as_mut() else { return "hop field already missing" };
            match k {
                1 => {
                    f.ingress = big(rng, 16);
                    "ingress"
                }
                2 => {
                    f.egress = big(rng, 16);
                    "egress"
                }
                3 => {
                    f.exp_time = big(rng, 8) as u32;
                    "exp_time"
                }
                4 => {
                    let l = *rng.pick(&[0usize, 1, 5, 6, 7, 8, 12]);
                    f.mac = rng.bytes(l);
                    "mac length"
                }
                _ => {
                    f.mac.truncate(rng.below(6) as usize);
                    "mac shorter"
                }
            }
        }
    }
}

fn gen_segrpc(rng: &mut Rng, base: &RpcSeg) -> (String, RpcSeg) {
    let mut r = base.clone();
    let nmut = rng.range(1, 3);
    let mut what = vec![];
    for _ in 0..nmut {
        let ne = r.as_entries.len();
        match rng.below(12) {
            0 => {
                let i = pb::control_plane::v1::SegmentInformation {
                    timestamp: *rng.pick(&[-1i64, 0, u32::MAX as i64, u32::MAX as i64 + 1, i64::MAX, i64::MIN]),
                    segment_id: rng.next() as u32 & 0xffff,
                };
                r.segment_info = i.encode_to_vec();
                what.push("info timestamp range".to_string());
            }
            1 => {
                let i = pb::control_plane::v1::SegmentInformation { timestamp: rng.below(1 << 32) as i64, segment_id: big(rng, 16) as u32 };
                r.segment_info = i.encode_to_vec();
                what.push("info segment id range".to_string());
            }
            2 => {
                r.segment_info = match rng.below(6) {
                    0 => vec![],
                    1 => { let l_ = rng.range(1, 12) as usize; rng.bytes(l_) },
                    2 => vec![0x0a, 0x05, 1, 2],
                    // valid protobuf, not the canonical encoding (also of zero values)
                    _ => {
                        let encs = info_encodings(if rng.chance(1, 4) { 0 } else { rng.next() as u32 }, if rng.chance(1, 4) { 0 } else { rng.next() as u16 });
                        rng.pick(&encs[1..]).1.clone()
                    }
                };
                what.push("info bytes".to_string());
            }
            3 if ne > 0 => {
                let k = rng.below(ne as u64) as usize;
                r.as_entries[k].signed = None;
                what.push("signed missing".to_string());
            }
            4 if ne > 0 => {
                let k = rng.below(ne as u64) as usize;
                if let Some(s) = r.as_entries[k].signed.as_mut() {
                    s.header_and_body = match rng.below(3) {
                        0 => vec![],
                        1 => { let l_ = rng.range(1, 30) as usize; rng.bytes(l_) },
                        _ => { let mut v = s.header_and_body.clone(); v.truncate(v.len() / 2); v }
                    };
                }
                what.push("hb bytes".to_string());
            }
            _ if ne > 0 => {
                // modify the decoded body and re-frame it
                let k = rng.below(ne as u64) as usize;
                let Some(s) = r.as_entries[k].signed.as_mut() else { continue };
                let Ok(mut hb) = pb::crypto::v1::HeaderAndBodyInternal::decode(s.header_and_body.as_slice()) else { continue };
                if rng.chance(1, 12) {
                    hb.body = { let l_ = rng.range(1, 20) as usize; rng.bytes(l_) };
                    s.header_and_body = hb.encode_to_vec();
                    what.push("body bytes".to_string());
                    continue;
                }
                let Ok(mut b) = RpcBody::decode(hb.body.as_slice()) else { continue };
                let w = match rng.below(8) {
                    0 => {
                        b.hop_entry = None;
                        "hop entry missing"
                    }
                    1 => {
                        if let Some(he) = b.hop_entry.as_mut() {
                            he.ingress_mtu = big(rng, 16) as u32;
                        }
                        "ingress mtu"
                    }
                    2 | 3 => match b.hop_entry.as_mut() {
                        Some(he) => mutate_hf(rng, &mut he.hop_field),
                        None => "-",
                    },
                    4 => {
                        b.peer_entries.push(pb::control_plane::v1::PeerEntry {
                            peer_isd_as: rng.next(),
                            peer_interface: big(rng, 16),
                            peer_mtu: big(rng, 16) as u32,
                            hop_field: Some(pb::control_plane::v1::HopField { ingress: 1, egress: 2, exp_time: 3, mac: rng.bytes(6) }),
                        });
                        "peer added with range values"
                    }
                    5 => {
                        if let Some(p) = b.peer_entries.first_mut() {
                            mutate_hf(rng, &mut p.hop_field)
                        } else {
                            "-"
                        }
                    }
                    6 => {
                        b.isd_as = rng.next();
                        b.next_isd_as = rng.next();
                        b.mtu = rng.next() as u32;
                        "isd-as / mtu any"
                    }
                    _ => {
                        if let Some(p) = b.peer_entries.last_mut() {
                            if rng.chance(1, 2) { p.peer_interface = big(rng, 16) } else { p.peer_mtu = big(rng, 16) as u32 }
                        }
                        "peer interface / mtu"
                    }
                };
                hb.body = b.encode_to_vec();
                s.header_and_body = hb.encode_to_vec();
                what.push(w.to_string());
            }
            _ => {}
        }
    }
    (what.join(", "), r)
}

// ------------------------------------------------------------------------------------------------
// stream `pathrpc`: arbitrary daemon Path messages, and `to_rpc`

type RpcPath = pb::daemon::v1::Path;

fn link_name(t: &LinkType) -> String {
    match t {
        LinkType::Unset => "unset".into(),
        LinkType::Direct => "direct".into(),
        LinkType::MultiHop => "multihop".into(),
        LinkType::OpenNet => "opennet".into(),
        LinkType::Unknown(v) => format!("unknown:{v}"),
    }
}

fn canon_meta(m: &PathMetadata) -> String {
    let ifs = match &m.interfaces {
        None => "I0".to_string(),
        Some(l) => {
            let mut s = format!("I1 {}", l.len());
            for x in l {
                let geo = match &x.geo_info {
                    None => "G0".to_string(),
                    Some(g) => format!(
                        "G1 {} {} {}",
                        g.latitude.to_bits(),
                        g.longitude.to_bits(),
                        match &g.address { None => "A0".to_string(), Some(a) => format!("A1 {}", hex(a.as_bytes())) }
                    ),
                };
                let lat = match &x.latency { None => "L0".to_string(), Some(d) => format!("L1 {} {}", d.as_secs(), d.subsec_nanos()) };
                let bw = match &x.bandwidth { None => "W0".to_string(), Some(b) => format!("W1 {b}") };
                let link = match &x.link {
                    None => "K0".to_string(),
                    Some(LinkMeta::Ingress { internal_hop_count }) => format!("KI {internal_hop_count}"),
                    Some(LinkMeta::Egress(t)) => format!("KE {}", link_name(t)),
                };
                s.push_str(&format!(" {} {} {geo} {lat} {bw} {link}", x.interface.isd_asn.to_u64(), x.interface.id));
            }
            s
        }
    };
    let epic = match &m.epic_auth {
        None => "P0".to_string(),
        Some(e) => format!("P1 {} {}", hex(&e.phop_authenticator), hex(&e.lhop_authenticator)),
    };
    let notes = match &m.notes {
        None => "N0".to_string(),
        Some(l) => format!("N1 {}{}", l.len(), l.iter().map(|n| format!(" {}", hex(n.as_bytes()))).collect::<String>()),
    };
    format!("{} {} {ifs} {epic} {notes}", m.expiration, m.mtu)
}

fn canon_path(p: &ScionPath) -> String {
    use sciparse::dataplane_path::view::ScionDpPathView;
    let dp = match p.dp_path() {
        ScionDpPathView::Empty => "E".to_string(),
        ScionDpPathView::Standard(v) => format!("S {}", hex(v.as_slice())),
        _ => "O".to_string(),
    };
    let nh = match p.next_hop() { None => "H0".to_string(), Some(a) => format!("H1 {}", hex(a.to_string().as_bytes())) };
    let meta = match p.metadata() { None => "M0".to_string(), Some(m) => format!("M1 {}", canon_meta(m)) };
    format!("{} {} {dp} {nh} {meta}", p.src_ia().to_u64(), p.dst_ia().to_u64())
}

fn canon_rpath(r: &RpcPath) -> String {
    fn cnt<T>(l: &[T], f: impl Fn(&T) -> String) -> String {
        format!("{}{}", l.len(), l.iter().map(|x| format!(" {}", f(x))).collect::<String>())
    }
    let addr = match r.interface.as_ref().and_then(|i| i.address.as_ref()) {
        None => "A0".to_string(),
        Some(a) => format!("A1 {}", hex(a.address.as_bytes())),
    };
    let exp = match &r.expiration { None => "X0".to_string(), Some(t) => format!("X1 {} {}", t.seconds, t.nanos) };
    let epic = match &r.epic_auths { None => "P0".to_string(), Some(e) => format!("P1 {} {}", hex(&e.auth_phvf), hex(&e.auth_lhvf)) };
    format!(
        "{} {addr} {} {} {exp} {} {} {} {} {} {} {epic}",
        hex(&r.raw),
        cnt(&r.interfaces, |i| format!("{} {}", i.isd_as, i.id)),
        r.mtu,
        cnt(&r.latency, |d| format!("{} {}", d.seconds, d.nanos)),
        cnt(&r.bandwidth, |b| b.to_string()),
        cnt(&r.geo, |g| format!("{} {} {}", g.latitude.to_bits(), g.longitude.to_bits(), hex(g.address.as_bytes()))),
        cnt(&r.link_type, |i| i.to_string()),
        cnt(&r.internal_hops, |h| h.to_string()),
        cnt(&r.notes, |n| hex(n.as_bytes())),
    )
}

fn valid_raw(rng: &mut Rng) -> Vec<u8> {
    let l0 = rng.range(1, 4) as u32;
    let l1 = if rng.chance(1, 2) { rng.range(1, 3) as u32 } else { 0 };
    let l2 = if l1 > 0 && rng.chance(1, 2) { rng.range(1, 3) as u32 } else { 0 };
    let meta: u32 = (l0 << 12) | (l1 << 6) | l2;
    let mut raw = meta.to_be_bytes().to_vec();
    for _ in 0..[l0, l1, l2].iter().filter(|&&l| l > 0).count() {
        raw.extend_from_slice(&[rng.below(2) as u8, 0]);
        raw.extend_from_slice(&rng.bytes(2));
        raw.extend_from_slice(&(rng.below(2_000_000_000) as u32).to_be_bytes());
    }
    for _ in 0..(l0 + l1 + l2) {
        raw.push(0);
        raw.push(rng.next() as u8);
        raw.extend_from_slice(&rng.bytes(10));
    }
    raw
}

fn gen_rpc_path(rng: &mut Rng) -> (RpcPath, IsdAsn, IsdAsn) {
    let mut p = RpcPath::default();
    let mostly_valid = rng.chance(3, 4);
    p.raw = match rng.below(if mostly_valid { 12 } else { 5 }) {
        0 => vec![],
        1 => { let l_ = rng.range(1, 40) as usize; rng.bytes(l_) },
        2 => { let mut r = valid_raw(rng); r.truncate(r.len() - rng.range(1, 5) as usize); r }
        3 => { let mut r = valid_raw(rng); r.extend({ let l_ = rng.range(1, 13) as usize; rng.bytes(l_) }); r }
        _ => valid_raw(rng),
    };
    let ias = [0u64, 1, 1 << 48, (1 << 48) | 1, IA_BASE, IA_BASE + 1, u64::MAX];
    let src = IsdAsn::from(if mostly_valid { IA_BASE } else { *rng.pick(&ias) });
    let dst = IsdAsn::from(if rng.chance(1, 4) { src.to_u64() } else if mostly_valid { IA_BASE + 9 } else { *rng.pick(&ias) });
    let n = if mostly_valid { *rng.pick(&[2usize, 2, 4, 4, 6, 8]) } else { rng.below(8) as usize };
    p.interfaces = (0..n)
        .map(|i| pb::daemon::v1::PathInterface {
            isd_as: IA_BASE + (i as u64 + 1) / 2,
            id: if rng.chance(1, if mostly_valid { 40 } else { 4 }) { big(rng, 16) } else { rng.below(65536) },
        })
        .collect();
    p.mtu = if rng.chance(1, if mostly_valid { 20 } else { 3 }) { big(rng, 16) as u32 } else { rng.range(1000, 9000) as u32 };
    p.expiration = if rng.chance(1, if mostly_valid { 20 } else { 3 }) {
        None
    } else {
        Some(prost_types::Timestamp {
            seconds: if rng.chance(1, 6) { *rng.pick(&[-1i64, 0, i64::MAX, i64::MIN, -5]) } else { rng.below(4_000_000_000) as i64 },
            nanos: if rng.chance(1, 4) { rng.next() as i32 } else { 0 },
        })
    };
    // vector lengths: expected, off by one, empty, arbitrary
    let len = |rng: &mut Rng, expected: usize| -> usize {
        match rng.below(if mostly_valid { 10 } else { 4 }) {
            0 => 0,
            1 => expected + 1,
            2 => expected.saturating_sub(1),
            3 => rng.below(9) as usize,
            _ => expected,
        }
    };
    let nl = len(rng, n.saturating_sub(1));
    p.latency = (0..nl)
        .map(|_| {
            let edge_s = [-1i64, 0, 1, i64::MAX, i64::MIN, -2];
            let edge_n = [0i32, -1, 1, 999_999_999, 1_000_000_000, -1_000_000_000, i32::MAX, i32::MIN, 1_500_000_000];
            prost_types::Duration {
                seconds: if rng.chance(1, 3) { *rng.pick(&edge_s) } else { rng.below(100) as i64 },
                nanos: if rng.chance(1, 3) { *rng.pick(&edge_n) } else { rng.below(1_000_000_000) as i32 },
            }
        })
        .collect();
    let nb = len(rng, n.saturating_sub(1));
    p.bandwidth = (0..nb).map(|_| if rng.chance(1, 4) { 0 } else { rng.next() >> rng.below(60) }).collect();
    let ng = len(rng, n);
    p.geo = (0..ng)
        .map(|_| {
            let f = |rng: &mut Rng| -> f32 {
                match rng.below(6) {
                    0 => 0.0,
                    1 => -0.0,
                    2 => f32::NAN,
                    3 => f32::INFINITY,
                    _ => f32::from_bits(rng.next() as u32),
                }
            };
            pb::daemon::v1::GeoCoordinates {
                latitude: f(rng),
                longitude: f(rng),
                address: if rng.chance(1, 2) { String::new() } else { rng.pick(&["Zurich", "x", "Bern, CH"]).to_string() },
            }
        })
        .collect();
    let nt = len(rng, n / 2);
    p.link_type = (0..nt).map(|_| if rng.chance(1, 3) { *rng.pick(&[-1i32, 4, 255, 256, 257, 258, 259, i32::MAX, i32::MIN, 513]) } else { rng.below(4) as i32 }).collect();
    let nh = len(rng, (n / 2).saturating_sub(1));
    p.internal_hops = (0..nh).map(|_| if rng.chance(1, 4) { 0 } else { rng.next() as u32 >> rng.below(30) }).collect();
    let nn = len(rng, n / 2 + 1);
    p.notes = (0..nn).map(|_| rng.pick(&["", "note", "ä"]).to_string()).collect();
    if rng.chance(1, 3) {
        p.epic_auths = Some(pb::daemon::v1::EpicAuths { auth_phvf: { let l_ = rng.below(17) as usize; rng.bytes(l_) }, auth_lhvf: { let l_ = rng.below(17) as usize; rng.bytes(l_) } });
    }
    p.interface = match rng.below(8) {
        0 => Some(pb::daemon::v1::Interface { address: None }),
        1 | 2 | 3 => Some(pb::daemon::v1::Interface {
            address: Some(pb::daemon::v1::Underlay {
                address: rng.pick(&["10.0.0.1:30041", "[::1]:80", "[fe80::1%3]:5", "192.168.1.1:0", "", "10.0.0.1", "host:1", "1.2.3.4:99999", "[::1]", " 1.1.1.1:1"]).to_string(),
            }),
        }),
        _ => None,
    };
    (p, src, dst)
}

fn pathrpc_request(r: &RpcPath, src: IsdAsn, dst: IsdAsn) -> String {
    let raw_parse = if r.raw.is_empty() {
        "err"
    } else {
        match StandardPathView::try_from_slice(&r.raw) {
            Err(_) => "err",
            Ok((_, rest)) => if rest.is_empty() { "exact" } else { "extra" },
        }
    };
    let addr_parse = match r.interface.as_ref().and_then(|i| i.address.as_ref()) {
        None => "n".to_string(),
        Some(a) => match a.address.parse::<std::net::SocketAddr>() {
            Err(_) => "n".to_string(),
            Ok(sa) => format!("y {}", hex(sa.to_string().as_bytes())),
        },
    };
    format!("pathrpc {} {} {raw_parse} {addr_parse} {}", src.to_u64(), dst.to_u64(), canon_rpath(r))
}

fn has_unknown_alias(p: &ScionPath) -> bool {
    p.metadata().and_then(|m| m.interfaces.as_ref()).map(|l| l.iter().any(|x| matches!(x.link, Some(LinkMeta::Egress(LinkType::Unknown(v))) if v <= 3))).unwrap_or(false)
}

fn check_to_rpc(what: &str, p: &ScionPath, lean: &mut Lean, rep: &mut Report) -> Option<RpcPath> {
    let r = catch(|| p.to_rpc());
    let imp = match &r { Err(_) => "panic".to_string(), Ok(r) => canon_rpath(r) };
    let cp = canon_path(p);
    if cp.contains(" O ") {
        return r.ok();
    }
    let model = lean.ask(&format!("pathto {cp}"));
    rep.traces += 1;
    let cut = |s: &str| if s.len() > 300 { format!("{}…", &s[..300]) } else { s.to_string() };
    if lean.differs(&model, &imp) {
        rep.disagree(&format!("path to_rpc/{what}"), json!({"what": what, "path": cp}), &cut(&imp), &cut(&model));
    }
    rep.hit("to_rpc compared");
    if r.is_err() {
        rep.spec_fail("C18:panic:path-rpc", "ScionPath::to_rpc panicked", json!({"path": cp}));
    }
    r.ok()
}

fn check_pathrpc(what: &str, r: &RpcPath, src: IsdAsn, dst: IsdAsn, lean: &mut Lean, rep: &mut Report) {
    let res = catch(|| ScionPath::try_from_rpc(r.clone(), src, dst));
    let imp = match &res {
        Err(_) => "panic".to_string(),
        Ok(Err(e)) => format!("err {}", rerr_label(e)),
        Ok(Ok(p)) => format!("ok {}", canon_path(p)),
    };
    let model = lean.ask(&pathrpc_request(r, src, dst));
    rep.traces += 1;
    let enc = r.encode_to_vec();
    let line = format!("pathrpc-case {} {} {}", src.to_u64(), dst.to_u64(), hex(&enc));
    let case = || json!({"what": what, "line": line});
    let cut = |s: &str| if s.len() > 400 { format!("{}…", &s[..400]) } else { s.to_string() };
    if lean.differs(&model, &imp) {
        rep.disagree(&format!("path try_from_rpc/{what}"), case(), &cut(&imp), &cut(&model));
    }
    let label = imp.split(' ').take(2).collect::<Vec<_>>().join(" ");
    rep.hit(&format!("pathrpc -> {}", if imp.starts_with("ok") { "ok" } else { &label }));
    rep.case(&format!("pathrpc|{}|{}|{}", src.to_u64(), dst.to_u64(), hex(&enc)), imp.starts_with("ok") || !imp.starts_with("err raw"));
    match res {
        Err(m) => rep.spec_fail("C18:panic:path-rpc", &format!("ScionPath::try_from_rpc panicked: {m}"), case()),
        Ok(Err(_)) => {}
        Ok(Ok(p)) => {
            // wire format: a daemon GeoCoordinates message means "no geo information" only when all its fields
            // have the proto3 default (latitude 0, longitude 0, empty address) - that is what to_rpc writes for
            // an absent geo_info; every other message carries a position / an address and must be kept bit for
            // bit when the vector has one entry per interface
            if let Some(ifs) = p.metadata().and_then(|m| m.interfaces.as_ref()) {
                if r.geo.len() == ifs.len() {
                    for (i, (g, x)) in r.geo.iter().zip(ifs.iter()).enumerate() {
                        let absent = g.latitude == 0.0 && g.longitude == 0.0 && g.address.is_empty();
                        let kept = match &x.geo_info {
                            None => absent,
                            Some(k) => !absent && k.latitude.to_bits() == g.latitude.to_bits() && k.longitude.to_bits() == g.longitude.to_bits() && k.address.clone().unwrap_or_default() == g.address,
                        };
                        if !kept {
                            rep.spec_fail("C18:path-from-rpc:geo-info", &format!("try_from_rpc does not keep the geo entry of interface {i}: message (lat {:e} = bits {:#010x}, lon {:e} = bits {:#010x}, address {:?}) became {:?}", g.latitude, g.latitude.to_bits(), g.longitude, g.longitude.to_bits(), g.address, x.geo_info), case());
                            break;
                        }
                    }
                    rep.hit("pathrpc: geo vector checked entry by entry");
                }
            }
            // to_rpc vs model, then the round trip (spec)
            let Some(back) = check_to_rpc(what, &p, lean, rep) else { return };
            match catch(|| ScionPath::try_from_rpc(back, src, dst)) {
                Ok(Ok(p2)) => {
                    let (c1, c2) = (canon_path(&p), canon_path(&p2));
                    if c1 != c2 {
                        let exp_big = p.metadata().map(|m| m.expiration > i64::MAX as u64).unwrap_or(false);
                        let geo = geo_lost(&p, &p2);
                        let key = if has_unknown_alias(&p) { "C18:path-roundtrip:linktype-unknown-alias" }
                                  else if exp_big { "C18:path-roundtrip:expiration-above-i64" }
                                  else if geo.is_some() { "C18:path-roundtrip:geo-info" }
                                  else { "C18:path-roundtrip" };
                        rep.spec_fail(key, &format!("try_from_rpc(to_rpc(p)) != p: {}{} vs {}", geo.map(|g| format!("{g}; ")).unwrap_or_default(), cut(&c1), cut(&c2)), case());
                    } else if p2 != p {
                        // bitwise equal canonical form but `==` false: NaN coordinates
                        rep.hit("path roundtrip: bitwise equal, PartialEq false (NaN geo)");
                    } else {
                        rep.hit("path roundtrip ok");
                    }
                }
                Ok(Err(e)) => rep.spec_fail("C18:path-roundtrip", &format!("try_from_rpc(to_rpc(p)) failed: {e}"), case()),
                Err(_) => rep.spec_fail("C18:panic:path-rpc", "try_from_rpc panicked on to_rpc output", case()),
            }
        }
    }
}

/// directly constructed paths with arbitrary (also non-canonical) metadata: `to_rpc` vs the model
fn gen_direct_path(rng: &mut Rng) -> ScionPath {
    let raw = valid_raw(rng);
    let view = StandardPathView::try_from_slice(&raw).map(|(v, _)| v.to_boxed());
    let src = IsdAsn::from(IA_BASE);
    let dst = IsdAsn::from(IA_BASE + 5);
    let n = rng.below(7) as usize;
    let interfaces = (0..n)
        .map(|i| InterfaceMetadata {
            interface: PathInterface::new(IsdAsn::from(IA_BASE + i as u64), rng.next() as u16),
            geo_info: rng.chance(1, 2).then(|| GeoCoordinates::new(
                if rng.chance(1, 3) { 0.0 } else { f32::from_bits(rng.next() as u32) },
                if rng.chance(1, 3) { 0.0 } else { f32::from_bits(rng.next() as u32) },
                match rng.below(3) { 0 => None, 1 => Some(String::new()), _ => Some("Bern".into()) })),
            latency: rng.chance(1, 2).then(|| std::time::Duration::new(if rng.chance(1, 8) { u64::MAX } else { rng.below(1000) }, rng.below(1_000_000_000) as u32)),
            bandwidth: rng.chance(1, 2).then(|| if rng.chance(1, 4) { 0 } else { rng.next() }),
            link: match rng.below(4) {
                0 => None,
                1 => Some(LinkMeta::Ingress { internal_hop_count: rng.next() as u32 >> rng.below(31) }),
                _ => Some(LinkMeta::Egress(LinkType::from_i32(*rng.pick(&[0, 1, 2, 3, 4, 200, 256, 257])))),
            },
        })
        .collect::<Vec<_>>();
    let meta = rng.chance(7, 8).then(|| PathMetadata {
        expiration: if rng.chance(1, 5) { *rng.pick(&[0u64, i64::MAX as u64, i64::MAX as u64 + 1, u64::MAX]) } else { rng.below(4_000_000_000) },
        mtu: rng.next() as u16,
        interfaces: rng.chance(7, 8).then_some(interfaces),
        epic_auth: rng.chance(1, 3).then(|| EpicAuths::new(rng.bytes(4), rng.bytes(3))),
        notes: match rng.below(3) { 0 => None, 1 => Some((0..(n / 2 + 1)).map(|i| format!("n{i}")).collect()), _ => Some(vec!["x".into(); rng.below(5) as usize]) },
    });
    let next_hop = rng.chance(1, 2).then(|| rng.pick(&["10.1.2.3:4", "[2001:db8::1]:443"]).parse().unwrap());
    match view {
        Ok(v) => ScionPath::new(src, dst, v.into(), meta, next_hop),
        Err(_) => ScionPath::local(src).unwrap(),
    }
}

/// a coordinate from the boundary regions of f32: around the origin (down to the smallest subnormal), signed
/// zero, around 1 ulp / f32::EPSILON / MIN_POSITIVE, the ends of the range, infinities, NaNs with payload, and
/// ordinary WGS 84 values
fn edge_coord(rng: &mut Rng) -> f32 {
    let v = match rng.below(12) {
        0 => 0.0,
        1 => f32::from_bits(1 + (rng.next() as u32 & 0xff)),                 // smallest subnormals
        2 => f32::from_bits(rng.next() as u32 & 0x007f_ffff),                // any subnormal (or 0)
        3 => f32::MIN_POSITIVE,
        4 => *rng.pick(&[5.0e-8f32, 2.5e-8, 1.0e-7, 1.0e-10, 1.0e-20, 1.0e-30, 1.0e-38]),
        5 => f32::from_bits(f32::EPSILON.to_bits().wrapping_add(rng.below(5) as u32).wrapping_sub(2)), // EPSILON ± 2 ulp
        6 => *rng.pick(&[f32::EPSILON / 2.0, f32::EPSILON * 2.0, 1.0e-6, 1.0e-5, 1.0e-3]),
        7 => f32::from_bits(0x7fc0_0000 | (rng.next() as u32 & 0x003f_ffff)), // quiet NaN with payload
        8 => f32::from_bits(0x7f80_0001 + (rng.next() as u32 & 0x003f_fffe)), // signalling NaN
        9 => *rng.pick(&[f32::INFINITY, f32::MAX, 90.0, 180.0, 1.0]),
        10 => f32::from_bits((rng.below(0x68) as u32) << 23 | (rng.next() as u32 & 0x007f_ffff)), // |x| < 2^-23
        _ => (rng.below(180_000) as f32) / 1000.0,
    };
    if rng.chance(1, 2) { -v } else { v }
}

/// a directly constructed path that satisfies every condition of `PathCanon` (Lemmas/Signed.lean) by
/// construction: even, non-zero interface count; expiration ≤ i64::MAX; notes absent or one per AS; nothing on
/// the last interface; link types on all even interfaces or on none; hop counts on all inner odd interfaces or
/// on none; no zero bandwidth, no all-zero geo, no empty address
fn gen_canonical_direct_path(rng: &mut Rng) -> ScionPath {
    let raw = valid_raw(rng);
    let view = StandardPathView::try_from_slice(&raw).map(|(v, _)| v.to_boxed()).expect("valid raw");
    let n = *rng.pick(&[2usize, 2, 4, 6, 8]);
    let even_links = rng.chance(2, 3);
    let odd_links = rng.chance(1, 2);
    let interfaces = (0..n)
        .map(|i| {
            let last = i == n - 1;
            InterfaceMetadata {
                interface: PathInterface::new(IsdAsn::from(IA_BASE + (i as u64 + 1) / 2), rng.next() as u16),
                geo_info: rng.chance(1, 2).then(|| {
                    let addr = match rng.below(2) { 0 => None, _ => Some("Bern".to_string()) };
                    if rng.chance(1, 2) {
                        // a present position anywhere in the f32 range, in particular next to the origin,
                        // signed zeros, subnormals, infinities, NaNs: every bit pattern is a value of the
                        // field and has to come back (only lat == 0 && lon == 0 without address is the wire
                        // form of "absent" and is excluded, see direct_class)
                        let (mut lat, lon) = (edge_coord(rng), edge_coord(rng));
                        if lat == 0.0 && lon == 0.0 && addr.is_none() {
                            lat = f32::from_bits(1 + (rng.next() as u32 & 0x7f));
                        }
                        return GeoCoordinates::new(lat, lon, addr);
                    }
                    let lat = if addr.is_none() || rng.chance(1, 2) { f32::from_bits(0x3f80_0000 | (rng.next() as u32 & 0xffff)) } else { 0.0 };
                    GeoCoordinates::new(lat, if rng.chance(1, 2) { 0.0 } else { -7.5 }, addr)
                }),
                latency: (!last && rng.chance(1, 2)).then(|| std::time::Duration::new(if rng.chance(1, 8) { i64::MAX as u64 } else { rng.below(1000) }, rng.below(1_000_000_000) as u32)),
                bandwidth: (!last && rng.chance(1, 2)).then(|| 1 + (rng.next() >> rng.below(63))),
                link: if i % 2 == 0 {
                    even_links.then(|| LinkMeta::Egress(LinkType::from_i32(*rng.pick(&[0, 1, 2, 3, 4, 200, 255]))))
                } else if !last && odd_links {
                    Some(LinkMeta::Ingress { internal_hop_count: rng.next() as u32 >> rng.below(31) })
                } else {
                    None
                },
            }
        })
        .collect::<Vec<_>>();
    let meta = PathMetadata {
        expiration: if rng.chance(1, 5) { *rng.pick(&[0u64, i64::MAX as u64]) } else { rng.below(4_000_000_000) },
        mtu: rng.next() as u16,
        interfaces: Some(interfaces),
        epic_auth: rng.chance(1, 3).then(|| EpicAuths::new(rng.bytes(4), rng.bytes(3))),
        notes: rng.chance(1, 2).then(|| (0..(n / 2 + 1)).map(|i| if i == 1 { String::new() } else { format!("n{i}") }).collect()),
    };
    let next_hop = rng.chance(1, 2).then(|| rng.pick(&["10.1.2.3:4", "[2001:db8::1]:443"]).parse().unwrap());
    ScionPath::new(IsdAsn::from(IA_BASE), IsdAsn::from(IA_BASE + 5), view.into(), Some(meta), next_hop)
}

/// Why a directly constructed standard path is outside the set `to_rpc → try_from_rpc` reproduces, as the
/// specific class of the open finding (independent re-statement of `PathCanon`); `None` = canonical: must survive
fn direct_class(p: &ScionPath) -> Option<&'static str> {
    let Some(m) = p.metadata() else { return Some("C18:path-roundtrip:direct:no-interface-metadata") };
    let Some(ifs) = m.interfaces.as_ref() else { return Some("C18:path-roundtrip:direct:no-interface-metadata") };
    let n = ifs.len();
    if n == 0 || n % 2 != 0 {
        return Some("C18:path-roundtrip:direct:no-interface-metadata");
    }
    if m.expiration > i64::MAX as u64 {
        return Some("C18:path-roundtrip:expiration-above-i64");
    }
    if has_unknown_alias(p) {
        return Some("C18:path-roundtrip:linktype-unknown-alias");
    }
    let shape = "C18:path-roundtrip:direct:metadata-shape";
    if m.notes.as_ref().map(|l| l.len() != n / 2 + 1).unwrap_or(false) {
        return Some(shape);
    }
    let last = &ifs[n - 1];
    if last.latency.is_some() || last.bandwidth.is_some() || last.link.is_some() {
        return Some(shape);
    }
    let evens: Vec<&InterfaceMetadata> = ifs.iter().step_by(2).collect();
    let all_egress = evens.iter().all(|x| matches!(x.link, Some(LinkMeta::Egress(_))));
    if !(all_egress || evens.iter().all(|x| x.link.is_none())) {
        return Some(shape);
    }
    let inner_odds: Vec<&InterfaceMetadata> = ifs.iter().skip(1).step_by(2).take(n / 2 - 1).collect();
    let all_ingress = inner_odds.iter().all(|x| matches!(x.link, Some(LinkMeta::Ingress { .. })));
    if !(all_ingress || inner_odds.iter().all(|x| x.link.is_none())) {
        return Some(shape);
    }
    let zero = "C18:path-roundtrip:direct:zero-values";
    for x in ifs {
        if x.bandwidth == Some(0) || x.latency.map(|d| d.as_secs() > i64::MAX as u64).unwrap_or(false) {
            return Some(zero);
        }
        if let Some(g) = &x.geo_info {
            let empty_addr = g.address.as_ref().map(|a| a.is_empty()).unwrap_or(true);
            if g.address.as_deref() == Some("") || (g.latitude == 0.0 && g.longitude == 0.0 && empty_addr) {
                return Some(zero);
            }
        }
    }
    None
}

/// first interface whose geo information differs (bit level: latitude / longitude bits, address bytes, presence)
/// between a path and what came back from `to_rpc → try_from_rpc`
fn geo_lost(p: &ScionPath, p2: &ScionPath) -> Option<String> {
    let a = p.metadata()?.interfaces.as_ref()?;
    let b = p2.metadata().and_then(|m| m.interfaces.as_ref());
    let show = |g: &Option<GeoCoordinates>| match g {
        None => "None".to_string(),
        Some(g) => format!("Some(lat {:e} = bits {:#010x}, lon {:e} = bits {:#010x}, address {:?})", g.latitude, g.latitude.to_bits(), g.longitude, g.longitude.to_bits(), g.address),
    };
    let bits = |g: &Option<GeoCoordinates>| g.as_ref().map(|g| (g.latitude.to_bits(), g.longitude.to_bits(), g.address.clone()));
    for (i, x) in a.iter().enumerate() {
        let y = b.and_then(|l| l.get(i)).map(|y| y.geo_info.clone()).unwrap_or(None);
        if bits(&x.geo_info) != bits(&y) {
            return Some(format!("interface {i}: geo_info {} came back as {}", show(&x.geo_info), show(&y)));
        }
    }
    None
}

/// spec for directly constructed paths: `try_from_rpc(to_rpc(p), src, dst)` gives `p` back
fn check_direct_roundtrip(what: &str, p: &ScionPath, back: RpcPath, rep: &mut Report) {
    let cp = canon_path(p);
    let cut = |s: &str| if s.len() > 400 { format!("{}…", &s[..400]) } else { s.to_string() };
    let class = direct_class(p);
    rep.case(&format!("direct|{cp}"), class.is_none());
    let res = catch(|| ScionPath::try_from_rpc(back, p.src_ia(), p.dst_ia()));
    let mut geo = None;
    let lost = match &res {
        Err(_) => {
            rep.spec_fail("C18:panic:path-rpc", "try_from_rpc panicked on to_rpc output of a directly built path", json!({"what": what, "path": cut(&cp)}));
            return;
        }
        Ok(Err(e)) => Some(format!("try_from_rpc(to_rpc(p)) failed: {e}")),
        Ok(Ok(p2)) => {
            let c2 = canon_path(p2);
            geo = geo_lost(p, p2);
            (c2 != cp).then(|| format!("try_from_rpc(to_rpc(p)) != p: got {}", cut(&c2)))
        }
    };
    if class.is_none() {
        if let Some(g) = &p.metadata().and_then(|m| m.interfaces.as_ref()).map(|l| l.iter().filter_map(|x| x.geo_info.as_ref()).collect::<Vec<_>>()) {
            if g.iter().any(|g| g.address.is_none() && g.latitude.abs() < 1.0e-6 && g.longitude.abs() < 1.0e-6) { rep.hit("direct path (canonical): a position within 1e-6 of the origin, no address"); }
            if g.iter().any(|g| g.latitude.is_nan() || g.longitude.is_nan()) { rep.hit("direct path (canonical): NaN coordinate"); }
            if g.iter().any(|g| g.latitude.to_bits() == 0x8000_0000 || g.longitude.to_bits() == 0x8000_0000) { rep.hit("direct path (canonical): negative-zero coordinate"); }
        }
    }
    // the geo information of a canonical path (present with a non-zero coordinate or an address, or absent) is
    // reported under its own key with the interface and the coordinate bits
    if let (Some(g), None) = (&geo, class) {
        rep.spec_fail("C18:path-roundtrip:geo-info", &format!("ScionPath -> to_rpc -> try_from_rpc changes the geo information of a path whose coordinates are not the wire form of 'absent': {g}"), json!({"what": what, "path": cut(&cp)}));
        return;
    }
    match (lost, class) {
        (None, None) => rep.hit("direct path (canonical): roundtrip ok"),
        (None, Some(c)) => rep.hit(&format!("direct path in class {}: survives anyway", c.rsplit(':').next().unwrap())),
        (Some(w), None) => rep.spec_fail("C18:path-roundtrip", &format!("a directly built canonical path does not survive: {w}"), json!({"what": what, "path": cut(&cp)})),
        (Some(w), Some(c)) => rep.spec_fail(c, &format!("a directly built path does not survive to_rpc → try_from_rpc: {w}"), json!({"what": what, "path": cut(&cp)})),
    }
}


/// `Segments` / `SegmentsPage` (grouping by segment type; not modelled): round trip and arbitrary type keys
fn check_segments_page(rng: &mut Rng, pool: &[SignedPathSegment], rep: &mut Report) {
    use sciparse::segment::{Segments, SegmentsPage};
    let pick = |rng: &mut Rng| -> Vec<SignedPathSegment> { (0..rng.below(3)).map(|_| rng.pick(pool).clone()).collect() };
    let page = SegmentsPage {
        segments: Segments { up_segments: pick(rng), down_segments: pick(rng), core_segments: pick(rng) },
        next_page_token: String::new(),
    };
    let mut rpc = page.clone().into_rpc();
    match catch(|| SegmentsPage::try_from_rpc(rpc.clone())) {
        Ok(Ok(back)) if back == page => rep.hit("segments page roundtrip ok"),
        Ok(_) => rep.spec_fail("C18:segments-page-roundtrip", "SegmentsPage does not survive into_rpc → try_from_rpc", json!({})),
        Err(_) => rep.spec_fail("C18:panic:segment-rpc", "SegmentsPage::try_from_rpc panicked", json!({})),
    }
    // unknown / unspecified segment types are skipped, never an error or a panic
    let extra = pb::control_plane::v1::segments_response::Segments { segments: pool.iter().take(1).map(|s| s.clone().into_rpc()).collect() };
    for k in [0i32, -1, 4, 77, i32::MAX, i32::MIN] {
        rpc.segments.insert(k, extra.clone());
    }
    match catch(|| SegmentsPage::try_from_rpc(rpc)) {
        Ok(Ok(back)) if back == page => rep.hit("segments page: unknown types skipped"),
        Ok(_) => rep.spec_fail("C18:segments-page-roundtrip", "unknown segment types are not skipped", json!({})),
        Err(_) => rep.spec_fail("C18:panic:segment-rpc", "SegmentsPage::try_from_rpc panicked on unknown segment types", json!({})),
    }
    rep.case(&format!("page|{}|{}|{}", page.segments.up_segments.len(), page.segments.down_segments.len(), page.segments.core_segments.len()), true);
}

// ------------------------------------------------------------------------------------------------
// deterministic probes of the listed findings (so that they reproduce on every run)

fn probe_findings(rng: &mut Rng, lean: &mut Lean, rep: &mut Report, tally: &mut Tally) {
    // (a) replayed entry appended: [A, B, C] -> [A, B, C, A]
    let h = gen_honest(rng, 3, 0);
    let set = h.set.clone();
    let rpc = h.rpc.clone();
    let mut t = rpc.clone();
    t.as_entries.push(rpc.as_entries[0].clone());
    if let Some(var) = conv(t) {
        check_positions("extension-replay", "probe: copy of entry 0 appended", &h, &set, &var, &[0, 1, 2, 3], None, Some(lean), rep, tally);
    }
    // (b) extensions are lost by the RPC round trip
    let mut e = gen_entry(rng, 0);
    e.extensions = vec![1, 2, 3];
    let key = gen_key(rng);
    let seg = UnsignedPathSegment::new(7, 7, vec![e]).try_into_signed_segment(|_| Some((key.clone(), None)), 1).unwrap();
    match from_rpc_seg(seg.clone().into_rpc()) {
        Ok(Ok(back)) if back == seg => {}
        Ok(Ok(_)) => rep.spec_fail("C18:segment-roundtrip:extensions-lost", "a signed segment whose AsEntry carries extension bytes does not survive into_rpc → try_from_rpc (extensions come back empty)", json!({"segment": seg_brief(&seg)})),
        _ => rep.spec_fail("C18:segment-roundtrip", "conversion of a segment with extensions failed", json!({})),
    }
    // (c) associated data of 2 GiB or more: the i32 header field wraps
    msg_stream_one(rng, lean, rep, false, true);
    // (d) link type alias / expiration beyond i64 in a path obtained from RPC
    let raw = valid_raw(rng);
    let src = IsdAsn::from(IA_BASE);
    let dst = IsdAsn::from(IA_BASE + 1);
    let base = RpcPath {
        raw,
        interfaces: vec![pb::daemon::v1::PathInterface { isd_as: IA_BASE, id: 1 }, pb::daemon::v1::PathInterface { isd_as: IA_BASE + 1, id: 2 }],
        mtu: 1400,
        expiration: Some(prost_types::Timestamp { seconds: 1000, nanos: 0 }),
        ..Default::default()
    };
    let mut p1 = base.clone();
    p1.link_type = vec![257];
    check_pathrpc("probe link type 257", &p1, src, dst, lean, rep);
    let mut p2 = base.clone();
    p2.expiration = Some(prost_types::Timestamp { seconds: -5, nanos: 0 });
    check_pathrpc("probe negative expiration", &p2, src, dst, lean, rep);
    // (e) directly constructed paths outside the canonical set, one per class
    let mk = |meta: Option<PathMetadata>| {
        let raw = [0u8, 0, 0x20, 0, 0, 0, 0, 7, 0, 0, 3, 0xe8, 0, 63, 0, 0, 0, 1, 1, 2, 3, 4, 5, 6, 0, 63, 0, 2, 0, 0, 1, 2, 3, 4, 5, 6];
        let view = StandardPathView::try_from_slice(&raw).map(|(v, _)| v.to_boxed()).expect("probe raw path");
        ScionPath::new(src, dst, view.into(), meta, None)
    };
    let ifm = |ia: u64, id: u16| InterfaceMetadata { interface: PathInterface::new(IsdAsn::from(ia), id), geo_info: None, latency: None, bandwidth: None, link: None };
    let meta = |a: InterfaceMetadata, b: InterfaceMetadata| PathMetadata { expiration: 1000, mtu: 1400, interfaces: Some(vec![a, b]), epic_auth: None, notes: None };
    let probes = [
        ("probe: ScionPath::new(.., None, None) with a standard data-plane path", mk(None)),
        ("probe: latency on the last interface", mk(Some(meta(ifm(IA_BASE, 1), InterfaceMetadata { latency: Some(std::time::Duration::from_millis(5)), ..ifm(IA_BASE + 1, 2) })))),
        ("probe: bandwidth Some(0)", mk(Some(meta(InterfaceMetadata { bandwidth: Some(0), ..ifm(IA_BASE, 1) }, ifm(IA_BASE + 1, 2))))),
        ("probe: position next to the origin (5.0e-8, -2.5e-8), no address", mk(Some(meta(InterfaceMetadata { geo_info: Some(GeoCoordinates::new(5.0e-8, -2.5e-8, None)), ..ifm(IA_BASE, 1) }, ifm(IA_BASE + 1, 2))))),
        ("probe: smallest subnormal latitude, longitude 0, no address", mk(Some(meta(ifm(IA_BASE, 1), InterfaceMetadata { geo_info: Some(GeoCoordinates::new(f32::from_bits(1), 0.0, None)), ..ifm(IA_BASE + 1, 2) })))),
        ("probe: latitude -0.0, longitude f32::EPSILON, no address", mk(Some(meta(InterfaceMetadata { geo_info: Some(GeoCoordinates::new(-0.0, f32::EPSILON, None)), ..ifm(IA_BASE, 1) }, ifm(IA_BASE + 1, 2))))),
        ("probe: NaN coordinates, no address", mk(Some(meta(InterfaceMetadata { geo_info: Some(GeoCoordinates::new(f32::NAN, f32::from_bits(0xffc0_1234), None)), ..ifm(IA_BASE, 1) }, ifm(IA_BASE + 1, 2))))),
        ("probe: canonical two-interface path", mk(Some(meta(InterfaceMetadata { bandwidth: Some(5), latency: Some(std::time::Duration::from_millis(5)), link: Some(LinkMeta::Egress(LinkType::Direct)), ..ifm(IA_BASE, 1) }, ifm(IA_BASE + 1, 2))))),
    ];
    for (what, p) in probes {
        if let Some(back) = check_to_rpc(what, &p, lean, rep) {
            check_direct_roundtrip(what, &p, back, rep);
        }
    }
}

// ------------------------------------------------------------------------------------------------

fn run_corpus_line(l: &str, lean: &mut Lean, rep: &mut Report) -> bool {
    let mut it = l.split_whitespace();
    match it.next() {
        Some("segrpc-case") => {
            let Some(b) = it.next().and_then(unhex) else { return false };
            let Ok(r) = RpcSeg::decode(b.as_slice()) else { return false };
            check_segrpc("corpus", &r, lean, rep);
            true
        }
        Some("pathrpc-case") => {
            let (Some(s), Some(d), Some(b)) = (it.next().and_then(|x| x.parse::<u64>().ok()), it.next().and_then(|x| x.parse::<u64>().ok()), it.next().and_then(unhex)) else { return false };
            let Ok(r) = RpcPath::decode(b.as_slice()) else { return false };
            check_pathrpc("corpus", &r, IsdAsn::from(s), IsdAsn::from(d), lean, rep);
            true
        }
        Some("seg-expect-case") => {
            // `seg-expect-case accept|reject RPC KEY…`: a segment in RPC form (with the segment-info bytes as
            // received) + the public key offered at each position; spec: every position accepted / rejected
            let Some(expect) = it.next().and_then(|x| match x { "accept" => Some(true), "reject" => Some(false), _ => None }) else { return false };
            let Some(b) = it.next().and_then(unhex) else { return false };
            let Ok(r) = RpcSeg::decode(b.as_slice()) else { return false };
            let keys: Vec<Option<VerifyingKey>> = it.map(|k| unhex(k).and_then(|b| VerifyingKey::from_sec1_bytes(&b).ok())).collect();
            check_segrpc("corpus", &r, lean, rep);
            let (n_sent, info_sent) = (r.as_entries.len(), r.segment_info.clone());
            let Some(var) = conv(r) else {
                // an authentic segment the receiver cannot even turn into a value can never be validated
                if expect && keys.len() == n_sent && proto3_info_fields(&info_sent).is_some() {
                    let key = if matches!(proto3_info_fields(&info_sent), Some((0, _)) | Some((_, 0))) { "C18:segment-roundtrip:default-info" } else { "C18:segment-roundtrip" };
                    rep.case(&format!("corpus-expect|{l}|unconvertible"), true);
                    rep.spec_fail(key, &format!("corpus: an authentic segment ({n_sent} entries, segment info {}) is refused by try_from_rpc: its entries can never be validated",
                                                if info_sent.is_empty() { "the empty byte string = (0, 0)".to_string() } else { hex(&info_sent) }),
                                   json!({"line": l, "segment_info_received": hex(&info_sent), "reads_as_timestamp_segment_id": proto3_info_fields(&info_sent).map(|(a, b)| vec![a, b]),
                                          "entries": n_sent, "conversion": from_rpc_seg(RpcSeg::decode(unhex(l.split_whitespace().nth(2).unwrap_or("")).unwrap_or_default().as_slice()).unwrap_or_default()).ok().and_then(|r| r.err()).map(|e| e.to_string())}));
                    return true;
                }
                return false;
            };
            if keys.len() != var.seg.as_entries.len() {
                return false;
            }
            for i in 0..var.seg.as_entries.len() {
                let kp = |_: &[u8]| keys[i].ok_or(ValidateError::KeyMissing("no key".into()));
                let res = catch(|| var.seg.as_entries[i].validate_signature(kp, &var.seg));
                let case = json!({"line": l, "position": i});
                rep.case(&format!("corpus-expect|{l}|{i}"), true);
                match res {
                    Err(_) => rep.spec_fail("C18:panic:validate", "validate_signature panicked", case),
                    Ok(Ok(())) if !expect => rep.spec_fail("C18:tamper-accepted", &format!("corpus: segment whose received bytes are not the signed bytes is accepted at position {i}"), case),
                    Ok(Err(e)) if expect => rep.spec_fail("C18:authentic-rejected", &format!("corpus: authentic entry rejected at position {i}: {}", verr_label(&e)), case),
                    Ok(_) => rep.hit(&format!("corpus expect {}: as expected", if expect { "accept" } else { "reject" })),
                }
            }
            true
        }
        Some("seg-validate-case") => {
            // a whole (tampered) segment in RPC form + the public keys by position: every position is validated
            let Some(b) = it.next().and_then(unhex) else { return false };
            let Ok(r) = RpcSeg::decode(b.as_slice()) else { return false };
            let Ok(Ok(seg)) = from_rpc_seg(r) else { return false };
            let mut table = KeyTable { by_id: HashMap::new(), by_local: HashMap::new() };
            for (e, k) in seg.as_entries.iter().zip(it) {
                if let Some(vk) = unhex(k).and_then(|b| VerifyingKey::from_sec1_bytes(&b).ok()) {
                    table.by_local.entry(e.local.to_u64()).or_insert(vk);
                    if let Some(h) = decode_msg(&e.signature().header_and_body).hdr {
                        if let Ok(id) = KeyId::decode(h.verification_key_id.as_slice()) {
                            table.by_id.entry((id.isd_as, id.subject_key_id)).or_insert(vk);
                        }
                    }
                }
            }
            let mut rep2 = Report::new("", "");
            for i in 0..seg.as_entries.len() {
                let v = validate_entry(&seg, i, &table, None, Some(&mut *lean), &mut rep2);
                rep.traces += 1;
                rep.case(&format!("corpus-validate|{l}|{i}"), true);
                if let Some(m) = &v.model {
                    if lean.differs(m, &v.imp) {
                        rep.disagree("validate_signature/corpus", json!({"line": l, "position": i}), &v.imp, m);
                    }
                }
                rep.hit(&format!("corpus validate position {i}: {}", v.imp));
            }
            true
        }
        _ => false,
    }
}

fn main() {
    let args = Args::parse();
    if std::env::var("HX_LOUD").is_err() { quiet_panics(); }
    let mut lean = Lean::spawn(&args.driver);
    let mut rng = Rng::new(args.seed);
    let mut rep = Report::new(
        "C18",
        "case = one validation (signed message or segment entry at one position of an honest or tampered segment: \
         bit flip, permutation, truncation, extension, key substitution, boundary shift) or one RPC conversion \
         (arbitrary PathSegment / daemon Path message) run on the real code and on the Lean model. Non-trivial = the \
         validation got as far as the associated-data length check or the signature verification (not a decode / \
         key-lookup failure), resp. the conversion got past the first decoding step; distinct by hash of all blobs \
         / the encoded message",
    );
    let mut tally = Tally { validations: 0, model_compared: 0 };
    let t0 = std::time::Instant::now();

    if let Some(p) = &args.replay {
        let txt = std::fs::read_to_string(p).expect("replay file");
        for l in txt.lines().map(str::trim).filter(|l| !l.is_empty() && !l.starts_with('#')) {
            if !run_corpus_line(l, &mut lean, &mut rep) {
                rep.notes.push(format!("unparseable replay line: {}", &l[..l.len().min(60)]));
            }
        }
        rep.write(&args.out);
        std::process::exit(if rep.ok() { 0 } else { 1 });
    }
    let mut n_corpus = 0u64;
    for l in read_corpus(&args.corpus) {
        if run_corpus_line(&l, &mut lean, &mut rep) {
            n_corpus += 1;
        } else {
            rep.notes.push(format!("unparseable corpus line: {}", &l[..l.len().min(60)]));
        }
    }
    rep.hit_n("corpus cases", n_corpus);

    probe_findings(&mut rng, &mut lean, &mut rep, &mut tally);

    // --- signed messages
    let n_msgs = args.scale(24, 400);
    for i in 0..n_msgs {
        msg_stream_one(&mut rng, &mut lean, &mut rep, i < args.scale(2, 40), false);
    }
    rep.notes.push(format!("msg stream done at {:.1}s", t0.elapsed().as_secs_f32()));

    // --- segments: sizes 1..=5; the first few with exhaustive bit flips
    let n_exh = args.scale(2, 12);
    let n_segs = args.scale(14, 200);
    let mut honest_rpcs: Vec<RpcSeg> = vec![];
    let mut honest_segs: Vec<SignedPathSegment> = vec![];
    for k in 0..n_segs {
        let n = if k < n_exh { [2, 3, 1, 4, 5, 2, 3, 4, 5, 3, 2, 5][k % 12] } else { 1 + k % 5 };
        let h = gen_honest(&mut rng, n, 0);
        let f = gen_honest(&mut rng, 2, 100);
        let o = SegOpts {
            exhaustive_flips: k < n_exh,
            sampled_flips_per_blob: args.scale(6, 24),
            model_every: if k < n_exh { args.scale(9, 3) as u64 } else { 1 },
        };
        seg_stream_one(&h, &f, &mut rng, &mut lean, &mut rep, &mut tally, &o);
        honest_rpcs.push(h.seg.clone().into_rpc());
        honest_segs.push(h.seg.clone());
        if rep.samples.len() < 3 {
            rep.sample(json!({"honest_segment": seg_brief(&h.seg), "exhaustive_flips": o.exhaustive_flips}));
        }
    }
    // --- segments that traverse one AS twice (same local ISD-AS at two positions; whole entry equal or not):
    //     signed by the repo's code and, for distinct entries, by a positional reference signer
    let f = gen_honest(&mut rng, 2, 100);
    for k in 0..args.scale(6, 60) {
        let n = 3 + k % 3;
        let equal = k % 3 == 2;
        let (entries, k1, k2) = gen_repeated_entries(&mut rng, n, equal);
        rep.hit(&format!("repeated-AS segment entries={n} positions=({k1},{k2}) equal_entries={equal}"));
        let h = build_honest(&mut rng, entries.clone(), true, !equal && k % 2 == 0);
        let o = SegOpts { exhaustive_flips: false, sampled_flips_per_blob: args.scale(4, 16), model_every: 1 };
        seg_stream_one(&h, &f, &mut rng, &mut lean, &mut rep, &mut tally, &o);
        if !equal {
            let (ts, seg_id) = (rng_ts(&mut rng), rng.next() as u16);
            match reference_signed(&mut rng, &entries, ts, seg_id, None) {
                Some(hx) => {
                    let all: Vec<usize> = (0..hx.seg.as_entries.len()).collect();
                    check_positions("reference-signed", "entries signed by position with SignedMessage::sign", &hx, &hx.set, &hx.var(), &all, None, Some(&mut lean), &mut rep, &mut tally);
                    // and its tampered variants
                    seg_stream_one(&hx, &f, &mut rng, &mut lean, &mut rep, &mut tally, &o);
                }
                None => rep.spec_fail("C18:segment-roundtrip", "a positionally signed segment does not convert from RPC", json!({})),
            }
        }
    }
    // --- segments whose signer sends segment-info bytes that are not the prost-canonical encoding of
    //     (timestamp, segment id): every entry is signed over exactly those bytes and must validate; the full
    //     tamper set is applied on top (review finding: the header bound by the code must be the received bytes)
    for k in 0..args.scale(7, 70) {
        let n = 1 + k % 4;
        let entries: Vec<AsEntry> = (0..n).map(|i| gen_entry(&mut rng, 300 + i as u64)).collect();
        let ts = if k % 7 == 4 { 0 } else { rng_ts(&mut rng) };
        let seg_id = if k % 7 == 5 { 0 } else { rng.next() as u16 };
        let encs = info_encodings(ts, seg_id);
        let (what, bytes) = encs[k % encs.len()].clone();
        rep.hit(&format!("reference-signed segment, info encoding: {what}"));
        match reference_signed_x(&mut rng, &entries, ts, seg_id, Some(bytes.clone())) {
            Ok(hx) => {
                let all: Vec<usize> = (0..n).collect();
                check_positions("info-encoding", what, &hx, &hx.set, &hx.var(), &all, None, Some(&mut lean), &mut rep, &mut tally);
                let o = SegOpts { exhaustive_flips: k < 2 && args.thorough(), sampled_flips_per_blob: args.scale(4, 16), model_every: 1 };
                seg_stream_one(&hx, &f, &mut rng, &mut lean, &mut rep, &mut tally, &o);
            }
            Err(fl) => rep.spec_fail("C18:segment-roundtrip", &format!("a segment with a valid protobuf segment info ({what}: {}) does not convert from RPC ({})", hex(&bytes), fl.why), fl.case(ts, seg_id)),
        }
    }
    // --- segments whose info fields take proto3 default values (timestamp 0 / segment id 0 / both: the canonical
    //     info of (0, 0) is the empty byte string): value → RPC → value, validation on the received value
    default_info_stream(&mut rng, &f, &mut lean, &mut rep, &mut tally, args.thorough());
    rep.notes.push(format!("seg stream done at {:.1}s: {} validations, {} compared with the model", t0.elapsed().as_secs_f32(), tally.validations, tally.model_compared));
    rep.hit_n("entry validations on the implementation", tally.validations);
    rep.hit_n("entry validations compared with the model", tally.model_compared);

    for _ in 0..args.scale(40, 1000) {
        check_segments_page(&mut rng, &honest_segs, &mut rep);
    }

    // --- arbitrary RPC segments
    let n_rpc = args.scale(1500, 40000);
    for i in 0..n_rpc {
        let base = &honest_rpcs[i % honest_rpcs.len()];
        let (what, r) = gen_segrpc(&mut rng, base);
        check_segrpc(&what, &r, &mut lean, &mut rep);
        if i == 0 {
            rep.sample(json!({"segrpc_mutation": what}));
        }
    }
    check_segrpc("empty message", &RpcSeg::default(), &mut lean, &mut rep);

    // --- arbitrary RPC paths, to_rpc
    let n_path = args.scale(2500, 60000);
    for i in 0..n_path {
        let (r, src, dst) = gen_rpc_path(&mut rng);
        check_pathrpc("random", &r, src, dst, &mut lean, &mut rep);
        if i == 0 {
            rep.sample(json!({"pathrpc": canon_rpath(&r)}));
        }
    }
    check_pathrpc("empty message", &RpcPath::default(), IsdAsn::from(IA_BASE), IsdAsn::from(IA_BASE), &mut lean, &mut rep);
    for i in 0..args.scale(900, 15000) {
        let (what, p) = if i % 3 == 0 { ("direct canonical", gen_canonical_direct_path(&mut rng)) } else { ("direct", gen_direct_path(&mut rng)) };
        if let Some(back) = check_to_rpc(what, &p, &mut lean, &mut rep) {
            check_direct_roundtrip(what, &p, back, &mut rep);
        }
    }
    rep.notes.push(format!("all streams done at {:.1}s; driver requests {}", t0.elapsed().as_secs_f32(), lean.requests));
    rep.write(&args.out);
    std::process::exit(if rep.ok() { 0 } else { 1 });
}
