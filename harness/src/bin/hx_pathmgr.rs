//! C05 / C06 / C07 — correspondence + spec oracle for the scion-stack path manager
//! (`path/manager.rs`, `path/manager/{pathset,issues,reliability}.rs`, `path/strategy*.rs`, `backoff.rs`).
//!
//! A case is a *history*: configuration + policy + a universe of routes + a list of operations
//! (`maintain now <fetcher answer>`, `report <issue> ts`, `deliver now`, `send now`) applied to ONE real
//! per-pair `PathSet` driven through the `verif-hooks` step functions (injected clock, scripted
//! `PathFetcher`, default scorers) and, in lock step, to the Lean model (`drv_pathmgr`).  After every
//! operation the observable state (cache fingerprints + expiries in order, active slot, next refetch /
//! idle instants, failed attempts, sync flags, issue cache / FIFO / queue sizes, handed-out paths) is
//! compared.  f32 scores never cross the tie as floats: the harness reads the bits of the score the real
//! scorer assigns at the operation's `now` and sends them as exact integers (unit 2^-149).
//!
//! The spec oracle (independent of the model) checks the implementation's own behaviour:
//!  C05: 0..3 policies (ACL, hop pattern, arbitrary predicate) are attached with the production
//!       `PathStrategy::add_policy`; the harness evaluates them one by one with the policy objects (never through
//!       `PathStrategy::predicate`): every cached path, the active slot and every handed-out path is accepted by
//!       EVERY attached policy, has the requested endpoints, was delivered by a fetch of this history, has
//!       readable hops when a policy is hop-based (`hops_readable`: the harness's own reading of the interface list - no
//!       metadata, no list, an empty / single-element / odd-length list or a hop split over two ASes is unreadable and
//!       must be rejected by every ACL / hop pattern); nothing is handed out while no fetched path is allowed by all;
//!       `PathStrategy::predicate` agrees with the conjunction on every fetched path;
//!  C06: a handed-out path is not expired at `now`; no panic; after a fetch a sender gets a path whenever
//!       a cached path is valid; cache / issue cache / issue FIFO sizes within the configuration; next
//!       refetch within [now+min_refetch_delay, now+max(refetch_interval, backoff max)]; backoff within
//!       the ideal range;
//!  C07: steer-away on delivery of an issue hitting the active path, swap rule (no switch unless the score
//!       gap exceeds the threshold or the active path must go), no return (a path that becomes active does not
//!       cross an interface whose documented penalty is still fresh while a never-reported valid cached path
//!       avoids it - also for paths fetched after a report / re-report), recovery after 20 half-lives, unrelated
//!       reports change nothing, `matches_path` vs an independent hop-level spec; a report is a duplicate only of an
//!       earlier report of the same failure (same kind, AS and interface ids) inside the deduplication window - one the
//!       code drops without such a predecessor is judged as if it had been delivered.
use std::{
    collections::HashSet,
    net::{IpAddr, Ipv4Addr},
    sync::{Arc, Mutex},
    time::{Duration, SystemTime},
};

use futures::FutureExt;
use scion_sdk_utils::backoff::BackoffConfig;
use scion_stack::{
    path::{
        fetcher::traits::{PathFetchError, PathFetcher},
        manager::verif::{VerifCacheEntry, VerifConfig, VerifFetchError, VerifPathSet, manager_issue_sizes},
        policy::PathPolicy,
        PathStrategy,
    },
    stack::{ScionSocketSendError, verif_send::managed_udp_socket},
};
use sciparse::{
    address::{ip_addr::ScionIpAddr, ip_socket_addr::ScionSocketIpAddr},
    dataplane_path::view::ScionDpPathViewExt,
    identifier::{asn::Asn, isd::Isd, isd_asn::IsdAsn},
    path::{
        ScionPath,
        metadata::PathMetadata,
        policy::{PathPolicy as SciPathPolicy, acl::AclPolicy, hop_pattern::HopPatternPolicy, types::PathPolicyHop},
    },
    payload::scmp::model::{
        ScmpErrorMessage, ScmpExternalInterfaceDown, ScmpInternalConnectivityDown, ScmpPacketTooBig,
    },
    util::test_builder::TestPathBuilder,
};
use serde::{Deserialize, Serialize};
use serde_json::json;
use verif_harness::*;

const NS: u64 = 1_000_000_000;
const SRC_ASN: u64 = 0x110;
const DST_ASN: u64 = 0x220;
const HOP_EXP_SECS: u32 = 337; // exp_time 0 = 337.5 s

fn src_ia() -> IsdAsn {
    IsdAsn::new(Isd(1), Asn(SRC_ASN))
}
fn dst_ia() -> IsdAsn {
    IsdAsn::new(Isd(2), Asn(DST_ASN))
}
fn st(ns: u64) -> SystemTime {
    SystemTime::UNIX_EPOCH + Duration::from_nanos(ns)
}
fn ns_of(t: SystemTime) -> u64 {
    t.duration_since(SystemTime::UNIX_EPOCH).map(|d| d.as_nanos() as u64).unwrap_or(0)
}

// ------------------------------------------------------------------------------------------------
// history description (serialisable: corpus / replay / shrinking)

#[derive(Clone, Debug, Serialize, Deserialize, PartialEq)]
struct Route {
    e0: u16,
    transit: Vec<(u32, u16, u16)>,
    last_in: u16,
}

#[derive(Clone, Debug, Serialize, Deserialize, PartialEq)]
struct PSpec {
    route: usize,
    expiry: u32,
    /// 0 = metadata with interfaces, 1 = no metadata, 2 = metadata without interface list,
    /// 3 = metadata with an EMPTY interface list, 4 = interface list cut after the first interface,
    /// 5 = interface list without its last interface (odd length), 6 = the two interfaces of the first transit hop
    /// attributed to different ASes (5 when the route has no transit hop): lists no hop sequence can be read from
    meta: u8,
}

#[derive(Clone, Debug, Serialize, Deserialize, PartialEq)]
enum RespSpec {
    Ok(Vec<PSpec>),
    ErrNoPaths,
    ErrOther,
}

#[derive(Clone, Debug, Serialize, Deserialize, PartialEq)]
enum KindSpec {
    /// SCMP external interface down (isd, asn, interface, salt of the quoted packet)
    Xid(u16, u64, u16, u8),
    /// SCMP internal connectivity down (isd, asn, ingress, egress, salt)
    Icd(u16, u64, u16, u16, u8),
    /// send error: first hop unreachable (isd, asn, interface)
    Fhu(u16, u64, u16),
    /// SCMP packet too big (no target)
    Ptb,
}

#[derive(Clone, Debug, Serialize, Deserialize, PartialEq)]
enum OpSpec {
    Maintain { now: u64, resp: RespSpec },
    Report { kind: KindSpec, ts: u64 },
    Deliver { now: u64 },
    Send { now: u64 },
}

#[derive(Clone, Debug, Serialize, Deserialize, PartialEq)]
enum PolSpec {
    None,
    /// allowed iff bit `route` is set (a predicate that does not need metadata)
    Mask(u32),
    Acl(String),
    Pattern(String),
}

#[derive(Clone, Debug, Serialize, Deserialize, PartialEq)]
struct CfgSpec {
    max_cached: usize,
    refetch_interval_ms: u64,
    min_refetch_delay_ms: u64,
    min_expiry_threshold_ms: u64,
    max_idle_ms: u64,
    backoff: (f32, f32, f32, f32),
    issue_cache: usize,
    issue_broadcast: usize,
    dedup_ms: u64,
    threshold: f32,
}

#[derive(Clone, Debug, Serialize, Deserialize, PartialEq)]
struct Hist {
    kind: String,
    cfg: CfgSpec,
    /// the policy attached first (`None`: nothing attached by this field)
    pol: PolSpec,
    /// policies attached after `pol`, in attachment order (`PathStrategy::add_policy` once per entry)
    #[serde(default, skip_serializing_if = "Vec::is_empty")]
    more: Vec<PolSpec>,
    routes: Vec<Route>,
    t0: u64,
    ops: Vec<OpSpec>,
}

impl CfgSpec {
    fn to_verif(&self) -> VerifConfig {
        VerifConfig {
            max_cached_paths_per_pair: self.max_cached,
            refetch_interval: Duration::from_millis(self.refetch_interval_ms),
            min_refetch_delay: Duration::from_millis(self.min_refetch_delay_ms),
            min_expiry_threshold: Duration::from_millis(self.min_expiry_threshold_ms),
            max_idle_period: Duration::from_millis(self.max_idle_ms),
            fetch_failure_backoff: BackoffConfig {
                minimum_delay_secs: self.backoff.0,
                maximum_delay_secs: self.backoff.1,
                factor: self.backoff.2,
                jitter_secs: self.backoff.3,
            },
            issue_cache_size: self.issue_cache,
            issue_broadcast_size: self.issue_broadcast,
            issue_deduplication_window: Duration::from_millis(self.dedup_ms),
            path_swap_score_threshold: self.threshold,
        }
    }
    fn backoff_max_ns(&self) -> u64 {
        Duration::from_secs_f32(self.backoff.1).as_nanos() as u64
    }
}

// ------------------------------------------------------------------------------------------------
// building real objects

fn build_path(r: &Route, p: &PSpec) -> ScionPath {
    let src: ScionIpAddr = ScionIpAddr::new(src_ia(), IpAddr::V4(Ipv4Addr::LOCALHOST));
    let dst: ScionIpAddr = ScionIpAddr::new(dst_ia(), IpAddr::V4(Ipv4Addr::new(127, 0, 0, 2)));
    let ts = p.expiry.saturating_sub(HOP_EXP_SECS);
    let mut b = TestPathBuilder::new(src.into(), dst.into()).using_info_timestamp(ts).with_hop_expiry(0).up();
    b = b.add_hop(0, r.e0);
    for (asn, i, o) in &r.transit {
        b = b.with_asn(*asn).add_hop(*i, *o);
    }
    b = b.add_hop(r.last_in, 0);
    let full = b.build(ts).path();
    match p.meta {
        0 => full,
        1 => ScionPath::new(src_ia(), dst_ia(), full.dp_path().clone(), None, None),
        2 => {
            let m = full.metadata().cloned().map(|m| PathMetadata { interfaces: None, ..m });
            ScionPath::new(src_ia(), dst_ia(), full.dp_path().clone(), m, None)
        }
        k => {
            let m = full.metadata().cloned().map(|m| {
                let mut v = m.interfaces.clone().unwrap_or_default();
                match k {
                    3 => v.clear(),
                    4 => v.truncate(1),
                    6 if v.len() >= 4 => v[2].interface.isd_asn = IsdAsn::new(Isd(1), Asn(0x3ff)),
                    _ => {
                        v.pop();
                    }
                }
                PathMetadata { interfaces: Some(v), ..m }
            });
            ScionPath::new(src_ia(), dst_ia(), full.dp_path().clone(), m, None)
        }
    }
}

fn fp_u64(bytes: &[u8]) -> u64 {
    u64::from_be_bytes(bytes[..8].try_into().unwrap())
}
fn path_fp(p: &ScionPath) -> u64 {
    fp_u64(p.fingerprint().as_ref())
}
fn exp_str(e: Option<u32>) -> String {
    e.map(|x| x.to_string()).unwrap_or_else(|| "n".into())
}
fn fp_exp(p: &ScionPath) -> String {
    format!("{}/{}", path_fp(p), exp_str(p.expiration()))
}

/// path token of the driver protocol
fn path_token(p: &ScionPath, verdicts: &[bool]) -> String {
    let ifs = match p.metadata().and_then(|m| m.interfaces.as_ref()) {
        None => "n".to_string(),
        Some(v) if v.is_empty() => "e".to_string(),
        Some(v) => v.iter().map(|i| format!("{}.{}", i.interface.isd_asn.to_u64(), i.interface.id)).collect::<Vec<_>>().join(","),
    };
    let on = |o: Option<u16>| o.map(|x| x.to_string()).unwrap_or_else(|| "n".into());
    format!(
        "{}:{}:{}:{}:{}:{}:{}:{}",
        path_fp(p),
        exp_str(p.expiration()),
        p.src_ia().to_u64(),
        p.dst_ia().to_u64(),
        ifs,
        on(p.dp_path().first_egress_interface()),
        on(p.dp_path().last_ingress_interface()),
        if verdicts.is_empty() { "-".to_string() } else { verdicts.iter().map(|v| if *v { '1' } else { '0' }).collect::<String>() }
    )
}

/// exact value of a finite f32 in units of 2^-149, as a decimal string
fn f32_units(bits: u32) -> Option<String> {
    let neg = bits >> 31 == 1;
    let exp = (bits >> 23) & 0xff;
    let mant = (bits & 0x7f_ffff) as u64;
    if exp == 255 {
        return None;
    }
    let (m, shift) = if exp == 0 { (mant, 0) } else { (mant | (1 << 23), exp - 1) };
    // decimal big number: little-endian base 1e9 limbs
    let mut limbs: Vec<u64> = vec![m % 1_000_000_000, m / 1_000_000_000];
    for _ in 0..shift {
        let mut carry = 0;
        for l in limbs.iter_mut() {
            let v = *l * 2 + carry;
            *l = v % 1_000_000_000;
            carry = v / 1_000_000_000;
        }
        if carry > 0 {
            limbs.push(carry);
        }
    }
    while limbs.len() > 1 && *limbs.last().unwrap() == 0 {
        limbs.pop();
    }
    let mut s = String::new();
    for (i, l) in limbs.iter().rev().enumerate() {
        if i == 0 {
            s.push_str(&l.to_string());
        } else {
            s.push_str(&format!("{l:09}"));
        }
    }
    if neg && s != "0" {
        s.insert(0, '-');
    }
    Some(s)
}

struct MaskPolicy {
    allowed: HashSet<u64>,
}
impl PathPolicy for MaskPolicy {
    fn predicate(&self, path: &ScionPath) -> bool {
        self.allowed.contains(&path_fp(path))
    }
}

#[derive(Clone)]
struct ScriptFetcher(Arc<Mutex<Script>>);
struct Script {
    next: Option<Result<Vec<ScionPath>, u8>>,
    calls: u64,
    bad_pair: bool,
}
impl PathFetcher for ScriptFetcher {
    async fn fetch_paths(&self, src: IsdAsn, dst: IsdAsn) -> Result<Vec<ScionPath>, PathFetchError> {
        let mut g = self.0.lock().unwrap();
        g.calls += 1;
        if src != src_ia() || dst != dst_ia() {
            g.bad_pair = true;
        }
        match g.next.take() {
            Some(Ok(p)) => Ok(p),
            Some(Err(0)) => Err(PathFetchError::NoPathsFound),
            Some(Err(_)) => Err(PathFetchError::InternalError("scripted".into())),
            None => Err(PathFetchError::InternalError("unscripted fetch".into())),
        }
    }
}

fn scmp_of(k: &KindSpec) -> Option<ScmpErrorMessage> {
    match k {
        KindSpec::Xid(isd, asn, i, salt) => Some(ScmpErrorMessage::ExternalInterfaceDown(ScmpExternalInterfaceDown::new(
            IsdAsn::new(Isd(*isd), Asn(*asn)),
            *i,
            vec![*salt; 4],
        ))),
        KindSpec::Icd(isd, asn, g, e, salt) => Some(ScmpErrorMessage::InternalConnectivityDown(ScmpInternalConnectivityDown::new(
            IsdAsn::new(Isd(*isd), Asn(*asn)),
            *g,
            *e,
            vec![*salt; 4],
        ))),
        KindSpec::Ptb => Some(ScmpErrorMessage::PacketTooBig(ScmpPacketTooBig::new(1200, vec![1, 2, 3]))),
        KindSpec::Fhu(..) => None,
    }
}
fn send_err_of(k: &KindSpec) -> Option<ScionSocketSendError> {
    match k {
        KindSpec::Fhu(isd, asn, i) => Some(ScionSocketSendError::UnderlayNextHopUnreachable {
            isd_as: IsdAsn::new(Isd(*isd), Asn(*asn)),
            interface_id: *i,
            address: None,
            msg: "x".into(),
        }),
        _ => None,
    }
}
fn kind_token(k: &KindSpec) -> String {
    match k {
        KindSpec::Xid(isd, asn, i, _) => format!("xid {} {}", IsdAsn::new(Isd(*isd), Asn(*asn)).to_u64(), i),
        KindSpec::Icd(isd, asn, g, e, _) => format!("icd {} {} {}", IsdAsn::new(Isd(*isd), Asn(*asn)).to_u64(), g, e),
        KindSpec::Fhu(isd, asn, i) => format!("fhu {} {}", IsdAsn::new(Isd(*isd), Asn(*asn)).to_u64(), i),
        KindSpec::Ptb => "ptb".into(),
    }
}
/// does the target of the issue match the path (real `matches_path`)?
fn kind_matches(k: &KindSpec, p: &ScionPath) -> bool {
    if let Some(s) = scmp_of(k) {
        VerifPathSet::<ScriptFetcher>::scmp_target_matches(s, p).unwrap_or(false)
    } else if let Some(e) = send_err_of(k) {
        VerifPathSet::<ScriptFetcher>::send_error_target_matches(&e, p).unwrap_or(false)
    } else {
        false
    }
}
/// `applies_to_path` for the pair of this harness (independent restatement)
fn kind_applies(k: &KindSpec) -> bool {
    match k {
        KindSpec::Fhu(isd, asn, _) => IsdAsn::new(Isd(*isd), Asn(*asn)) == src_ia(),
        KindSpec::Ptb => false,
        _ => true,
    }
}

// ------------------------------------------------------------------------------------------------
// running one history

/// the refetch schedule made by a successful lookup: when, the scheduled instant, the latest instant the documented
/// rule allows, and the earliest-expiring cached path (fingerprint, expiry in s) the rule is about
struct Sched {
    at: u64,
    nr: u64,
    bound: u64,
    earliest: (u64, u64),
}

#[derive(Default)]
struct Outcome {
    disagree: Option<(usize, String, String)>,
    spec: Vec<(String, String)>,
    labels: Vec<String>,
    ops_run: usize,
    fetches: u64,
    handouts: u64,
    swaps: u64,
    steer_checked: u64,
    return_checked: u64,
    nontrivial: bool,
    last_req: String,
}

struct Live {
    vs: VerifPathSet<ScriptFetcher>,
    script: Arc<Mutex<Script>>,
}

fn cache_fps(c: &[VerifCacheEntry]) -> Vec<u64> {
    c.iter().map(|e| fp_u64(&e.fingerprint)).collect()
}

fn state_line(l: &Live, now: u64, exited: bool) -> String {
    let c = l.vs.cache(st(now), false);
    let cached = if c.is_empty() { "-".to_string() } else { c.iter().map(|e| format!("{}/{}", fp_u64(&e.fingerprint), exp_str(e.expiry))).collect::<Vec<_>>().join(",") };
    let act = l.vs.active().map(|(p, _)| fp_exp(&p)).unwrap_or_else(|| "n".into());
    let (init, _ongoing, err) = l.vs.sync_state();
    let (ic, ifo) = l.vs.issue_sizes();
    let e = match err {
        VerifFetchError::None => "n",
        VerifFetchError::NoPathsFound => "np",
        VerifFetchError::Other => "ot",
    };
    format!(
        "st {cached} a={act} nr={} ni={} f={} init={} err={e} ex={} bad=0 pend={} ic={ic} if={ifo} used={}",
        ns_of(l.vs.next_refetch()),
        ns_of(l.vs.next_idle_check()),
        l.vs.failed_attempts(),
        init as u8,
        exited as u8,
        l.vs.pending_issues(),
        l.vs.was_used() as u8
    )
}

fn score_map(c: &[VerifCacheEntry], extra: &[(u64, u32)], notes: &mut Vec<(String, String)>) -> String {
    let mut v: Vec<String> = vec![];
    for (fp, bits) in c.iter().map(|e| (fp_u64(&e.fingerprint), e.score_bits)).chain(extra.iter().copied()) {
        match f32_units(bits) {
            Some(u) => v.push(format!("{fp}={u}")),
            None => {
                notes.push(("C07:score-not-finite".into(), format!("scorer produced a non-finite score (bits {bits:#x})")));
                v.push(format!("{fp}=0"));
            }
        }
    }
    if v.is_empty() { "-".into() } else { v.join(",") }
}

fn valid_at(expiry: Option<u32>, now: u64, thr_ns: u64) -> bool {
    let e = expiry.unwrap_or(0) as u64 * NS;
    e > now && e - now > thr_ns
}

/// the policies a history attaches, in attachment order
fn attached(h: &Hist) -> Vec<&PolSpec> {
    std::iter::once(&h.pol).chain(h.more.iter()).filter(|p| !matches!(p, PolSpec::None)).collect()
}

fn mask_set(h: &Hist, m: u32) -> HashSet<u64> {
    h.routes.iter().enumerate().filter(|(i, _)| *i < 32 && m >> i & 1 == 1).map(|(i, r)| path_fp(&build_path(r, &PSpec { route: i, expiry: 4_000_000, meta: 0 }))).collect()
}

/// The strategy of a history, built the way the code under test builds it: one `PathStrategy::add_policy`
/// (what `SocketConfig::with_path_policy` calls) per attached policy, in order.  `None`: a policy text does
/// not parse.
fn build_strategy(h: &Hist) -> Option<PathStrategy> {
    let mut st = PathStrategy::default();
    for p in attached(h) {
        match p {
            PolSpec::None => {}
            PolSpec::Mask(m) => st.add_policy(MaskPolicy { allowed: mask_set(h, *m) }),
            PolSpec::Acl(s) => st.add_policy(AclPolicy::parse(s).ok()?),
            PolSpec::Pattern(s) => st.add_policy(HopPatternPolicy::parse(s).ok()?),
        }
    }
    Some(st)
}

/// The harness's own evaluation of the attached policies, ONE BY ONE (never through `PathStrategy`): the spec
/// oracle requires every policy of the list to accept a path; the verdict vector is also what the model gets.
enum PolEval {
    Mask(HashSet<u64>),
    Acl(AclPolicy),
    Pattern(HopPatternPolicy),
}
impl PolEval {
    fn of(h: &Hist) -> Option<Vec<PolEval>> {
        attached(h)
            .into_iter()
            .map(|p| {
                Some(match p {
                    PolSpec::None => return None,
                    PolSpec::Mask(m) => PolEval::Mask(mask_set(h, *m)),
                    PolSpec::Acl(s) => PolEval::Acl(AclPolicy::parse(s).ok()?),
                    PolSpec::Pattern(s) => PolEval::Pattern(HopPatternPolicy::parse(s).ok()?),
                })
            })
            .collect()
    }
    /// a policy that cannot be evaluated on the path rejects it (property text): a hop-based policy (ACL, hop
    /// pattern) needs the hop sequence of the path; whether that can be read is decided by `hops_readable`, the
    /// harness's own reading of the interface list - not by the policy code's answer for such a path
    fn accepts(&self, p: &ScionPath) -> bool {
        match self {
            PolEval::Mask(s) => s.contains(&path_fp(p)),
            PolEval::Acl(a) => hops_readable(p) && SciPathPolicy::path_allowed(a, p).unwrap_or(false),
            PolEval::Pattern(a) => hops_readable(p) && SciPathPolicy::path_allowed(a, p).unwrap_or(false),
        }
    }
    fn hop_based(&self) -> bool {
        matches!(self, PolEval::Acl(_) | PolEval::Pattern(_))
    }
    fn name(&self) -> &'static str {
        match self {
            PolEval::Mask(_) => "predicate",
            PolEval::Acl(_) => "acl",
            PolEval::Pattern(_) => "hop-pattern",
        }
    }
}
/// Can the hop sequence of a path between two different ASes be read from its metadata?  The interface list of the
/// path metadata is: the egress interface of the source AS, then (ingress, egress) for every transit AS, then the
/// ingress interface of the destination AS.  No metadata, no interface list, an empty list, a single interface, an
/// odd number of interfaces or a transit pair whose two interfaces belong to different ASes give no hop sequence.
fn hops_readable(p: &ScionPath) -> bool {
    let Some(v) = p.metadata().and_then(|m| m.interfaces.as_ref()) else { return false };
    v.len() >= 2 && v.len() % 2 == 0 && v[1..v.len() - 1].chunks(2).all(|c| c[0].interface.isd_asn == c[1].interface.isd_asn)
}
fn unreadable_why(p: &ScionPath) -> &'static str {
    match p.metadata().map(|m| m.interfaces.as_ref()) {
        None => "no metadata",
        Some(None) => "metadata without interface list",
        Some(Some(v)) if v.is_empty() => "empty interface list",
        Some(Some(v)) if v.len() == 1 => "interface list with a single interface",
        Some(Some(v)) if v.len() % 2 == 1 => "interface list of odd length",
        Some(Some(_)) => "transit interfaces of one hop in different ASes",
    }
}
fn verdicts(pe: &[PolEval], p: &ScionPath) -> Vec<bool> {
    pe.iter().map(|e| e.accepts(p)).collect()
}
fn all_accept(pe: &[PolEval], p: &ScionPath) -> bool {
    pe.iter().all(|e| e.accepts(p))
}
/// "#1 (acl)": the first attached policy that rejects the path
fn rejecting(pe: &[PolEval], p: &ScionPath) -> String {
    pe.iter()
        .enumerate()
        .find(|(_, e)| !e.accepts(p))
        .map(|(i, e)| format!("attached policy #{} of {} ({}{})", i + 1, pe.len(), e.name(), if e.hop_based() && !hops_readable(p) { format!(": hops cannot be read - {}", unreadable_why(p)) } else { String::new() }))
        .unwrap_or_default()
}

fn run_history(h: &Hist, lean: &mut Lean, prop: &str) -> Outcome {
    if h.kind.starts_with("wiring") {
        return run_wiring(h);
    }
    let mut out = Outcome::default();
    let rt = tokio::runtime::Builder::new_current_thread().enable_all().build().unwrap();
    let _g = rt.enter();
    let vcfg = h.cfg.to_verif();
    let thr_ns = h.cfg.min_expiry_threshold_ms * 1_000_000;
    let mrd_ns = h.cfg.min_refetch_delay_ms * 1_000_000;
    let ri_ns = h.cfg.refetch_interval_ms * 1_000_000;

    // ---- configuration: validator correspondence -----------------------------------------------
    let thr_units = f32_units(h.cfg.threshold.to_bits()).unwrap_or_else(|| "0".into());
    let init_req = format!(
        "init {} {} {} {} {} {} {} {} {} {} {} {} {}",
        h.t0,
        src_ia().to_u64(),
        dst_ia().to_u64(),
        h.cfg.max_cached,
        ri_ns,
        mrd_ns,
        thr_ns,
        h.cfg.max_idle_ms * 1_000_000,
        h.cfg.issue_cache,
        h.cfg.issue_broadcast,
        h.cfg.dedup_ms * 1_000_000,
        thr_units,
        h.cfg.backoff_max_ns()
    );
    let valid = vcfg.validate().is_ok();
    let m = lean.ask(&init_req);
    let iv = format!("ok valid={}", valid as u8);
    if lean.differs(&m, &iv) {
        out.disagree = Some((0, iv, m));
        return out;
    }
    out.labels.push(format!("config {}", if valid { "valid" } else { "rejected" }));
    if !valid {
        return out;
    }

    // ---- real objects ---------------------------------------------------------------------------
    let (Some(strategy), Some(pe)) = (build_strategy(h), PolEval::of(h)) else { return out };
    // the policy list as the production `add_policy` calls left it goes into the manager's strategy
    let policies: Vec<Arc<dyn PathPolicy>> = strategy.policies.clone();
    if policies.len() != pe.len() {
        out.spec.push(("C05:strategy-predicate".into(), format!("{} policies were attached with add_policy but the strategy holds {}", pe.len(), policies.len())));
    }
    out.labels.push(format!("policies attached: {}", pe.len()));
    let needs_meta = pe.iter().any(|e| e.hop_based());
    let script = Arc::new(Mutex::new(Script { next: None, calls: 0, bad_pair: false }));
    let vs = match catch(|| VerifPathSet::new(src_ia(), dst_ia(), vcfg, ScriptFetcher(script.clone()), policies, st(h.t0))) {
        Ok(v) => v,
        Err(m) => {
            out.spec.push(("C06:panic:new".into(), format!("constructing the path set panicked: {m}")));
            return out;
        }
    };
    let mut l = Live { vs, script };

    // `path(src, src)` and wildcard pairs never reach the path set (manager.rs): observed, not part of the model
    if prop == "C05" {
        let local = catch(|| l.vs.manager().path(src_ia(), src_ia(), st(h.t0)).now_or_never());
        match local {
            Ok(Some(Ok(p))) => {
                if p.src_ia() != src_ia() || p.dst_ia() != src_ia() {
                    out.spec.push(("C05:handout-endpoints".into(), "path(src, src) returned a path that does not stay in the source AS".into()));
                }
                out.labels.push(format!("path(src,src): local path, policy {}", if all_accept(&pe, &p) { "accepts it" } else { "rejects it (not consulted: AS-internal traffic uses no inter-AS path)" }));
            }
            Ok(other) => out.labels.push(format!("path(src,src): {}", if other.is_none() { "pending" } else { "error" })),
            Err(m) => out.spec.push(("C06:panic:send".into(), format!("path(src, src) panicked: {m}"))),
        }
        let wild = IsdAsn::new(Isd(0), Asn(0));
        match catch(|| l.vs.manager().path(src_ia(), wild, st(h.t0)).now_or_never()) {
            Ok(Some(Err(_))) => out.labels.push("path(src,wildcard): error".into()),
            Ok(Some(Ok(_))) => out.spec.push(("C05:unfiltered".into(), "path(src, wildcard) handed out a path".into())),
            Ok(None) => out.spec.push(("C05:unfiltered".into(), "path(src, wildcard) does not return".into())),
            Err(m) => out.spec.push(("C06:panic:send".into(), format!("path(src, wildcard) panicked: {m}"))),
        }
    }

    let mut delivered: Vec<ScionPath> = vec![];
    let mut any_allowed_delivered = false;
    let mut pend: Vec<KindSpec> = vec![];
    // (issue, time it was ingested by / reported to this path set)
    let mut issue_log: Vec<(KindSpec, u64)> = vec![];
    // reports the code dropped as "duplicates" although the history holds no earlier report of the same failure
    // inside the deduplication window: (issue, its timestamp, the latest earlier failure report)
    let mut lost: Vec<(KindSpec, u64, String)> = vec![];
    // the schedule made by the most recent executed lookup, if it succeeded (a failed one schedules by backoff)
    let mut last_sched: Option<Sched> = None;
    // the clock value at which the worker last evaluated the active slot in a way that can leave it empty: every
    // executed lookup ends with maybe_update_active_path(now); an issue delivery re-evaluates only when an active path
    // is affected (so it matters here only when it clears the slot).  An empty slot is the worker's verdict at THAT
    // instant; the histories rarely step the clock back, and a sender asking at an earlier clock value must be
    // judged against what was cached and valid when the worker decided, not against its own earlier clock.
    let mut slot_eval: Option<u64> = None;
    let mut exited = false;

    for (idx, op) in h.ops.iter().enumerate() {
        if exited {
            break;
        }
        out.ops_run += 1;
        let active_before_op = l.vs.active();
        let mut spec: Vec<(String, String)> = vec![];
        // findings about the strategy glue itself: reported after the findings about cached / handed-out paths
        let mut glue: Vec<(String, String)> = vec![];
        let (imp, req): (String, String) = match op {
            // ============================================================== maintain
            OpSpec::Maintain { now, resp } => {
                let now = *now;
                let t = st(now);
                let pre_cache = l.vs.cache(t, false);
                let pre_active = l.vs.active();
                let paths: Vec<ScionPath> = match resp {
                    RespSpec::Ok(ps) => ps.iter().filter(|p| p.route < h.routes.len()).map(|p| build_path(&h.routes[p.route], p)).collect(),
                    _ => vec![],
                };
                for p in paths.iter().filter(|p| !hops_readable(p)) {
                    out.labels.push(format!("fetched path with unreadable hops ({}) under {}", unreadable_why(p), if needs_meta { "a hop-based policy" } else { "no hop-based policy" }));
                }
                let vds: Vec<Vec<bool>> = paths.iter().map(|p| verdicts(&pe, p)).collect();
                let flags: Vec<bool> = vds.iter().map(|v| v.iter().all(|b| *b)).collect();
                // `PathStrategy::predicate` ("true if the path is accepted by all policies"): the manager's own
                // strategy and the one built with add_policy above, on every fetched path
                for (p, a) in paths.iter().zip(&flags) {
                    let (m, s) = (l.vs.predicate(p), strategy.predicate(p));
                    if m != *a || s != *a {
                        glue.push(("C05:strategy-predicate".into(), format!("PathStrategy::predicate says {} for path {} but the attached policies evaluated one by one say {:?} ({} policies attached)", if m != *a { m } else { s }, fp_exp(p), verdicts(&pe, p), pe.len())));
                    }
                }
                let sc0 = score_map(&pre_cache, &[], &mut spec);
                // only policy-conforming fetched paths that are not yet expired refresh cached copies
                let live: Vec<ScionPath> = paths.iter().filter(|p| p.expiration().unwrap_or(0) as u64 * NS > now).cloned().collect();
                let c1 = l.vs.cache_after_fetch(t, &live);
                let extra: Vec<(u64, u32)> = live.iter().filter(|p| all_accept(&pe, p)).map(|p| (path_fp(p), l.vs.candidate_score_bits(p, t))).filter(|(fp, _)| !c1.iter().any(|e| fp_u64(&e.fingerprint) == *fp)).collect();
                // duplicates of one fingerprint in a fetch: the last one wins (HashMap collect)
                let mut extra_d: Vec<(u64, u32)> = vec![];
                for e in extra.into_iter().rev() {
                    if !extra_d.iter().any(|x| x.0 == e.0) {
                        extra_d.push(e);
                    }
                }
                let sc1 = score_map(&c1, &extra_d, &mut spec);
                let calls_before = l.script.lock().unwrap().calls;
                l.script.lock().unwrap().next = Some(match resp {
                    RespSpec::Ok(_) => Ok(paths.clone()),
                    RespSpec::ErrNoPaths => Err(0),
                    RespSpec::ErrOther => Err(1),
                });
                let r = catch(|| rt.block_on(l.vs.step_maintain(t)));
                let fetched = l.script.lock().unwrap().calls > calls_before;
                let resp_tok = match resp {
                    RespSpec::Ok(_) => format!("ok {}", if paths.is_empty() { "-".to_string() } else { paths.iter().zip(&vds).map(|(p, v)| path_token(p, v)).collect::<Vec<_>>().join(";") }),
                    RespSpec::ErrNoPaths => "enp".into(),
                    RespSpec::ErrOther => "eot".into(),
                };
                match r {
                    Err(msg) => {
                        let key = if h.cfg.max_cached == 0 { "C06:panic:max-cached-zero" } else if msg.contains("should have a path available") { "C06:panic:fetch-left-cache-empty" } else { "C06:panic:maintain" };
                        spec.push((key.into(), format!("maintain panicked: {msg}")));
                        out.labels.push("maintain panic".into());
                        exited = true;
                        out.spec.extend(spec);
                        if out.disagree.is_none() {
                            let mo = lean.ask(&format!("maintain {now} {resp_tok} {sc0} {sc1} - 0"));
                            let bad = mo.contains(" bad=1 ");
                            if lean.differs(if bad { "panic" } else { &mo }, "panic") {
                                out.disagree = Some((idx, "panic".into(), mo));
                            }
                        }
                        continue;
                    }
                    Ok(reason) => {
                        if fetched {
                            out.fetches += 1;
                            delivered.extend(paths.iter().cloned());
                            if flags.iter().any(|a| *a) {
                                any_allowed_delivered = true;
                            }
                        }
                        if l.script.lock().unwrap().bad_pair {
                            spec.push(("C05:fetch-pair".into(), "the fetcher was asked for another (src,dst) pair".into()));
                        }
                        if reason.is_some() {
                            exited = true;
                            out.labels.push(format!("maintain exit:{}", reason.unwrap()));
                        } else {
                            out.labels.push(format!("maintain {}{}", if fetched { "fetch " } else { "idle-tick" }, if !fetched { "" } else { match resp { RespSpec::Ok(p) if p.is_empty() => "ok-empty", RespSpec::Ok(_) => "ok", RespSpec::ErrNoPaths => "err-nopaths", RespSpec::ErrOther => "err-other" } }));
                        }
                        let post = l.vs.cache(t, false);
                        let nr = ns_of(l.vs.next_refetch());
                        let failed_fetch = fetched && l.vs.failed_attempts() > 0;
                        let backoff = if failed_fetch { nr.saturating_sub(now) } else { 0 };
                        let ord = if post.is_empty() { "-".to_string() } else { cache_fps(&post).iter().map(|f| f.to_string()).collect::<Vec<_>>().join(",") };
                        // ---- oracle: C06 -----------------------------------------------------
                        if fetched {
                            slot_eval = Some(now);
                        }
                        if fetched && !exited {
                            if nr < now + mrd_ns {
                                spec.push(("C06:refetch-window:too-soon".into(), format!("next refetch {nr} < now {now} + min_refetch_delay {mrd_ns}")));
                            }
                            let hi = now + ri_ns.max(h.cfg.backoff_max_ns()).max(mrd_ns);
                            if nr > hi {
                                spec.push(("C06:refetch-window:too-late".into(), format!("next refetch {nr} > now {now} + max(refetch_interval, backoff max) = {hi}")));
                            }
                            // documented scheduling rule after a successful lookup (doc comment of fetch_and_update / property
                            // anchor "min(interval, earliest expiry - threshold) clamped by min delay"): the next lookup is
                            // due no later than `min_expiry_threshold` before the earliest expiry of ANY cached path - the
                            // spare paths are what a failover switches to - unless min_refetch_delay forbids it
                            last_sched = None;
                            if !failed_fetch {
                                if let Some((ee, efp)) = post.iter().filter_map(|e| e.expiry.map(|x| (x as u64, fp_u64(&e.fingerprint)))).min() {
                                    let bound = (now + ri_ns).min((ee * NS).saturating_sub(thr_ns)).max(now + mrd_ns);
                                    if nr > bound {
                                        spec.push((
                                            "C06:refetch-window:after-earliest-expiry".into(),
                                            format!(
                                                "after the successful lookup at now={now} the cache holds path {efp} expiring at {ee} s, so the next lookup is due by max(now + min_refetch_delay, min(now + refetch_interval, earliest expiry - min_expiry_threshold)) = {bound}, but it is scheduled for {nr} (cache: {}; active: {})",
                                                post.iter().map(|e| format!("{}/{}", fp_u64(&e.fingerprint), exp_str(e.expiry))).collect::<Vec<_>>().join(","),
                                                l.vs.active().map(|(p, _)| fp_exp(&p)).unwrap_or_else(|| "none".into())
                                            ),
                                        ));
                                    }
                                    last_sched = Some(Sched { at: now, nr, bound, earliest: (efp, ee) });
                                }
                            }
                            if failed_fetch {
                                // ideal backoff range (jitter u = 0 … 1), f32 tolerance 1e-4 relative + 1 µs
                                let a = l.vs.failed_attempts();
                                let b = &h.cfg.backoff;
                                let ideal = |u: f64| ((b.0 as f64) * (b.2 as f64).powi(a as i32) + u * b.3 as f64).min(b.1 as f64).max(0.0) * 1e9;
                                let (lo, hi2) = (ideal(0.0).max(mrd_ns as f64), ideal(1.0).max(mrd_ns as f64));
                                let obs = (nr - now) as f64;
                                if obs < lo * (1.0 - 1e-4) - 1e3 || obs > hi2 * (1.0 + 1e-4) + 1e3 {
                                    spec.push(("C06:backoff-range".into(), format!("attempt {a}: delay {obs} ns outside [{lo}, {hi2}]")));
                                }
                            }
                            if post.iter().any(|e| valid_at(e.expiry, now, thr_ns)) {
                                // (read the slot directly: `cached_path` would mark the pair as used)
                                match l.vs.active() {
                                    Some((p, _)) if !p.expiration().map(|e| e as u64 <= now / NS).unwrap_or(false) => {}
                                    _ => spec.push(("C06:without-path".into(), "after a refetch a cached path is valid but a sender would get none (or an expired path)".into())),
                                }
                            }
                        }
                        let changed = pre_active.as_ref().map(|p| p.1) != l.vs.active().map(|p| p.1);
                        if changed && pre_active.is_some() && l.vs.active().is_some() {
                            out.swaps += 1;
                            swap_rule(&pre_active, &l, &post, now, thr_ns, h.cfg.threshold, &mut spec);
                        }
                        if l.vs.pending_issues() < pend.len() {
                            // the fetch drained the issue channel: those issues were ingested at `now`
                            for k in pend.iter().filter(|k| kind_applies(k)) {
                                issue_log.push((k.clone(), now));
                            }
                        }
                        pend.truncate_front(l.vs.pending_issues());
                        (state_line(&l, now, exited), format!("maintain {now} {resp_tok} {sc0} {sc1} {ord} {backoff}"))
                    }
                }
            }
            // ============================================================== report
            OpSpec::Report { kind, ts } => {
                let before = l.vs.pending_issues();
                let r = if let Some(s) = scmp_of(kind) {
                    catch(|| Some(l.vs.step_report_scmp(st(*ts), s)))
                } else {
                    let e = send_err_of(kind).unwrap();
                    catch(|| l.vs.step_report_send_error(st(*ts), &e))
                };
                match r {
                    Err(msg) => {
                        out.spec.push(("C06:panic:report".into(), format!("report panicked: {msg}")));
                        out.labels.push("report panic".into());
                        break;
                    }
                    Ok(rep) => {
                        let rep = rep.unwrap();
                        if l.vs.pending_issues() > before {
                            pend.push(kind.clone());
                        }
                        // The property's notion of "the same failure": same issue kind and same target, i.e. same AS and
                        // the same interface ids (both of them for a connectivity-down report).  Only a report of the same
                        // failure inside the deduplication window may be dropped as a duplicate - whatever id the code
                        // derives for it.  A report that is dropped although no such earlier report exists is remembered
                        // and judged by the steer-away oracle at the worker's next wake-up as if it had been delivered.
                        if rep.handled && !rep.broadcast {
                            match same_failure_before(&h.ops[..idx], kind, *ts, h.cfg.dedup_ms * 1_000_000) {
                                Some(_) => {}
                                None => {
                                    let near = h.ops[..idx].iter().rev().find_map(|o| match o {
                                        OpSpec::Report { kind: k2, ts: t2 } if spec_penalty(k2) > 0.0 => Some(format!("`{}` at {t2}", kind_token(k2))),
                                        _ => None,
                                    });
                                    out.labels.push("report dropped although no report of the same failure precedes it in the window".into());
                                    lost.push((kind.clone(), *ts, near.unwrap_or_else(|| "none".into())));
                                }
                            }
                        }
                        out.labels.push(format!("report {}{}", kind_token(kind).split(' ').next().unwrap(), if !rep.handled { " unhandled" } else if rep.broadcast { " new" } else { " duplicate" }));
                        (state_line(&l, 0, false), format!("report {} {} {}", kind_token(kind), rep.dedup_id, ts))
                    }
                }
            }
            // ============================================================== deliver
            OpSpec::Deliver { now } => {
                let now = *now;
                let t = st(now);
                let pre = l.vs.cache(t, false);
                let pre_active = l.vs.active();
                let first_applies = pend.first().map(kind_applies).unwrap_or(false);
                let ingested: Vec<KindSpec> = if first_applies { pend.iter().filter(|k| kind_applies(k)).cloned().collect() } else { vec![] };
                let sc = score_map(&l.vs.cache(t, first_applies), &[], &mut spec);
                let r = catch(|| l.vs.step_deliver(t));
                match r {
                    Err(msg) => {
                        out.spec.push(("C06:panic:deliver".into(), format!("deliver panicked: {msg}")));
                        break;
                    }
                    Ok(res) => {
                        out.labels.push(format!("deliver {}", if res.is_none() { "empty" } else if first_applies { "ingest" } else { "skip" }));
                        pend.truncate_front(l.vs.pending_issues());
                        for k in &ingested {
                            issue_log.push((k.clone(), now));
                        }
                        let post = l.vs.cache(t, false);
                        let post_active = l.vs.active();
                        // ---- oracle: C07 -----------------------------------------------------
                        if !ingested.is_empty() {
                            let hits_any = ingested.iter().any(|k| pre.iter().any(|e| kind_matches(k, &e.path)));
                            if !hits_any && (cache_fps(&pre) != cache_fps(&post) || pre_active.as_ref().map(|p| p.1) != post_active.as_ref().map(|p| p.1)) {
                                spec.push(("C07:unrelated-report".into(), "an issue matching no cached path changed the cache order or the active path".into()));
                            }
                        }
                        // what the worker has to act on at this wake-up: the reports it received plus the reports that were
                        // withheld from it although they are not duplicates in the property's sense (`lost`)
                        let lost_now: Vec<(KindSpec, u64, String)> = std::mem::take(&mut lost).into_iter().filter(|(k, _, _)| kind_applies(k)).collect();
                        let judged: Vec<&KindSpec> = ingested.iter().chain(lost_now.iter().map(|(k, _, _)| k)).collect();
                        if !judged.is_empty() {
                            if let Some((ap, _)) = &pre_active {
                                let hitting: Vec<&KindSpec> = judged.iter().copied().filter(|k| kind_matches(k, ap)).collect();
                                if !hitting.is_empty() {
                                    out.steer_checked += 1;
                                    let thr_f = h.cfg.threshold;
                                    let sc_of = |e: &VerifCacheEntry| f32::from_bits(e.score_bits);
                                    let matching: Vec<&VerifCacheEntry> = post.iter().filter(|e| hitting.iter().any(|k| kind_matches(k, &e.path))).collect();
                                    let alts: Vec<&VerifCacheEntry> = post.iter().filter(|e| valid_at(e.expiry, now, thr_ns) && !hitting.iter().any(|k| kind_matches(k, &e.path))).collect();
                                    let strong_alt = alts.iter().any(|q| matching.iter().all(|m| (sc_of(m) as f64) + (thr_f as f64) < sc_of(q) as f64 - 1e-6));
                                    let still = post_active.as_ref().map(|(p, _)| hitting.iter().any(|k| kind_matches(k, p))).unwrap_or(false);
                                    let active_valid = valid_at(ap.expiration(), now, thr_ns);
                                    // documented magnitude of the strongest report on the active path; a withheld report counts
                                    // with the faster documented decay over the time since it was made
                                    let pen = hitting
                                        .iter()
                                        .map(|k| match lost_now.iter().find(|(lk, _, _)| std::ptr::eq(lk, *k)) {
                                            Some((_, ts, _)) => spec_penalty(k) * (2f64).powf(-(now.saturating_sub(*ts) as f64 / 1e9) / SPEC_ISSUE_HALF_LIFE_S),
                                            None => spec_penalty(k),
                                        })
                                        .fold(0.0, f64::max);
                                    let only_lost = hitting.iter().all(|k| lost_now.iter().any(|(lk, _, _)| std::ptr::eq(lk, *k)));
                                    if still && strong_alt && active_valid {
                                        spec.push(("C07:steer-away".into(), "the active path crosses the reported interface, a valid cached alternative avoids it and outscores every affected path by more than the threshold, yet the active path still crosses it".into()));
                                    } else if still && !alts.is_empty() {
                                        let act_entry = post_active.as_ref().and_then(|(_, fp)| post.iter().find(|e| e.fingerprint == *fp));
                                        if let Some(ae) = act_entry {
                                            match classify_non_steer(pen, hitting.iter().all(|k| matches!(k, KindSpec::Fhu(..))), &alts, ae, thr_f, now, &issue_log, &h.ops[..=idx]) {
                                                NonSteer::Finding(key, what) if only_lost && key == "C07:steer-away:weak-penalty" => {
                                                    let (k, ts, near) = lost_now.iter().find(|(lk, _, _)| hitting.iter().any(|k| std::ptr::eq(lk, *k))).unwrap();
                                                    spec.push((
                                                        "C07:steer-away:distinct-report-dropped".into(),
                                                        format!(
                                                            "failure report `{}` at {ts} hits the active path {} and the history holds no earlier report of the same failure (same kind, same AS, same interface ids) within the deduplication window of {} ms (latest earlier failure report: {near}), yet it was dropped as a duplicate: it never reached the path set, the active path still crosses the interface at now={now} although a valid, unpenalised cached path avoids it ({what})",
                                                            kind_token(k),
                                                            fp_exp(ap),
                                                            h.cfg.dedup_ms
                                                        ),
                                                    ));
                                                }
                                                NonSteer::Finding(key, what) => spec.push((key, what)),
                                                NonSteer::ConfigDisablesFailover => out.labels.push("steer-away not required: swap threshold >= every documented penalty".into()),
                                            }
                                        }
                                    }
                                }
                            }
                        }
                        let changed = pre_active.as_ref().map(|p| p.1) != post_active.as_ref().map(|p| p.1);
                        if pre_active.is_some() && post_active.is_none() {
                            slot_eval = Some(now);
                        }
                        if changed && pre_active.is_some() && post_active.is_some() {
                            out.swaps += 1;
                            swap_rule(&pre_active, &l, &post, now, thr_ns, h.cfg.threshold, &mut spec);
                        }
                        (state_line(&l, now, false), format!("deliver {now} {sc}"))
                    }
                }
            }
            // ============================================================== send
            OpSpec::Send { now } => {
                let now = *now;
                let t = st(now);
                let act = l.vs.active();
                let c = catch(|| l.vs.send_cached(t));
                let p = catch(|| l.vs.send_path(t).now_or_never());
                let mut handed: Vec<ScionPath> = vec![];
                let cs = match &c {
                    Ok(None) => "none".to_string(),
                    Ok(Some(p)) => {
                        handed.push(p.clone());
                        format!("path:{}", fp_exp(p))
                    }
                    Err(m) if m.contains("expired") => {
                        spec.push(("C06:handout-expired".into(), format!("cached_path handed out a path that expired before `now` (debug assertion: {m})")));
                        format!("expired:{}", act.as_ref().map(|a| fp_exp(&a.0)).unwrap_or_default())
                    }
                    Err(m) => {
                        spec.push(("C06:panic:send".into(), format!("cached_path panicked: {m}")));
                        "panic".into()
                    }
                };
                let ps = match &p {
                    Ok(None) => "wait".to_string(),
                    Ok(Some(Ok(p))) => {
                        handed.push(p.clone());
                        format!("ok:{}", fp_exp(p))
                    }
                    Ok(Some(Err(e))) => match &**e {
                        PathFetchError::NoPathsFound => "err:np".into(),
                        _ => "err:ot".into(),
                    },
                    Err(m) if m.contains("expired") => {
                        spec.push(("C06:handout-expired".into(), format!("path() handed out a path that expired before `now` (debug assertion: {m})")));
                        format!("expired:{}", act.as_ref().map(|a| fp_exp(&a.0)).unwrap_or_default())
                    }
                    Err(m) => {
                        spec.push(("C06:panic:send".into(), format!("path() panicked: {m}")));
                        "panic".into()
                    }
                };
                out.labels.push(format!("send cached={} path={}", cs.split(':').next().unwrap(), ps.split(':').next().unwrap()));
                // ---- oracle: C06 "while a valid (= unexpired) path is known a sender is never left without one"
                if matches!(&c, Ok(None)) {
                    let cache = l.vs.cache(t, false);
                    let unexpired = |e: &VerifCacheEntry| e.expiry.map(|x| x as u64 > now / NS).unwrap_or(true);
                    if cache.iter().any(|e| unexpired(e)) {
                        let act_expired = act.as_ref().map(|(p, _)| p.expiration().map(|e| e as u64 <= now / NS).unwrap_or(false));
                        // "valid" for the empty-slot classes is judged at the later of the sender's clock and the worker's
                        // last evaluation of the slot (the same instant unless the clock stepped back in between): a path
                        // that was within min_expiry_threshold of its expiry when the worker looked is the open class
                        // only-near-expiry-paths, whatever an earlier clock value says about it.  valid_at is antitone in
                        // time, so with a clock that never steps back this is valid_at(now).
                        let t_cls = now.max(slot_eval.unwrap_or(0));
                        let any_valid = cache.iter().any(|e| valid_at(e.expiry, t_cls, thr_ns));
                        // The open finding "active path expired between ticks" is about the worker not waking when the
                        // active path expires although the next lookup WAS scheduled by the documented rule.  A lookup that
                        // was scheduled later than the rule allows (e.g. from the active path's expiry only, ignoring the
                        // cached spare paths a failover switches to) and a send that falls between the documented due time
                        // and the scheduled one is another class.
                        let late_sched = last_sched.as_ref().filter(|s| s.nr > s.bound && now >= s.bound && now < s.nr);
                        match act_expired {
                            Some(true) if late_sched.is_some() => {
                                let sc = late_sched.unwrap();
                                spec.push((
                                    "C06:without-path:schedule-ignores-spare-expiry".into(),
                                    format!(
                                        "cached_path returns none at now={now}: the active path {} has expired and {} cached path(s) are not expired, {} of them valid.  The last successful lookup (at {}) cached path {} expiring at {} s; by the documented rule the next lookup was due at {} (earliest expiry of any cached path - min_expiry_threshold, clamped by min_refetch_delay / refetch_interval), i.e. before that path expired, but it was scheduled for {}: the schedule ignored the expiry of a cached spare path, traffic failed over to it and nothing refreshed it",
                                        act.as_ref().map(|a| fp_exp(&a.0)).unwrap_or_default(),
                                        cache.iter().filter(|e| unexpired(e)).count(),
                                        cache.iter().filter(|e| valid_at(e.expiry, now, thr_ns)).count(),
                                        sc.at,
                                        sc.earliest.0,
                                        sc.earliest.1,
                                        sc.bound,
                                        sc.nr
                                    ),
                                ));
                            }
                            Some(true) => spec.push(("C06:without-path:active-expired-between-ticks".into(), format!("the active path expired before the worker's next maintenance tick (next refetch {}), cached_path returns none although {} cached path(s) are not expired at now={now}", ns_of(l.vs.next_refetch()), cache.iter().filter(|e| unexpired(e)).count()))),
                            None if !any_valid => spec.push((
                                "C06:without-path:only-near-expiry-paths".into(),
                                format!(
                                    "every cached path is within min_expiry_threshold of its expiry{} but not expired at now={now}; none is made active and the sender gets no path",
                                    if t_cls > now { format!(" at {t_cls}, the instant the worker last evaluated the empty active slot (the clock stepped back since)") } else { String::new() }
                                ),
                            )),
                            _ => spec.push(("C06:without-path".into(), format!("cached_path returned none at now={now} although an unexpired path is cached (active slot: {:?})", act.as_ref().map(|a| fp_exp(&a.0))))),
                        }
                    }
                }
                // ---- oracle: C05 / C06 on what was handed out -----------------------------------
                for hp in &handed {
                    out.handouts += 1;
                    if !all_accept(&pe, hp) {
                        spec.push(("C05:handout-policy".into(), format!("handed-out path {} is rejected by {}", fp_exp(hp), rejecting(&pe, hp))));
                    }
                    if hp.src_ia() != src_ia() || hp.dst_ia() != dst_ia() {
                        spec.push(("C05:handout-endpoints".into(), "handed-out path does not connect the requested pair".into()));
                    }
                    if !delivered.iter().any(|d| d == hp) {
                        spec.push(("C05:handout-provenance".into(), format!("handed-out path {} was never returned by a fetch", fp_exp(hp))));
                    }
                    if needs_meta && !hops_readable(hp) {
                        if hp.metadata().and_then(|m| m.interfaces.as_ref()).is_none() {
                            spec.push(("C05:no-metadata".into(), "a path without interface metadata was handed out under a hop policy".into()));
                        } else {
                            spec.push(("C05:hops-unreadable".into(), format!("path {} was handed out under a hop-based policy although its hops cannot be read ({}): the policy cannot have been evaluated on it", fp_exp(hp), unreadable_why(hp))));
                        }
                    }
                    if hp.expiration().map(|e| e as u64 <= now / NS).unwrap_or(false) {
                        spec.push(("C06:handout-expired".into(), format!("handed-out path {} is expired at now={now}", fp_exp(hp))));
                    }
                }
                if !any_allowed_delivered && !handed.is_empty() {
                    spec.push(("C05:unfiltered".into(), "a path was handed out although no fetched path satisfies the policy".into()));
                }
                if !any_allowed_delivered && l.vs.sync_state().0 && !matches!(&p, Ok(Some(Err(_)))) {
                    spec.push(("C05:unfiltered".into(), format!("no fetched path satisfies the policy but path() did not return an error: {ps}")));
                }
                (format!("cached={cs} path={ps} | {}", state_line(&l, now, false)), format!("send {now}"))
            }
        };
        // ---- oracle on the state after every op ---------------------------------------------------
        {
            let now = match op {
                OpSpec::Maintain { now, .. } | OpSpec::Deliver { now } | OpSpec::Send { now } => *now,
                OpSpec::Report { ts, .. } => *ts,
            };
            let c = l.vs.cache(st(now), false);
            for e in &c {
                if !all_accept(&pe, &e.path) {
                    spec.push(("C05:cache-policy".into(), format!("cached path {} is rejected by {}", fp_u64(&e.fingerprint), rejecting(&pe, &e.path))));
                }
                if !delivered.iter().any(|d| *d == e.path) {
                    spec.push(("C05:cache-provenance".into(), "cached path was never returned by a fetch".into()));
                }
            }
            if let Some((ap, fp)) = l.vs.active() {
                if !all_accept(&pe, &ap) {
                    spec.push(("C05:active-policy".into(), format!("the active path {} is rejected by {}", fp_exp(&ap), rejecting(&pe, &ap))));
                }
                if !c.iter().any(|e| e.fingerprint == fp && e.path == ap) {
                    spec.push(("C05:active-not-cached".into(), "the active slot holds a path that is not in the cache".into()));
                }
            }
            if c.len() > h.cfg.max_cached {
                spec.push(("C06:cache-bound".into(), format!("{} cached paths > max_cached_paths_per_pair {}", c.len(), h.cfg.max_cached)));
            }
            let (ic, ifo) = l.vs.issue_sizes();
            if ic > h.cfg.issue_cache {
                spec.push(("C06:issue-cache-bound".into(), format!("{ic} cached issues > issue_cache_size {}", h.cfg.issue_cache)));
            }
            if ifo > h.cfg.issue_cache {
                spec.push(("C06:issue-fifo-bound".into(), format!("{ifo} issue FIFO entries > issue_cache_size {}", h.cfg.issue_cache)));
            }
            // no return: a path that becomes the active one (first activation or switch) must not cross an interface
            // whose documented penalty is still fresh while a valid, never-reported cached path avoids it
            if matches!(op, OpSpec::Maintain { .. } | OpSpec::Deliver { .. }) {
                if let Some((ap, afp)) = l.vs.active() {
                    if active_before_op.as_ref().map(|p| p.1) != Some(afp) {
                        out.return_checked += 1;
                        match no_return(&ap, &c, now, thr_ns, &h.cfg, &h.ops[..=idx], &pend, &mut spec) {
                            None => {}
                            Some(0) => out.labels.push("new active path crosses a reported interface, no clean alternative cached".into()),
                            Some(_) => out.labels.push("new active path crosses a reported interface, clean alternative cached: penalty compared".into()),
                        }
                    }
                }
            }
            // recovery: no matching issue for 20 reliability half-lives ⇒ the penalty is gone
            if matches!(op, OpSpec::Maintain { .. } | OpSpec::Deliver { .. }) {
                for e in &c {
                    // "the path" is what the implementation keys its cache and reliability scores by: the data-plane
                    // fingerprint (source, destination, interface ids of the hop fields - no AS numbers). In a real
                    // topology an interface id of an AS names one link, so the fingerprint fixes the AS sequence; the
                    // random route universes of this harness are not bound to one topology and may hold two routes
                    // with the same interface ids through different ASes (one fingerprint, one cache entry whose
                    // `path` is the last one fetched, one score). An issue matches the entry when it matches ANY route
                    // delivered under this fingerprint, not only the copy the entry holds right now
                    // (corpus 020-recovery-fingerprint-shared-by-two-routes).
                    let aliases: Vec<&ScionPath> = delivered.iter().filter(|d| d.fingerprint() == e.path.fingerprint() && **d != e.path).collect();
                    let hits = |k: &KindSpec| kind_matches(k, &e.path) || aliases.iter().any(|d| kind_matches(k, d));
                    // issues still queued or cached are applied when ingested / when the path is first fetched
                    let recent = issue_log.iter().any(|(k, t)| hits(k) && now.saturating_sub(*t) < 1800 * NS)
                        || pend.iter().any(|k| hits(k))
                        || h.ops[..=idx].iter().any(|o| matches!(o, OpSpec::Report { kind, ts } if hits(kind) && (now.saturating_sub(*ts) < 1800 * NS || *ts > now)));
                    if !recent && aliases.iter().any(|d| d.metadata().and_then(|m| m.interfaces.as_ref()) != e.path.metadata().and_then(|m| m.interfaces.as_ref())) {
                        out.labels.push("recovery judged for a cache entry whose fingerprint is shared by routes through different ASes".into());
                    }
                    if !recent {
                        let hops = e.path.metadata().and_then(|m| m.interfaces.as_ref()).map(|v| v.len() / 2 + 1);
                        if let Some(hops) = hops {
                            let base = 0.1f32 * (1.0 - hops as f32 * 0.02);
                            if f32::from_bits(e.score_bits) < base - 1e-3 {
                                spec.push(("C07:not-recovered".into(), format!("path {} has had no matching issue for 20 half-lives but still scores {} < {}", fp_u64(&e.fingerprint), f32::from_bits(e.score_bits), base)));
                            }
                        }
                    }
                }
            }
        }
        let _ = prop;
        out.spec.extend(spec);
        out.spec.extend(glue);
        // once model and implementation have parted the model is no longer asked (its state is another one); the
        // remaining operations still run on the implementation under the spec oracle, so that a defect that shows
        // first as a disagreement is also followed to the hand-out
        if out.disagree.is_some() {
            continue;
        }
        let mo = lean.ask(&req);
        if std::env::var("HX_DEBUG").is_ok() {
            eprintln!("REQ   {req}\nIMPL  {imp}\nMODEL {mo}");
            let tnow = match op { OpSpec::Maintain { now, .. } | OpSpec::Deliver { now } | OpSpec::Send { now } => *now, OpSpec::Report { ts, .. } => *ts };
            eprintln!("SCORES {:?}", l.vs.cache(st(tnow), false).iter().map(|e| (fp_u64(&e.fingerprint) % 100000, f32::from_bits(e.score_bits))).collect::<Vec<_>>());
        }
        if lean.differs(&mo, &imp) && out.disagree.is_none() {
            out.last_req = req.clone();
            out.disagree = Some((idx, imp, mo));
        }
    }
    out.nontrivial = out.fetches > 0 && (out.handouts > 0 || out.swaps > 0 || out.steer_checked > 0);
    let _ = out.return_checked;
    drop(l);
    out
}

trait TruncFront {
    fn truncate_front(&mut self, keep: usize);
}
impl<T> TruncFront for Vec<T> {
    fn truncate_front(&mut self, keep: usize) {
        if self.len() > keep {
            let n = self.len() - keep;
            self.drain(..n);
        }
    }
}

/// "The same failure" in the sense of the property: the same kind of report (interface down / connectivity down /
/// first hop unreachable) about the same target - same ISD-AS and the same interface ids, BOTH of them for a
/// connectivity-down report.  The quoted packet of an SCMP error takes no part.  Returns the timestamp of an
/// earlier report of the same failure that lies inside the deduplication window before `ts` (a report whose
/// timestamp is later than `ts` counts as zero time ago, as `duration_since(..).unwrap_or(0)` does); `None` means
/// the report at `ts` is certainly not a duplicate and must reach the path sets.
fn same_failure_before(before: &[OpSpec], kind: &KindSpec, ts: u64, dedup_ns: u64) -> Option<u64> {
    if dedup_ns == 0 {
        return None;
    }
    before.iter().find_map(|o| match o {
        OpSpec::Report { kind: k2, ts: t2 } if same_failure(k2, kind) && *t2 + dedup_ns > ts => Some(*t2),
        _ => None,
    })
}
fn same_failure(a: &KindSpec, b: &KindSpec) -> bool {
    match (a, b) {
        (KindSpec::Xid(i1, a1, e1, _), KindSpec::Xid(i2, a2, e2, _)) => (i1, a1, e1) == (i2, a2, e2),
        (KindSpec::Icd(i1, a1, g1, e1, _), KindSpec::Icd(i2, a2, g2, e2, _)) => (i1, a1, g1, e1) == (i2, a2, g2, e2),
        (KindSpec::Fhu(i1, a1, e1), KindSpec::Fhu(i2, a2, e2)) => (i1, a1, e1) == (i2, a2, e2),
        (KindSpec::Ptb, KindSpec::Ptb) => true,
        _ => false,
    }
}

/// documented penalty magnitudes (doc comments of `IssueKind::penalty`): link failures 1.0, first-hop send failure 0.4
fn spec_penalty(k: &KindSpec) -> f64 {
    match k {
        KindSpec::Xid(..) | KindSpec::Icd(..) => 1.0,
        KindSpec::Fhu(..) => 0.4,
        KindSpec::Ptb => 0.0,
    }
}
/// documented reliability half-life
const SPEC_HALF_LIFE_S: f64 = 90.0;
/// documented length score: impact 0.1, one 50th per hop field
fn spec_base(p: &ScionPath) -> Option<f64> {
    let hops = p.metadata().and_then(|m| m.interfaces.as_ref()).map(|v| v.len() / 2 + 1)?;
    Some(0.1 * (1.0 - hops as f64 * 0.02))
}
/// upper bound of the penalty a path still carries at `now` from the issues of the history that match it
/// (sum of documented magnitudes decayed with the documented half-life, at most 1)
fn spec_residual(p: &ScionPath, now: u64, issue_log: &[(KindSpec, u64)], ops: &[OpSpec]) -> f64 {
    let dec = |t: u64| (2f64).powf(-(now.saturating_sub(t) as f64 / 1e9) / SPEC_HALF_LIFE_S);
    let mut r = 0.0;
    for (k, t) in issue_log {
        if kind_matches(k, p) {
            r += spec_penalty(k) * dec(*t);
        }
    }
    for o in ops {
        if let OpSpec::Report { kind, ts } = o {
            if kind_matches(kind, p) && !issue_log.iter().any(|(k, t)| k == kind && *t >= *ts) {
                // never ingested by the path set: applied from the issue cache when the path is fetched
                r += spec_penalty(kind) * dec(*ts);
            }
        }
    }
    r.min(1.0)
}

/// documented half-life of a cached issue ("With 30s half-life, it takes ~3 mins to recover", issues.rs): the penalty
/// a path gets when it is fetched after the report
const SPEC_ISSUE_HALF_LIFE_S: f64 = 30.0;

fn op_time(o: &OpSpec) -> u64 {
    match o {
        OpSpec::Maintain { now, .. } | OpSpec::Deliver { now } | OpSpec::Send { now } => *now,
        OpSpec::Report { ts, .. } => *ts,
    }
}

/// "Traffic does not return to the failed interface while the penalty is fresh" (property text), with the
/// documented magnitudes only: path `a` has just become the active path at `now` (`ops` = the history up to and
/// including this operation).  Lower bound of the penalty `a` must still carry: for a failure report on an
/// interface of `a` that is certainly not a duplicate (no similar report in the deduplication window before
/// it - in particular a re-report after the window), magnitude x 2^(-elapsed / 30 s), the faster of the two
/// documented decays (cached issue 30 s, reliability 90 s), over the longest time that can have passed since the
/// report.  A valid cached path that no report of the history ever matched scores its documented length score.  If
/// that beats the length score of `a` minus the lower bound by a clear margin, `a` must not have been chosen.
/// Returns the number of clean alternatives the new active path was compared with (`None`: no report on it counts).
fn no_return(a: &ScionPath, cache: &[VerifCacheEntry], now: u64, thr_ns: u64, cfg: &CfgSpec, ops: &[OpSpec], pend: &[KindSpec], spec: &mut Vec<(String, String)>) -> Option<usize> {
    const EPS: f64 = 2e-3;
    let base_a = spec_base(a)?;
    let targeted = |k: &KindSpec| spec_penalty(k) > 0.0;
    // the bounded issue cache has not evicted anything yet
    if ops.iter().filter(|o| matches!(o, OpSpec::Report { kind, .. } if targeted(kind))).count() > cfg.issue_cache {
        return None;
    }
    // a report on `a` that this path set has not ingested yet (still queued, no refetch since) cannot have acted
    if pend.iter().any(|k| kind_matches(k, a)) {
        return None;
    }
    let dedup = cfg.dedup_ms * 1_000_000;
    let mut fresh: Option<(f64, String, f64)> = None;
    for (i, o) in ops.iter().enumerate() {
        let OpSpec::Report { kind, ts } = o else { continue };
        if !targeted(kind) || !kind_applies(kind) || !kind_matches(kind, a) {
            continue;
        }
        if same_failure_before(&ops[..i], kind, *ts, dedup).is_some() {
            continue;
        }
        let later = || ops[i + 1..].iter().map(op_time);
        let t_lo = later().fold(*ts, u64::min);
        let t_hi = later().fold((*ts).max(now), u64::max);
        let elapsed = (t_hi - t_lo) as f64 / 1e9;
        let r = spec_penalty(kind) * (2f64).powf(-elapsed / SPEC_ISSUE_HALF_LIFE_S);
        if fresh.as_ref().map(|f| r > f.0).unwrap_or(true) {
            fresh = Some((r, kind_token(kind), elapsed));
        }
    }
    let (r, what, elapsed) = fresh?;
    let a_fp = path_fp(a);
    let mut compared = 0;
    for q in cache {
        if fp_u64(&q.fingerprint) == a_fp || !valid_at(q.expiry, now, thr_ns) {
            continue;
        }
        if ops.iter().any(|o| matches!(o, OpSpec::Report { kind, .. } if kind_matches(kind, &q.path))) {
            continue;
        }
        let Some(base_q) = spec_base(&q.path) else { continue };
        compared += 1;
        if r > base_a - base_q + 2.0 * EPS {
            spec.push((
                "C07:no-return:fresh-penalty".into(),
                format!(
                    "path {} became the active path at now={now} although it crosses the interface of failure report `{what}` made at most {elapsed} s earlier (documented penalty still at least {r:.4}, length score {base_a:.4}) while the valid cached path {} (length score {base_q:.4}) avoids it and was never reported: traffic returns to / starts on the failed interface while the penalty is fresh",
                    a_fp,
                    fp_u64(&q.fingerprint)
                ),
            ));
            return Some(compared);
        }
    }
    Some(compared)
}

enum NonSteer {
    Finding(String, String),
    ConfigDisablesFailover,
}

/// The active path was hit by `hitting`, valid alternatives avoiding the reported interface exist, but the
/// active path stays. Which input class is this?  `pen` = documented magnitude of the strongest report on the active
/// path, `need(q)` = gap the penalty has to open for alternative q.
fn classify_non_steer(pen: f64, first_hop_only: bool, alts: &[&VerifCacheEntry], active: &VerifCacheEntry, thr: f32, now: u64, issue_log: &[(KindSpec, u64)], ops: &[OpSpec]) -> NonSteer {
    const EPS: f64 = 2e-3;
    let base_a = spec_base(&active.path).unwrap_or(0.1);
    // (need without own penalty, residual penalty of the alternative)
    let per_alt: Vec<(f64, f64)> = alts.iter().map(|q| (thr as f64 + base_a - spec_base(&q.path).unwrap_or(0.0), spec_residual(&q.path, now, issue_log, ops))).collect();
    // an alternative for which the documented penalty opens the gap even counting the alternative's own residual penalty
    if per_alt.iter().any(|(need, res)| need + res < pen - EPS) {
        return NonSteer::Finding(
            "C07:steer-away:weak-penalty".into(),
            format!("a failure report with documented penalty {pen} hit the active path and a valid alternative avoids the interface (gap needed incl. its own residual penalty: {:?}), yet the active path stays: the effective penalty is weaker than documented", per_alt),
        );
    }
    let clean: Vec<&(f64, f64)> = per_alt.iter().filter(|(_, res)| *res < EPS).collect();
    if clean.is_empty() {
        return NonSteer::Finding(
            "C07:steer-away:alternative-penalised".into(),
            "after a failure report on the active path every valid cached path that avoids the failed interface carries its own fresh penalty, which keeps the score gap below the swap threshold: traffic stays on the failed interface".into(),
        );
    }
    // an unpenalised alternative exists, but not even the documented penalty can open the gap
    if clean.iter().all(|(need, _)| *need >= 1.0 - EPS) {
        return NonSteer::ConfigDisablesFailover;
    }
    if first_hop_only {
        return NonSteer::Finding(
            "C07:steer-away:first-hop-penalty-below-threshold".into(),
            format!("a first-hop send failure (penalty 0.4) was reported on the active path and an unpenalised valid alternative avoids the interface, but the penalty does not exceed path_swap_score_threshold {thr}: traffic stays on the unreachable first hop"),
        );
    }
    NonSteer::ConfigDisablesFailover
}

/// swap rule (`decide_active_path_update`): a *valid* active path that stays cached is only replaced when the
/// best path outscores it by more than the threshold
fn swap_rule(pre_active: &Option<(ScionPath, [u8; 32])>, l: &Live, post: &[VerifCacheEntry], now: u64, thr_ns: u64, thr: f32, spec: &mut Vec<(String, String)>) {
    let Some((ap, afp)) = pre_active else { return };
    let Some((_, nfp)) = l.vs.active() else { return };
    let old = post.iter().find(|e| e.fingerprint == *afp);
    let new = post.iter().find(|e| e.fingerprint == nfp);
    if let (Some(o), Some(n)) = (old, new) {
        // the cached copy may have been refreshed by the fetch; the decision looks at the refreshed one
        let _ = ap;
        if valid_at(o.expiry, now, thr_ns) {
            let diff = f32::from_bits(n.score_bits) - f32::from_bits(o.score_bits);
            if !(diff > thr) {
                spec.push(("C07:swap-rule".into(), format!("active path replaced although it is valid and the score gap {diff} does not exceed the threshold {thr}")));
            }
        }
    }
}

// ------------------------------------------------------------------------------------------------
// generators

fn gen_routes(rng: &mut Rng) -> Vec<Route> {
    let n = rng.range(1, 12) as usize;
    let mut v: Vec<Route> = vec![];
    let mut guard = 0;
    while v.len() < n && guard < 200 {
        guard += 1;
        let len = *rng.pick(&[0usize, 1, 1, 2, 2, 3, 4]);
        let e0 = rng.range(1, 3) as u16;
        let mut transit = vec![];
        let mut used: Vec<u32> = vec![];
        for _ in 0..len {
            let asn = 0x300 + rng.below(5) as u32;
            if used.contains(&asn) {
                continue;
            }
            used.push(asn);
            transit.push((asn, rng.range(1, 3) as u16, rng.range(4, 6) as u16));
        }
        let last_in = rng.range(1, 2) as u16;
        let r = Route { e0, transit, last_in };
        if !v.contains(&r) {
            v.push(r);
        }
    }
    v
}

fn gen_cfg(rng: &mut Rng, prop: &str) -> CfgSpec {
    let thr = *rng.pick(&[0u64, 5_000, 5_000, 60_000, 300_000]);
    let ri = *rng.pick(&[10_000u64, 100_000, 100_000, 1_800_000]);
    let mut mrd = *rng.pick(&[0u64, 1_000, 1_000, 5_000, 60_000]);
    // mostly valid configurations; the validator itself is compared on the rest
    if !rng.chance(1, 12) {
        mrd = mrd.min(thr).min(ri);
    }
    let max_cached = if prop == "C06" && rng.chance(1, 25) { 0 } else { *rng.pick(&[1usize, 2, 3, 5, 5, 50]) };
    CfgSpec {
        max_cached,
        refetch_interval_ms: ri,
        min_refetch_delay_ms: mrd,
        min_expiry_threshold_ms: thr,
        max_idle_ms: *rng.pick(&[30_000u64, 120_000, 10_000_000, 10_000_000]),
        backoff: *rng.pick(&[(1.0f32, 10.0f32, 2.0f32, 0.0f32), (60.0, 300.0, 1.5, 5.0), (2.0, 40.0, 1.5, 1.0), (1.0, 3.0, 3.0, 0.5)]),
        issue_cache: *rng.pick(&[1usize, 2, 3, 64, 100]),
        issue_broadcast: 64,
        dedup_ms: *rng.pick(&[0u64, 10_000, 10_000, 10_000]),
        threshold: *rng.pick(&[0.1f32, 0.5, 0.5, 0.0, 0.05, 1.5]),
    }
}

fn gen_policy(rng: &mut Rng, routes: &[Route]) -> PolSpec {
    match rng.below(10) {
        0 => PolSpec::None,
        1..=5 => {
            let mut m = rng.next() as u32;
            if rng.chance(1, 8) {
                m = 0;
            }
            PolSpec::Mask(m)
        }
        6 | 7 => {
            // deny one transit AS (or the first-hop interface), allow the rest
            let r = rng.pick(routes);
            let deny = if let Some((asn, _, _)) = r.transit.first() { format!("- 1-{}", asn) } else { format!("- 1-{}#{}", SRC_ASN, r.e0) };
            PolSpec::Acl(format!("{deny}, +"))
        }
        _ => {
            let r = rng.pick(routes);
            if let Some((asn, _, _)) = r.transit.first() { PolSpec::Pattern(format!("0* 1-{} 0*", asn)) } else { PolSpec::Pattern("0 0".into()) }
        }
    }
}

fn gen_kind(rng: &mut Rng, routes: &[Route], recent: &[KindSpec]) -> KindSpec {
    if !recent.is_empty() && rng.chance(1, 3) {
        return rng.pick(recent).clone();
    }
    let r = rng.pick(routes);
    let salt = rng.below(2) as u8;
    match rng.below(10) {
        0 | 1 => KindSpec::Fhu(1, SRC_ASN, r.e0),
        2 => KindSpec::Xid(1, SRC_ASN, r.e0, salt),
        3 | 4 | 5 => {
            if let Some((asn, _, o)) = r.transit.get(rng.below(r.transit.len().max(1) as u64) as usize) { KindSpec::Xid(1, *asn as u64, *o, salt) } else { KindSpec::Xid(1, SRC_ASN, r.e0, salt) }
        }
        6 | 7 => {
            if let Some((asn, i, o)) = r.transit.get(rng.below(r.transit.len().max(1) as u64) as usize) { KindSpec::Icd(1, *asn as u64, *i, *o, salt) } else { KindSpec::Icd(2, DST_ASN, r.last_in, 9, salt) }
        }
        8 => rng.pick(&[KindSpec::Xid(2, DST_ASN, r.last_in, salt), KindSpec::Xid(1, 0x999, 1, salt), KindSpec::Fhu(1, 0x998, 1), KindSpec::Icd(1, SRC_ASN, 1, r.e0, salt)]).clone(),
        _ => KindSpec::Ptb,
    }
}

/// next instant: around a boundary of the implementation's state (δ ∈ {−1 s, −1 ns, 0, +1 ns, +1 s}) or a small step
fn gen_now(rng: &mut Rng, cur: u64, l: &Live, thr_ns: u64) -> u64 {
    let mut cands: Vec<u64> = vec![ns_of(l.vs.next_refetch()), ns_of(l.vs.next_idle_check())];
    for e in l.vs.cache(st(cur), false) {
        if let Some(x) = e.expiry {
            cands.push(x as u64 * NS);
            cands.push((x as u64 * NS).saturating_sub(thr_ns));
        }
    }
    let pick = match rng.below(10) {
        0..=4 => {
            let b = *rng.pick(&cands);
            let d: i64 = *rng.pick(&[-(NS as i64), -1, 0, 0, 1, NS as i64]);
            (b as i64 + d).max(0) as u64
        }
        5 | 6 => cur + rng.range(0, 3 * NS),
        7 => cur + rng.range(0, 120 * NS),
        8 => cur,
        _ => cur + *rng.pick(&[45 * NS, 90 * NS, 180 * NS, 900 * NS, 2000 * NS]),
    };
    // the clock rarely steps back
    if pick < cur && !rng.chance(1, 20) { cur } else { pick }
}

fn gen_resp(rng: &mut Rng, routes: &[Route], now: u64, thr_ns: u64) -> RespSpec {
    match rng.below(12) {
        0 => RespSpec::ErrNoPaths,
        1 => RespSpec::ErrOther,
        2 => RespSpec::Ok(vec![]),
        _ => {
            let k = rng.range(1, routes.len().min(8) as u64) as usize;
            let mut v = vec![];
            let now_s = (now / NS) as i64;
            let thr_s = (thr_ns / NS) as i64;
            for _ in 0..k {
                let route = rng.below(routes.len() as u64) as usize;
                let exp = match rng.below(10) {
                    0 => now_s + *rng.pick(&[-1i64, 0, 1]),
                    1 | 2 => now_s + thr_s + *rng.pick(&[-1i64, 0, 1, 2]),
                    3 | 4 => now_s + thr_s + rng.range(2, 60) as i64,
                    _ => now_s + thr_s + rng.range(60, 20000) as i64,
                };
                let meta = if rng.chance(1, 10) { 1 + rng.below(2) as u8 } else { 0 };
                v.push(PSpec { route, expiry: exp.max(HOP_EXP_SECS as i64 + 1) as u32, meta });
            }
            // sometimes the same route twice with different expiry
            if rng.chance(1, 6) && !v.is_empty() {
                let mut d = v[0].clone();
                d.expiry += 100;
                v.push(d);
            }
            RespSpec::Ok(v)
        }
    }
}

/// generate a history by driving a live instance (the generator looks at the implementation's timers)
fn gen_history(rng: &mut Rng, prop: &str, max_ops: usize) -> Hist {
    let routes = gen_routes(rng);
    let cfg = gen_cfg(rng, prop);
    let mut pol = gen_policy(rng, &routes);
    let t0 = 1_000_000 * NS + rng.below(1000) * 1_000_000;
    // C05: 0, 1, 2 or 3 attached policies of mixed kinds (the other properties keep their one-policy stream)
    let mut more = vec![];
    if prop == "C05" {
        let n = *rng.pick(&[0usize, 1, 1, 1, 2, 2, 2, 3, 3]);
        if n == 0 {
            pol = PolSpec::None;
        }
        for i in 1..n {
            // the further policies accept most routes, so that chains still let traffic through; which position
            // holds the strictest policy is random
            let p = match rng.below(6) {
                0 | 1 => PolSpec::Mask((rng.next() | rng.next()) as u32),
                2 => PolSpec::Pattern("0*".into()),
                3 => PolSpec::Acl("+".into()),
                _ => {
                    let r = rng.pick(&routes);
                    match r.transit.last() {
                        Some((asn, _, _)) => PolSpec::Acl(format!("- 1-{}, +", asn)),
                        None => PolSpec::Acl(format!("- 1-{}#{}, +", SRC_ASN, r.e0)),
                    }
                }
            };
            more.push(p);
            if rng.chance(1, 2) {
                let j = rng.below(i as u64 + 1) as usize;
                if j == 0 {
                    std::mem::swap(&mut pol, &mut more[i - 1]);
                } else {
                    more.swap(j - 1, i - 1);
                }
            }
        }
        if matches!(pol, PolSpec::None) && !more.is_empty() {
            pol = more.remove(0);
        }
        // policies that accept a path whatever its hops are, or reject every path by its destination: an ACL whose
        // default is allow, hop patterns that match the empty sequence
        if n >= 1 && rng.chance(1, 4) {
            let r = rng.pick(&routes);
            let deny = r.transit.first().map(|(asn, _, _)| format!("- 1-{asn}, ")).unwrap_or_default();
            let p = match rng.below(6) {
                0 => PolSpec::Acl("+".into()),
                1 => PolSpec::Acl(format!("{deny}+")),
                2 => PolSpec::Acl(format!("- 2-{}, +", DST_ASN)),
                3 => PolSpec::Pattern("0*".into()),
                4 => PolSpec::Pattern("0* 0*".into()),
                _ => PolSpec::Pattern("0?".into()),
            };
            if build_strategy(&Hist { kind: String::new(), cfg: cfg.clone(), pol: p.clone(), more: vec![], routes: vec![], t0, ops: vec![] }).is_some() {
                if more.is_empty() || rng.chance(1, 2) { pol = p } else { let j = rng.below(more.len() as u64) as usize; more[j] = p }
            }
        }
    }
    let mut h = Hist { kind: "random".into(), cfg, pol, more, routes, t0, ops: vec![] };
    if h.cfg.to_verif().validate().is_err() {
        return h;
    }
    // dry live instance to look at timers
    let rt = tokio::runtime::Builder::new_current_thread().enable_all().build().unwrap();
    let _g = rt.enter();
    let script = Arc::new(Mutex::new(Script { next: None, calls: 0, bad_pair: false }));
    // the dry instance carries the history's policy, so that its timers are the ones the real run will have
    let dry_policies = build_strategy(&h).map(|s| s.policies).unwrap_or_default();
    let vs = match catch(|| VerifPathSet::new(src_ia(), dst_ia(), h.cfg.to_verif(), ScriptFetcher(script.clone()), dry_policies, st(t0))) {
        Ok(v) => v,
        Err(_) => return h,
    };
    let mut l = Live { vs, script };
    let thr_ns = h.cfg.min_expiry_threshold_ms * 1_000_000;
    let n_ops = rng.range(3, max_ops as u64) as usize;
    let mut cur = t0;
    let mut recent: Vec<KindSpec> = vec![];
    let mut seen_routes: Vec<usize> = vec![];
    let weights: &[u8] = match prop {
        "C07" => &[0, 0, 0, 1, 1, 1, 2, 2, 3],
        "C06" => &[0, 0, 0, 0, 1, 1, 2, 3, 3],
        _ => &[0, 0, 0, 0, 1, 2, 3, 3, 3],
    };
    for i in 0..n_ops {
        // mostly the first operation is the first fetch; one history in five starts with a report or a send
        let w = if i == 0 { *rng.pick(&[0u8, 0, 0, 0, 1, 1, 3, 0, 0, 0]) } else { *rng.pick(weights) };
        let op = match w {
            0 => {
                cur = gen_now(rng, cur, &l, thr_ns);
                let mut resp = gen_resp(rng, &h.routes, cur, thr_ns);
                // a route that was fetched before comes back without (usable) metadata: same fingerprint, but a
                // hop-based policy can no longer be evaluated on it
                if let RespSpec::Ok(v) = &mut resp {
                    if !seen_routes.is_empty() && rng.chance(1, 4) {
                        let route = *rng.pick(&seen_routes);
                        let expiry = (cur / NS + thr_ns / NS + rng.range(60, 20000)) as u32;
                        v.push(PSpec { route, expiry, meta: 1 + rng.below(2) as u8 });
                    }
                    // C05: metadata is there but no hop sequence can be read from its interface list (empty, a single
                    // interface, odd length, a hop split over two ASes) - for a route seen before or a new one
                    if prop == "C05" && rng.chance(1, 3) {
                        let route = if !seen_routes.is_empty() && rng.chance(1, 2) { *rng.pick(&seen_routes) } else { rng.below(h.routes.len() as u64) as usize };
                        let expiry = (cur / NS + thr_ns / NS + rng.range(60, 20000)) as u32;
                        let p = PSpec { route, expiry, meta: *rng.pick(&[3u8, 3, 3, 4, 5, 6]) };
                        if rng.chance(1, 3) {
                            // ... and nothing else comes back
                            v.clear();
                        }
                        let at = rng.below(v.len() as u64 + 1) as usize;
                        v.insert(at, p);
                    }
                    for p in v.iter().filter(|p| p.meta == 0) {
                        if !seen_routes.contains(&p.route) {
                            seen_routes.push(p.route);
                        }
                    }
                }
                OpSpec::Maintain { now: cur, resp }
            }
            1 => {
                let k = gen_kind(rng, &h.routes, &recent);
                recent.push(k.clone());
                let ts = if rng.chance(1, 6) { cur.saturating_sub(rng.range(0, 20 * NS)) } else { cur + *rng.pick(&[0u64, 0, 1, 5 * NS, 9_999_999_999, 10 * NS, 10 * NS + 1, 30 * NS]) };
                if ts > cur {
                    cur = ts;
                }
                OpSpec::Report { kind: k, ts }
            }
            2 => {
                cur += *rng.pick(&[0u64, 0, 1_000_000, NS]);
                OpSpec::Deliver { now: cur }
            }
            _ => {
                cur = gen_now(rng, cur, &l, thr_ns);
                OpSpec::Send { now: cur }
            }
        };
        // apply to the dry instance so that timers evolve (failures here are found again by run_history)
        let ok = catch(|| match &op {
            OpSpec::Maintain { now, resp } => {
                let paths = match resp {
                    RespSpec::Ok(ps) => Ok(ps.iter().map(|p| build_path(&h.routes[p.route], p)).collect()),
                    RespSpec::ErrNoPaths => Err(0),
                    RespSpec::ErrOther => Err(1),
                };
                l.script.lock().unwrap().next = Some(paths);
                rt.block_on(l.vs.step_maintain(st(*now))).is_none()
            }
            OpSpec::Report { kind, ts } => {
                if let Some(s) = scmp_of(kind) {
                    l.vs.step_report_scmp(st(*ts), s);
                } else if let Some(e) = send_err_of(kind) {
                    l.vs.step_report_send_error(st(*ts), &e);
                }
                true
            }
            OpSpec::Deliver { now } => {
                l.vs.step_deliver(st(*now));
                true
            }
            OpSpec::Send { now } => {
                let _ = l.vs.send_cached(st(*now));
                true
            }
        });
        let deliver_now = l.vs.pending_issues() >= 24;
        h.ops.push(op);
        if deliver_now {
            let _ = catch(|| l.vs.step_deliver(st(cur)));
            h.ops.push(OpSpec::Deliver { now: cur });
        }
        if !matches!(ok, Ok(true)) {
            break;
        }
    }
    h
}

/// C07 stream "report, report again later, then fetch": a failure on an interface of route `a` is reported once or
/// several times (inside / outside the deduplication window, seconds to half an hour apart), and a fetch before,
/// between or after the reports brings in route `a` together with other routes.
fn gen_rereport(rng: &mut Rng) -> Hist {
    let routes = gen_routes(rng);
    let mut cfg = base_cfg();
    cfg.refetch_interval_ms = *rng.pick(&[10_000u64, 10_000, 100_000]);
    cfg.threshold = *rng.pick(&[0.5f32, 0.5, 0.3, 0.1]);
    cfg.dedup_ms = *rng.pick(&[10_000u64, 10_000, 10_000, 0]);
    cfg.max_cached = *rng.pick(&[5usize, 5, 50, 2]);
    let t0 = 1_000_000 * NS;
    let far = 1_000_000 + 20_000;
    let a = rng.below(routes.len() as u64) as usize;
    let ra = routes[a].clone();
    let first_hop = rng.chance(1, 4);
    let k = if first_hop || ra.transit.is_empty() {
        if rng.chance(1, 2) { KindSpec::Fhu(1, SRC_ASN, ra.e0) } else { KindSpec::Xid(1, SRC_ASN, ra.e0, 0) }
    } else {
        let (asn, i, o) = ra.transit[rng.below(ra.transit.len() as u64) as usize];
        if rng.chance(1, 2) { KindSpec::Xid(1, asn as u64, o, rng.below(2) as u8) } else { KindSpec::Icd(1, asn as u64, i, o, rng.below(2) as u8) }
    };
    let subset = |rng: &mut Rng, with_a: bool| -> Vec<PSpec> {
        let mut v: Vec<PSpec> = (0..routes.len()).filter(|i| *i != a && rng.chance(2, 3)).map(|i| PSpec { route: i, expiry: far, meta: 0 }).collect();
        if with_a {
            v.push(PSpec { route: a, expiry: far, meta: 0 });
        }
        rng.shuffle(&mut v);
        v
    };
    let mut ops = vec![];
    let mut cur = t0;
    if rng.chance(1, 2) {
        // the pair is already in use; route `a` is known or not
        let with_a = rng.chance(1, 3);
        ops.push(OpSpec::Maintain { now: cur, resp: RespSpec::Ok(subset(rng, with_a)) });
        ops.push(OpSpec::Send { now: cur });
    }
    let n_rep = rng.range(1, 4);
    for _ in 0..n_rep {
        cur += *rng.pick(&[1u64, 5, 9, 10, 11, 40, 120, 300, 300, 900, 1800]) * NS;
        ops.push(OpSpec::Report { kind: k.clone(), ts: cur });
        if rng.chance(1, 2) {
            ops.push(OpSpec::Deliver { now: cur });
        }
        if rng.chance(1, 4) {
            cur += *rng.pick(&[0u64, 1, 12]) * NS;
            let with_a = rng.chance(1, 2);
            ops.push(OpSpec::Maintain { now: cur, resp: RespSpec::Ok(subset(rng, with_a)) });
        }
    }
    cur += *rng.pick(&[0u64, 1, 5, 12, 30, 120]) * NS;
    ops.push(OpSpec::Maintain { now: cur, resp: RespSpec::Ok(subset(rng, true)) });
    ops.push(OpSpec::Send { now: cur + NS });
    Hist { kind: "rereport".into(), cfg, pol: PolSpec::None, more: vec![], routes, t0, ops }
}

/// the route whose path is the active one after the operations of `h` (dry run on a fresh real instance)
fn dry_active_route(h: &Hist) -> Option<usize> {
    let rt = tokio::runtime::Builder::new_current_thread().enable_all().build().unwrap();
    let _g = rt.enter();
    let script = Arc::new(Mutex::new(Script { next: None, calls: 0, bad_pair: false }));
    let pols = build_strategy(h).map(|s| s.policies).unwrap_or_default();
    let mut vs = catch(|| VerifPathSet::new(src_ia(), dst_ia(), h.cfg.to_verif(), ScriptFetcher(script.clone()), pols, st(h.t0))).ok()?;
    for op in &h.ops {
        if let OpSpec::Maintain { now, resp: RespSpec::Ok(ps) } = op {
            script.lock().unwrap().next = Some(Ok(ps.iter().map(|p| build_path(&h.routes[p.route], p)).collect()));
            catch(|| rt.block_on(vs.step_maintain(st(*now)))).ok()?;
        }
    }
    let (_, fp) = vs.active()?;
    let fp = fp_u64(&fp);
    (0..h.routes.len()).find(|i| path_fp(&build_path(&h.routes[*i], &PSpec { route: *i, expiry: 4_000_000, meta: 0 })) == fp)
}

/// a failure report that resembles `k` without being a report of the same failure: it differs in exactly one of
/// ingress interface, egress interface, AS, ISD, kind of report (the label says which)
fn similar_report(rng: &mut Rng, k: &KindSpec) -> (KindSpec, &'static str) {
    let other = |rng: &mut Rng, x: u16| -> u16 {
        let y = rng.range(1, 7) as u16;
        if y == x { x + 1 } else { y }
    };
    let salt = rng.below(2) as u8;
    match k.clone() {
        KindSpec::Icd(isd, asn, g, e, _) => match rng.below(8) {
            0 | 1 | 2 => (KindSpec::Icd(isd, asn, other(rng, g), e, salt), "other ingress"),
            3 => (KindSpec::Icd(isd, asn, g, other(rng, e), salt), "other egress"),
            4 => (KindSpec::Xid(isd, asn, e, salt), "other kind, same egress"),
            5 => (KindSpec::Xid(isd, asn, g, salt), "other kind, ingress as egress"),
            6 => (KindSpec::Icd(isd, asn + 1, g, e, salt), "other AS"),
            _ => (KindSpec::Icd(isd, asn, e, g, salt), "interfaces swapped"),
        },
        KindSpec::Xid(isd, asn, e, _) if asn == SRC_ASN => match rng.below(4) {
            0 | 1 => (KindSpec::Fhu(isd, asn, e), "other kind, same interface"),
            2 => (KindSpec::Xid(isd, asn, other(rng, e), salt), "other egress"),
            _ => (KindSpec::Xid(3 - isd, asn, e, salt), "other ISD"),
        },
        KindSpec::Xid(isd, asn, e, _) => match rng.below(6) {
            0 | 1 | 2 => (KindSpec::Icd(isd, asn, rng.range(1, 7) as u16, e, salt), "other kind, same egress"),
            3 => (KindSpec::Xid(isd, asn, other(rng, e), salt), "other egress"),
            4 => (KindSpec::Xid(isd, asn + 1, e, salt), "other AS"),
            _ => (KindSpec::Xid(3 - isd, asn, e, salt), "other ISD"),
        },
        KindSpec::Fhu(isd, asn, e) => match rng.below(4) {
            0 | 1 => (KindSpec::Xid(isd, asn, e, salt), "other kind, same interface"),
            2 => (KindSpec::Fhu(isd, asn, other(rng, e)), "other egress"),
            _ => (KindSpec::Fhu(isd, asn + 1, e), "other AS"),
        },
        KindSpec::Ptb => (KindSpec::Ptb, "same"),
    }
}

/// C07 stream "burst of similar reports": the pair is in use; inside (or just outside) the deduplication window two
/// or three failure reports arrive that resemble each other - same AS and egress but another ingress, same
/// interface pair but another kind of report, interface-down vs connectivity-down on one interface, first-hop
/// send failure vs interface-down on the first hop, another AS with the same interface ids - and only one of them
/// is about an interface of the path in use.  Each one that is not a repetition of the same failure has to act.
fn gen_similar_burst(rng: &mut Rng) -> Hist {
    let routes = gen_routes(rng);
    let mut cfg = base_cfg();
    // (a refetch is due 3 s after the first one; the histories below decide whether the worker gets to it)
    cfg.refetch_interval_ms = 3_000;
    cfg.threshold = *rng.pick(&[0.5f32, 0.5, 0.3, 0.1]);
    cfg.dedup_ms = *rng.pick(&[10_000u64, 10_000, 10_000, 60_000, 0]);
    cfg.max_cached = *rng.pick(&[5usize, 50, 50]);
    let t0 = 1_000_000 * NS;
    let far = 1_000_000 + 20_000;
    let mut answer: Vec<PSpec> = (0..routes.len()).map(|i| PSpec { route: i, expiry: far, meta: 0 }).collect();
    rng.shuffle(&mut answer);
    let mut h = Hist { kind: "similar-burst".into(), cfg, pol: PolSpec::None, more: vec![], routes, t0, ops: vec![OpSpec::Maintain { now: t0, resp: RespSpec::Ok(answer.clone()) }, OpSpec::Send { now: t0 + NS }] };
    // the report about the path in use
    let a = dry_active_route(&h).unwrap_or(0);
    let ra = h.routes[a].clone();
    let hit = if ra.transit.is_empty() || rng.chance(1, 5) {
        if rng.chance(1, 3) { KindSpec::Fhu(1, SRC_ASN, ra.e0) } else { KindSpec::Xid(1, SRC_ASN, ra.e0, 0) }
    } else {
        let (asn, i, o) = ra.transit[rng.below(ra.transit.len() as u64) as usize];
        if rng.chance(2, 3) { KindSpec::Icd(1, asn as u64, i, o, rng.below(2) as u8) } else { KindSpec::Xid(1, asn as u64, o, rng.below(2) as u8) }
    };
    let (sim, _) = similar_report(rng, &hit);
    let mut burst = vec![sim, hit.clone()];
    if rng.chance(1, 4) {
        burst.swap(0, 1);
    }
    if rng.chance(1, 3) {
        let (third, _) = similar_report(rng, &hit);
        burst.insert(rng.below(3) as usize, third);
    }
    let mut cur = t0 + 2 * NS;
    for (i, k) in burst.into_iter().enumerate() {
        if i > 0 {
            cur += *rng.pick(&[0u64, 1, NS, 2 * NS, 2 * NS, 5 * NS, 9_999_999_999, 10 * NS, 11 * NS]);
        }
        h.ops.push(OpSpec::Report { kind: k, ts: cur });
        if rng.chance(1, 3) {
            h.ops.push(OpSpec::Deliver { now: cur });
        }
    }
    h.ops.push(OpSpec::Deliver { now: cur });
    h.ops.push(OpSpec::Send { now: cur });
    if rng.chance(1, 2) {
        // the pair is looked up again while the reports are fresh: every route comes back
        cur += *rng.pick(&[1u64, 5, 12]) * NS;
        h.ops.push(OpSpec::Maintain { now: cur, resp: RespSpec::Ok(answer) });
        h.ops.push(OpSpec::Send { now: cur + NS });
    }
    h
}

/// C06 stream "failover to a spare path": the pair is in use on path A; a (re)lookup caches A again together with
/// spare paths that expire earlier than A, at random distances; a failure on A moves the traffic to a spare path;
/// the worker ticks when the documented rule says the next lookup is due (earliest expiry of any cached path minus
/// min_expiry_threshold, within [min_refetch_delay, refetch_interval] of the lookup - computed here from the
/// configuration and the answer, NOT read from the implementation's timer) and gets fresh paths; the sender asks
/// shortly before and after the spare paths' expiry.
fn gen_failover_spare(rng: &mut Rng) -> Hist {
    let routes = gen_routes(rng);
    let mut cfg = base_cfg();
    cfg.refetch_interval_ms = *rng.pick(&[100_000u64, 100_000, 1_800_000]);
    cfg.min_expiry_threshold_ms = *rng.pick(&[5_000u64, 5_000, 60_000]);
    cfg.threshold = *rng.pick(&[0.5f32, 0.3, 0.1]);
    cfg.max_cached = *rng.pick(&[5usize, 50, 50]);
    let (ri, thr, mrd) = (cfg.refetch_interval_ms * 1_000_000, cfg.min_expiry_threshold_ms * 1_000_000, cfg.min_refetch_delay_ms * 1_000_000);
    let t0 = 1_000_000 * NS;
    let far = |t: u64| (t / NS + 20_000) as u32;
    let all = |exp: u32| -> Vec<PSpec> { (0..routes.len()).map(|i| PSpec { route: i, expiry: exp, meta: 0 }).collect() };
    let mut h = Hist { kind: "failover-spare".into(), cfg, pol: PolSpec::None, more: vec![], routes: routes.clone(), t0, ops: vec![OpSpec::Maintain { now: t0, resp: RespSpec::Ok(all(far(t0))) }, OpSpec::Send { now: t0 + NS }] };
    let a = dry_active_route(&h).unwrap_or(0);
    // second lookup, one refetch interval later: A stays valid for hours, the other routes come back with less lifetime
    let t1 = t0 + ri;
    let mut answer = vec![];
    let mut min_exp = far(t1) as u64;
    for i in 0..routes.len() {
        let exp = if i == a || rng.chance(1, 4) { far(t1) } else { (t1 / NS + thr / NS + rng.range(10, (ri / NS).min(600))) as u32 };
        min_exp = min_exp.min(exp as u64);
        answer.push(PSpec { route: i, expiry: exp, meta: 0 });
    }
    rng.shuffle(&mut answer);
    h.ops.push(OpSpec::Maintain { now: t1, resp: RespSpec::Ok(answer) });
    h.ops.push(OpSpec::Send { now: t1 + NS });
    // a failure on the path in use
    let ra = routes[a].clone();
    let hit = if ra.transit.is_empty() || rng.chance(1, 4) {
        if rng.chance(1, 2) { KindSpec::Fhu(1, SRC_ASN, ra.e0) } else { KindSpec::Xid(1, SRC_ASN, ra.e0, 0) }
    } else {
        let (asn, i, o) = ra.transit[rng.below(ra.transit.len() as u64) as usize];
        if rng.chance(1, 2) { KindSpec::Icd(1, asn as u64, i, o, 0) } else { KindSpec::Xid(1, asn as u64, o, 0) }
    };
    h.ops.push(OpSpec::Report { kind: hit, ts: t1 + 2 * NS });
    h.ops.push(OpSpec::Deliver { now: t1 + 2 * NS });
    h.ops.push(OpSpec::Send { now: t1 + 3 * NS });
    // the documented due time of the next lookup
    let due = (t1 + ri).min((min_exp * NS).saturating_sub(thr)).max(t1 + mrd);
    h.ops.push(OpSpec::Maintain { now: due, resp: RespSpec::Ok(all(far(due))) });
    let mut sends: Vec<u64> = vec![due + NS, (min_exp * NS).saturating_sub(NS), min_exp * NS, min_exp * NS + NS, min_exp * NS + 30 * NS];
    sends.retain(|t| *t > due && *t < due + ri.min(90 * NS));
    sends.sort();
    for t in sends {
        h.ops.push(OpSpec::Send { now: t });
    }
    h
}

// ---- deterministic probes (each known finding / fixed defect is replayed on every run) -------------

fn base_cfg() -> CfgSpec {
    CfgSpec {
        max_cached: 5,
        refetch_interval_ms: 100_000,
        min_refetch_delay_ms: 1_000,
        min_expiry_threshold_ms: 5_000,
        max_idle_ms: 10_000_000,
        backoff: (1.0, 10.0, 2.0, 0.0),
        issue_cache: 64,
        issue_broadcast: 64,
        dedup_ms: 10_000,
        threshold: 0.5,
    }
}
fn two_routes() -> Vec<Route> {
    vec![
        Route { e0: 1, transit: vec![(0x301, 1, 4)], last_in: 1 },
        Route { e0: 2, transit: vec![(0x302, 2, 5)], last_in: 2 },
        Route { e0: 1, transit: vec![(0x303, 3, 6), (0x304, 1, 4)], last_in: 1 },
    ]
}

fn probes(prop: &str) -> Vec<Hist> {
    let t0 = 1_000_000 * NS;
    let s = |x: u64| t0 + x * NS;
    let far = 1_000_000 + 10_000;
    let mut v = vec![];
    if prop == "C06" {
        // active path outlives its expiry: refetch fails with a backoff longer than the remaining lifetime
        let mut c = base_cfg();
        c.backoff = (60.0, 300.0, 1.5, 0.0);
        v.push(Hist {
            kind: "probe-expired-active".into(),
            cfg: c,
            pol: PolSpec::None,
            more: vec![],
            routes: two_routes(),
            t0,
            ops: vec![
                OpSpec::Maintain { now: s(0), resp: RespSpec::Ok(vec![PSpec { route: 0, expiry: 1_000_000 + 30, meta: 0 }]) },
                OpSpec::Send { now: s(1) },
                OpSpec::Maintain { now: s(24), resp: RespSpec::ErrOther },
                OpSpec::Send { now: s(29) },
                OpSpec::Send { now: s(30) },
                OpSpec::Send { now: s(31) },
                OpSpec::Send { now: s(60) },
            ],
        });
        // a repeating issue (outside the dedup window) leaves stale FIFO entries; cache exceeds its size
        let mut c = base_cfg();
        c.issue_cache = 2;
        let a = KindSpec::Xid(1, 0x301, 4, 0);
        v.push(Hist {
            kind: "probe-issue-fifo".into(),
            cfg: c,
            pol: PolSpec::None,
            more: vec![],
            routes: two_routes(),
            t0,
            ops: vec![
                OpSpec::Maintain { now: s(0), resp: RespSpec::Ok(vec![PSpec { route: 0, expiry: far, meta: 0 }]) },
                OpSpec::Report { kind: a.clone(), ts: s(0) },
                OpSpec::Report { kind: a.clone(), ts: s(20) },
                OpSpec::Report { kind: KindSpec::Xid(1, 0x302, 5, 0), ts: s(21) },
                OpSpec::Report { kind: KindSpec::Xid(1, 0x303, 6, 0), ts: s(22) },
                OpSpec::Report { kind: a.clone(), ts: s(40) },
                OpSpec::Report { kind: a.clone(), ts: s(60) },
                OpSpec::Report { kind: a, ts: s(80) },
                OpSpec::Deliver { now: s(80) },
            ],
        });
        // between ticks: the (short, best ranked) active path expires during the backoff after a failed fetch while
        // the other cached path stays valid for hours
        let mut c = base_cfg();
        c.backoff = (60.0, 300.0, 1.5, 0.0);
        c.refetch_interval_ms = 10_000;
        let mut rs = two_routes();
        rs.insert(0, Route { e0: 3, transit: vec![], last_in: 2 });
        v.push(Hist {
            kind: "probe-active-expires-between-ticks".into(),
            cfg: c,
            pol: PolSpec::None,
            more: vec![],
            routes: rs,
            t0,
            ops: vec![
                OpSpec::Maintain { now: s(0), resp: RespSpec::Ok(vec![PSpec { route: 0, expiry: 1_000_000 + 100, meta: 0 }, PSpec { route: 1, expiry: far, meta: 0 }]) },
                OpSpec::Send { now: s(1) },
                OpSpec::Maintain { now: s(10), resp: RespSpec::ErrOther },
                OpSpec::Maintain { now: s(70), resp: RespSpec::ErrOther },
                OpSpec::Send { now: s(99) },
                OpSpec::Send { now: s(101) },
                OpSpec::Send { now: s(159) },
                OpSpec::Maintain { now: s(160), resp: RespSpec::ErrOther },
                OpSpec::Send { now: s(161) },
            ],
        });
        // the only fetched path is closer to its expiry than min_expiry_threshold (5 s) but lives for another 3 s
        v.push(Hist {
            kind: "probe-only-near-expiry-paths".into(),
            cfg: base_cfg(),
            pol: PolSpec::None,
            more: vec![],
            routes: two_routes(),
            t0,
            ops: vec![
                OpSpec::Maintain { now: s(0), resp: RespSpec::Ok(vec![PSpec { route: 0, expiry: 1_000_000 + 4, meta: 0 }]) },
                OpSpec::Send { now: s(1) },
            ],
        });
        // failover to a cached spare path that expires earlier than the path that was active when the pair was last
        // looked up: the lookup at t+100 s caches A (route 0, active, valid for hours) and the refreshed spare B (route 1,
        // expiring at t+160 s), so the next lookup is due at t+155 s; a failure on A moves the traffic to B; the worker
        // ticks at t+155 s and the sender asks again at t+161 s
        for (what, k, thr) in [("interface-down", KindSpec::Xid(1, 0x301, 4, 0), 0.5f32), ("connectivity-down", KindSpec::Icd(1, 0x301, 1, 4, 0), 0.5), ("send-failure", KindSpec::Fhu(1, SRC_ASN, 1), 0.3)] {
            let mut c = base_cfg();
            c.threshold = thr;
            let fresh = vec![PSpec { route: 0, expiry: far + 200, meta: 0 }, PSpec { route: 1, expiry: far + 200, meta: 0 }];
            v.push(Hist {
                kind: format!("probe-failover-to-earlier-expiring-spare-{what}"),
                cfg: c,
                pol: PolSpec::None,
                more: vec![],
                routes: two_routes(),
                t0,
                ops: vec![
                    OpSpec::Maintain { now: s(0), resp: RespSpec::Ok(vec![PSpec { route: 0, expiry: far, meta: 0 }, PSpec { route: 1, expiry: far, meta: 0 }]) },
                    OpSpec::Send { now: s(1) },
                    OpSpec::Maintain { now: s(100), resp: RespSpec::Ok(vec![PSpec { route: 0, expiry: far, meta: 0 }, PSpec { route: 1, expiry: 1_000_000 + 160, meta: 0 }]) },
                    OpSpec::Send { now: s(101) },
                    OpSpec::Report { kind: k, ts: s(102) },
                    OpSpec::Deliver { now: s(102) },
                    OpSpec::Send { now: s(103) },
                    OpSpec::Maintain { now: s(155), resp: RespSpec::Ok(fresh.clone()) },
                    OpSpec::Send { now: s(156) },
                    OpSpec::Send { now: s(161) },
                    OpSpec::Send { now: s(190) },
                    OpSpec::Maintain { now: s(255), resp: RespSpec::Ok(fresh) },
                    OpSpec::Send { now: s(256) },
                ],
            });
        }
        // max_cached_paths_per_pair = 0 is accepted by the validator
        let mut c = base_cfg();
        c.max_cached = 0;
        v.push(Hist {
            kind: "probe-max-cached-zero".into(),
            cfg: c,
            pol: PolSpec::None,
            more: vec![],
            routes: two_routes(),
            t0,
            ops: vec![OpSpec::Maintain { now: s(0), resp: RespSpec::Ok(vec![PSpec { route: 0, expiry: far, meta: 0 }]) }, OpSpec::Send { now: s(1) }],
        });
        // the fetcher answers twice with one path that is already expired
        v.push(Hist {
            kind: "probe-only-expired-paths".into(),
            cfg: base_cfg(),
            pol: PolSpec::None,
            more: vec![],
            routes: two_routes(),
            t0,
            ops: vec![
                OpSpec::Maintain { now: s(0), resp: RespSpec::Ok(vec![PSpec { route: 0, expiry: 1_000_000 - 1, meta: 0 }]) },
                OpSpec::Maintain { now: s(1), resp: RespSpec::Ok(vec![PSpec { route: 0, expiry: 1_000_000 - 1, meta: 0 }]) },
                OpSpec::Send { now: s(2) },
            ],
        });
    }
    if prop == "C07" {
        // both paths share the failed first hop's penalty class: the alternative carries its own fresh penalty
        v.push(Hist {
            kind: "probe-alternative-penalised".into(),
            cfg: base_cfg(),
            pol: PolSpec::None,
            more: vec![],
            routes: two_routes(),
            t0,
            ops: vec![
                OpSpec::Maintain { now: s(0), resp: RespSpec::Ok(vec![PSpec { route: 0, expiry: far, meta: 0 }, PSpec { route: 1, expiry: far, meta: 0 }]) },
                OpSpec::Send { now: s(1) },
                OpSpec::Report { kind: KindSpec::Xid(1, 0x302, 5, 0), ts: s(2) },
                OpSpec::Deliver { now: s(2) },
                OpSpec::Report { kind: KindSpec::Xid(1, 0x301, 4, 0), ts: s(3) },
                OpSpec::Deliver { now: s(3) },
                OpSpec::Send { now: s(3) },
            ],
        });
        // plain failover and recovery: failure on route 0, switch to route 1; later failure on route 1, back to route 0
        for (pos, k0) in [("first-hop", KindSpec::Fhu(1, SRC_ASN, 1)), ("transit", KindSpec::Xid(1, 0x301, 4, 0)), ("transit-pair", KindSpec::Icd(1, 0x301, 1, 4, 0))] {
            for el in [0u64, 45, 90, 180, 900, 2400] {
                let mut c = base_cfg();
                // the documented first-hop penalty (0.4) cannot exceed the default threshold 0.5 (known finding, see the
                // probe below): the first-hop failover probes run with 0.3, the link-failure ones with the default
                c.threshold = if pos == "first-hop" { 0.3 } else { 0.5 };
                c.refetch_interval_ms = 10_000_000;
                v.push(Hist {
                    kind: format!("probe-failover-{pos}-{el}s"),
                    cfg: c,
                    pol: PolSpec::None,
                    more: vec![],
                    routes: two_routes(),
                    t0,
                    ops: vec![
                        OpSpec::Maintain { now: s(0), resp: RespSpec::Ok(vec![PSpec { route: 0, expiry: far, meta: 0 }, PSpec { route: 1, expiry: far, meta: 0 }]) },
                        OpSpec::Send { now: s(1) },
                        OpSpec::Report { kind: k0.clone(), ts: s(2) },
                        OpSpec::Deliver { now: s(2) },
                        OpSpec::Send { now: s(2) },
                        OpSpec::Report { kind: KindSpec::Xid(1, 0x302, 5, 0), ts: s(2 + el) },
                        OpSpec::Deliver { now: s(2 + el) },
                        OpSpec::Send { now: s(2 + el) },
                    ],
                });
            }
        }
    }
    if prop == "C07" {
        // default configuration: one first-hop send failure on the active path, unpenalised alternative via another interface
        let mut c = default_cfg();
        c.issue_broadcast = 64;
        v.push(Hist {
            kind: "probe-first-hop-default-config".into(),
            cfg: c,
            pol: PolSpec::None,
            more: vec![],
            routes: two_routes(),
            t0,
            ops: vec![
                OpSpec::Maintain { now: s(0), resp: RespSpec::Ok(vec![PSpec { route: 0, expiry: far, meta: 0 }, PSpec { route: 1, expiry: far, meta: 0 }]) },
                OpSpec::Send { now: s(1) },
                OpSpec::Report { kind: KindSpec::Fhu(1, SRC_ASN, 1), ts: s(2) },
                OpSpec::Deliver { now: s(2) },
                OpSpec::Send { now: s(2) },
            ],
        });
        // a burst handled by one worker wake-up: the first queued report hits only a non-active path, the second one the
        // active path; the re-evaluation must look at the whole batch
        let mut rs = two_routes();
        rs.insert(0, Route { e0: 3, transit: vec![], last_in: 2 });
        v.push(Hist {
            kind: "probe-burst-unrelated-first".into(),
            cfg: base_cfg(),
            pol: PolSpec::None,
            more: vec![],
            routes: rs,
            t0,
            ops: vec![
                OpSpec::Maintain { now: s(0), resp: RespSpec::Ok(vec![PSpec { route: 0, expiry: far, meta: 0 }, PSpec { route: 1, expiry: far, meta: 0 }, PSpec { route: 2, expiry: far, meta: 0 }]) },
                OpSpec::Send { now: s(1) },
                OpSpec::Report { kind: KindSpec::Xid(1, 0x302, 5, 0), ts: s(2) },
                OpSpec::Report { kind: KindSpec::Xid(1, SRC_ASN, 3, 0), ts: s(2) },
                OpSpec::Deliver { now: s(2) },
                OpSpec::Send { now: s(2) },
            ],
        });
        // a failure that is reported again after the deduplication window is fresh again: a path over the failed
        // interface that is fetched after the re-report must come in penalised, whatever the age of the first report.
        // Route 0 (3 hop fields, via 1-301) is one hop field shorter than the clean route 3 (via 1-302 and 1-304).
        let mut rs = two_routes();
        rs.push(Route { e0: 2, transit: vec![(0x302, 2, 5), (0x304, 2, 4)], last_in: 2 });
        for (pos, k0) in [("first-hop", KindSpec::Fhu(1, SRC_ASN, 1)), ("transit", KindSpec::Xid(1, 0x301, 4, 0)), ("transit-pair", KindSpec::Icd(1, 0x301, 1, 4, 0))] {
            // one report, long decayed when the pair is first fetched: the shorter path over the interface is eligible again
            v.push(Hist {
                kind: format!("probe-report-{pos}-decayed-then-first-fetch"),
                cfg: base_cfg(),
                pol: PolSpec::None,
                more: vec![],
                routes: rs.clone(),
                t0,
                ops: vec![
                    OpSpec::Report { kind: k0.clone(), ts: s(0) },
                    OpSpec::Maintain { now: s(900), resp: RespSpec::Ok(vec![PSpec { route: 0, expiry: far, meta: 0 }, PSpec { route: 3, expiry: far, meta: 0 }]) },
                    OpSpec::Send { now: s(901) },
                ],
            });
            for (first, gap) in [(0u64, 300u64), (0, 11), (0, 1800), (250, 50)] {
                let mut c = base_cfg();
                c.refetch_interval_ms = 10_000;
                let second = first + gap;
                // first fetch of the pair after the re-report: the first activation must pick the clean path
                v.push(Hist {
                    kind: format!("probe-rereport-{pos}-{gap}s-then-first-fetch"),
                    cfg: c.clone(),
                    pol: PolSpec::None,
                    more: vec![],
                    routes: rs.clone(),
                    t0,
                    ops: vec![
                        OpSpec::Report { kind: k0.clone(), ts: s(first) },
                        OpSpec::Report { kind: k0.clone(), ts: s(second) },
                        OpSpec::Maintain { now: s(second + 5), resp: RespSpec::Ok(vec![PSpec { route: 0, expiry: far, meta: 0 }, PSpec { route: 3, expiry: far, meta: 0 }]) },
                        OpSpec::Send { now: s(second + 6) },
                    ],
                });
                // a running flow on route 1 whose path is about to expire: the refetch after the re-report offers the
                // path over the failed interface and the clean, longer one
                let exp1 = 1_000_000 + (second + 8) as u32;
                v.push(Hist {
                    kind: format!("probe-rereport-{pos}-{gap}s-running-flow"),
                    cfg: c,
                    pol: PolSpec::None,
                    more: vec![],
                    routes: rs.clone(),
                    t0,
                    ops: vec![
                        OpSpec::Maintain { now: s(0), resp: RespSpec::Ok(vec![PSpec { route: 1, expiry: exp1, meta: 0 }]) },
                        OpSpec::Send { now: s(0) },
                        OpSpec::Report { kind: k0.clone(), ts: s(first) },
                        OpSpec::Deliver { now: s(first) },
                        OpSpec::Report { kind: k0.clone(), ts: s(second) },
                        OpSpec::Deliver { now: s(second) },
                        OpSpec::Maintain { now: s(second + 5), resp: RespSpec::Ok(vec![PSpec { route: 0, expiry: far, meta: 0 }, PSpec { route: 3, expiry: far, meta: 0 }]) },
                        OpSpec::Send { now: s(second + 6) },
                    ],
                });
            }
        }
        // bursts of similar reports inside the deduplication window: the first report resembles the second one but is
        // about another failure (it matches no path in use); the second one, 2 s later, is about the transit hop
        // 1-301 1>4 (or the first hop 1-110#1) of the active path and has to act like a first report
        let mut rs3 = two_routes();
        rs3.push(Route { e0: 2, transit: vec![(0x302, 2, 5), (0x304, 2, 4)], last_in: 2 });
        let icd = KindSpec::Icd(1, 0x301, 1, 4, 0);
        for (what, k1, k2) in [
            ("other-ingress", KindSpec::Icd(1, 0x301, 3, 4, 0), icd.clone()),
            ("other-ingress-same-quote", KindSpec::Icd(1, 0x301, 3, 4, 1), KindSpec::Icd(1, 0x301, 1, 4, 1)),
            ("other-egress", KindSpec::Icd(1, 0x301, 1, 6, 0), icd.clone()),
            ("other-as", KindSpec::Icd(1, 0x305, 1, 4, 0), icd.clone()),
            ("swapped", KindSpec::Icd(1, 0x301, 4, 1, 0), icd.clone()),
            ("connectivity-then-interface-down", KindSpec::Icd(1, 0x301, 3, 4, 0), KindSpec::Xid(1, 0x301, 4, 0)),
            ("interface-then-connectivity-down", KindSpec::Xid(1, 0x301, 1, 0), icd.clone()),
            ("interface-down-other-egress", KindSpec::Xid(1, 0x301, 6, 0), KindSpec::Xid(1, 0x301, 4, 0)),
            ("interface-down-other-as", KindSpec::Xid(1, 0x302, 4, 0), KindSpec::Xid(1, 0x301, 4, 0)),
            ("first-hop-other-interface", KindSpec::Xid(1, SRC_ASN, 3, 0), KindSpec::Xid(1, SRC_ASN, 1, 0)),
            ("send-failure-then-interface-down", KindSpec::Fhu(1, SRC_ASN, 1), KindSpec::Xid(1, SRC_ASN, 1, 0)),
        ] {
            // the pair is in use: the very next send after the second report must avoid the interface
            v.push(Hist {
                kind: format!("probe-similar-reports-{what}"),
                cfg: base_cfg(),
                pol: PolSpec::None,
                more: vec![],
                routes: two_routes(),
                t0,
                ops: vec![
                    OpSpec::Maintain { now: s(0), resp: RespSpec::Ok(vec![PSpec { route: 0, expiry: far, meta: 0 }, PSpec { route: 1, expiry: far, meta: 0 }]) },
                    OpSpec::Send { now: s(1) },
                    OpSpec::Report { kind: k1.clone(), ts: s(2) },
                    OpSpec::Report { kind: k2.clone(), ts: s(4) },
                    OpSpec::Deliver { now: s(4) },
                    OpSpec::Send { now: s(4) },
                ],
            });
            // the pair is first looked up after the two reports: the second report must have been kept for the paths
            // fetched later (route 0 over the failed interface is one hop field shorter than the clean route 3)
            v.push(Hist {
                kind: format!("probe-similar-reports-{what}-then-first-fetch"),
                cfg: base_cfg(),
                pol: PolSpec::None,
                more: vec![],
                routes: rs3.clone(),
                t0,
                ops: vec![
                    OpSpec::Report { kind: k1, ts: s(0) },
                    OpSpec::Report { kind: k2, ts: s(2) },
                    OpSpec::Maintain { now: s(5), resp: RespSpec::Ok(vec![PSpec { route: 0, expiry: far, meta: 0 }, PSpec { route: 3, expiry: far, meta: 0 }]) },
                    OpSpec::Send { now: s(6) },
                ],
            });
        }
        // the same through the socket: UdpScionSocket::send_to -> report_send_error -> worker -> next send_to
        v.push(wiring_hist("wiring-default-config", default_cfg(), two_routes(), vec![0, 1]));
        let mut c = default_cfg();
        c.threshold = 0.3;
        v.push(wiring_hist("wiring-threshold-0.3", c, two_routes(), vec![0, 1]));
        v.push(wiring_hist("wiring-single-path", default_cfg(), two_routes(), vec![0]));
    }
    if prop == "C05" {
        // policy admits nothing
        v.push(Hist {
            kind: "probe-policy-admits-nothing".into(),
            cfg: base_cfg(),
            pol: PolSpec::Mask(0),
            more: vec![],
            routes: two_routes(),
            t0,
            ops: vec![
                OpSpec::Send { now: s(0) },
                OpSpec::Maintain { now: s(0), resp: RespSpec::Ok(vec![PSpec { route: 0, expiry: far, meta: 0 }, PSpec { route: 1, expiry: far, meta: 0 }]) },
                OpSpec::Send { now: s(1) },
            ],
        });
        // a refetch returns the cached paths again, now without (interface) metadata: the copies must not replace the
        // policy-checked ones
        let mut c = base_cfg();
        c.refetch_interval_ms = 100_000;
        for pol in [PolSpec::Acl("+".into()), PolSpec::Pattern("0*".into())] {
            v.push(Hist {
                kind: "probe-refetch-loses-metadata".into(),
                cfg: c.clone(),
                pol,
                more: vec![],
                routes: two_routes(),
                t0,
                ops: vec![
                    OpSpec::Maintain { now: s(0), resp: RespSpec::Ok(vec![PSpec { route: 0, expiry: far, meta: 0 }, PSpec { route: 1, expiry: far, meta: 0 }]) },
                    OpSpec::Send { now: s(1) },
                    OpSpec::Maintain { now: s(100), resp: RespSpec::Ok(vec![PSpec { route: 0, expiry: far + 50, meta: 1 }, PSpec { route: 1, expiry: far + 50, meta: 2 }]) },
                    OpSpec::Send { now: s(101) },
                ],
            });
        }
        // several attached policies: every one of them binds, whatever its position in the list.  Route 0 transits
        // 1-301, route 1 transits 1-302, route 2 transits 1-303 and 1-304; the rejecting policy is tried first,
        // in the middle and last, the other ones accept everything offered
        let deny301 = PolSpec::Acl(format!("- 1-{}, +", 0x301));
        let any = || vec![PolSpec::Acl("+".into()), PolSpec::Pattern("0*".into()), PolSpec::Mask(0xffff_ffff)];
        let mut chains: Vec<(String, Vec<PolSpec>)> = vec![];
        for n in 2..=3usize {
            for pos in 0..n {
                let mut c: Vec<PolSpec> = any().into_iter().take(n).collect();
                c[pos] = deny301.clone();
                chains.push((format!("probe-policy-chain-{n}-reject-at-{}", pos + 1), c));
            }
        }
        chains.push(("probe-policy-chain-mask-then-pattern".into(), vec![PolSpec::Mask(0b110), PolSpec::Pattern("0*".into())]));
        chains.push(("probe-policy-chain-pattern-then-acl".into(), vec![PolSpec::Pattern(format!("0* 1-{} 0*", 0x302)), PolSpec::Acl(format!("- 1-{}, +", 0x303)), PolSpec::Mask(0b111)]));
        for (kind, chain) in chains {
            for only_rejected in [false, true] {
                // `only_rejected`: the lookup returns nothing but the path the chain rejects - the caller must get an error
                let answer = if only_rejected { vec![PSpec { route: 0, expiry: far, meta: 0 }] } else { vec![PSpec { route: 0, expiry: far, meta: 0 }, PSpec { route: 1, expiry: far, meta: 0 }, PSpec { route: 2, expiry: far, meta: 0 }] };
                v.push(Hist {
                    kind: format!("{kind}{}", if only_rejected { "-only-rejected" } else { "" }),
                    cfg: base_cfg(),
                    pol: chain[0].clone(),
                    more: chain[1..].to_vec(),
                    routes: two_routes(),
                    t0,
                    ops: vec![
                        OpSpec::Maintain { now: s(0), resp: RespSpec::Ok(answer.clone()) },
                        OpSpec::Send { now: s(1) },
                        // the shortest allowed path fails: the switch must stay inside the allowed set
                        OpSpec::Report { kind: KindSpec::Xid(1, 0x302, 5, 0), ts: s(2) },
                        OpSpec::Deliver { now: s(2) },
                        OpSpec::Send { now: s(2) },
                        OpSpec::Maintain { now: s(100), resp: RespSpec::Ok(answer) },
                        OpSpec::Send { now: s(101) },
                    ],
                });
            }
        }
        // metadata present, but no hop sequence can be read from the interface list: every hop-based policy has to
        // reject the path - also an ACL whose default is allow (alone, behind a deny entry for a transit AS of the path,
        // behind a deny entry for the destination) and hop patterns that match the empty sequence.  First the lookup
        // returns nothing else (the caller must get an error), then a readable path of another route comes with it.
        for (mk, shape) in [(3u8, "empty"), (4, "single"), (5, "odd"), (6, "split-as")] {
            for (pn, pol) in [
                ("acl-allow", PolSpec::Acl("+".into())),
                ("acl-deny-transit", PolSpec::Acl(format!("- 1-{}, +", 0x301))),
                ("acl-deny-destination", PolSpec::Acl(format!("- 2-{}, +", DST_ASN))),
                ("pattern-any", PolSpec::Pattern("0*".into())),
            ] {
                v.push(Hist {
                    kind: format!("probe-unreadable-hops-{shape}-{pn}"),
                    cfg: base_cfg(),
                    pol,
                    more: vec![],
                    routes: two_routes(),
                    t0,
                    ops: vec![
                        OpSpec::Maintain { now: s(0), resp: RespSpec::Ok(vec![PSpec { route: 0, expiry: far, meta: mk }, PSpec { route: 2, expiry: far, meta: mk }]) },
                        OpSpec::Send { now: s(1) },
                        OpSpec::Maintain { now: s(20), resp: RespSpec::Ok(vec![PSpec { route: 0, expiry: far, meta: mk }, PSpec { route: 1, expiry: far, meta: 0 }]) },
                        OpSpec::Send { now: s(21) },
                        // the readable copy of route 0 is cached, the next lookup brings it back unreadable
                        OpSpec::Maintain { now: s(121), resp: RespSpec::Ok(vec![PSpec { route: 0, expiry: far, meta: 0 }, PSpec { route: 1, expiry: far, meta: 0 }]) },
                        OpSpec::Send { now: s(122) },
                        OpSpec::Maintain { now: s(222), resp: RespSpec::Ok(vec![PSpec { route: 0, expiry: far + 50, meta: mk }, PSpec { route: 1, expiry: far + 50, meta: mk }]) },
                        OpSpec::Send { now: s(223) },
                    ],
                });
            }
        }
        // hop policy and paths without metadata
        v.push(Hist {
            kind: "probe-no-metadata".into(),
            cfg: base_cfg(),
            pol: PolSpec::Acl("+".into()),
            more: vec![],
            routes: two_routes(),
            t0,
            ops: vec![
                OpSpec::Maintain { now: s(0), resp: RespSpec::Ok(vec![PSpec { route: 0, expiry: far, meta: 1 }, PSpec { route: 1, expiry: far, meta: 2 }]) },
                OpSpec::Send { now: s(1) },
                OpSpec::Maintain { now: s(2), resp: RespSpec::Ok(vec![PSpec { route: 0, expiry: far, meta: 1 }, PSpec { route: 2, expiry: far, meta: 0 }]) },
                OpSpec::Send { now: s(3) },
            ],
        });
    }
    v
}

// ---- matches_path: real code vs model vs independent hop-level spec ---------------------------------

/// independent spec: the interface (pair) occurs on the path at the stated AS
fn spec_matches(k: &KindSpec, p: &ScionPath) -> Option<bool> {
    let hops = PathPolicyHop::hops_from_path(p).ok()?;
    Some(match k {
        KindSpec::Xid(isd, asn, e, _) => {
            let ia = IsdAsn::new(Isd(*isd), Asn(*asn));
            hops.iter().any(|h| h.isd_asn == ia && h.egress == *e && *e != 0)
        }
        KindSpec::Icd(isd, asn, g, e, _) => {
            let ia = IsdAsn::new(Isd(*isd), Asn(*asn));
            hops.iter().any(|h| h.isd_asn == ia && h.egress == *e && h.ingress == *g && *e != 0 && *g != 0)
        }
        KindSpec::Fhu(isd, asn, e) => {
            let ia = IsdAsn::new(Isd(*isd), Asn(*asn));
            hops.first().map(|h| h.isd_asn == ia && h.egress == *e).unwrap_or(false)
        }
        KindSpec::Ptb => return None,
    })
}

fn match_cases(rng: &mut Rng, lean: &mut Lean, rep: &mut Report, n: usize) {
    for _ in 0..n {
        let routes = gen_routes(rng);
        let r = rng.pick(&routes).clone();
        let meta = if rng.chance(1, 8) { 1 + rng.below(2) as u8 } else { 0 };
        let p = build_path(&r, &PSpec { route: 0, expiry: 2_000_000, meta });
        let k = gen_kind(rng, &routes, &[]);
        if matches!(k, KindSpec::Ptb) {
            continue;
        }
        let real = kind_matches(&k, &p);
        let tgt = match &k {
            KindSpec::Xid(isd, asn, e, _) => format!("if {} n {}", IsdAsn::new(Isd(*isd), Asn(*asn)).to_u64(), e),
            KindSpec::Icd(isd, asn, g, e, _) => format!("if {} {} {}", IsdAsn::new(Isd(*isd), Asn(*asn)).to_u64(), g, e),
            KindSpec::Fhu(isd, asn, e) => format!("fh {} {}", IsdAsn::new(Isd(*isd), Asn(*asn)).to_u64(), e),
            KindSpec::Ptb => unreachable!(),
        };
        let tok = path_token(&p, &[]);
        let mo = lean.ask(&format!("matches {tgt} {tok}"));
        let io = if real { "true" } else { "false" };
        rep.case(&format!("match|{tgt}|{tok}"), real);
        rep.hit(&format!("matches_path {} {}", tgt.split(' ').next().unwrap(), io));
        if lean.differs(&mo, io) {
            rep.disagree("matches_path", json!({"target": tgt, "path": tok}), io, &mo);
        }
        // hop-level spec (only meaningful with interface metadata; first-hop targets use the data-plane path)
        if meta == 0 {
            if let Some(s) = spec_matches(&k, &p) {
                if s != real {
                    rep.spec_fail("C07:matches-path", &format!("matches_path = {real} but the interface {} on the path: {tgt}", if s { "is" } else { "is not" }), json!({"target": tgt, "path": tok}));
                }
            }
        } else if !matches!(k, KindSpec::Fhu(..)) && real {
            rep.spec_fail("C07:matches-path", "an interface target matched a path without interface metadata", json!({"target": tgt, "path": tok}));
        }
        // hops_from_path correspondence
        let hm = lean.ask(&format!("hops {tok}"));
        let hi = match PathPolicyHop::hops_from_path(&p) {
            Ok(h) => h.iter().map(|x| format!("{}.{}.{}", x.isd_asn.to_u64(), x.ingress, x.egress)).collect::<Vec<_>>().join(","),
            Err(_) => "none".into(),
        };
        if lean.differs(&hm, &hi) {
            rep.disagree("hops_from_path", json!({"path": tok}), &hi, &hm);
        }
    }
}

// ---- socket wiring: UdpScionSocket::send_to over a manager-chosen path (real worker task, real clock) ----------

#[derive(Clone)]
struct ConstFetcher(Arc<Vec<ScionPath>>, Arc<Mutex<bool>>);
impl PathFetcher for ConstFetcher {
    async fn fetch_paths(&self, src: IsdAsn, dst: IsdAsn) -> Result<Vec<ScionPath>, PathFetchError> {
        if src != src_ia() || dst != dst_ia() {
            *self.1.lock().unwrap() = true;
        }
        Ok((*self.0).clone())
    }
}

/// A wiring case is a `Hist` of kind `wiring…`: the first op is the fetch answer (expiries are replaced by
/// real time + 1 h).  Script: send (ok) → the first hop of the path just used goes down → send (fails) →
/// the manager must have been told → the worker re-ranks → the next send must avoid the failed first hop
/// whenever a valid cached alternative does and the documented first-hop penalty exceeds the threshold.
fn run_wiring(h: &Hist) -> Outcome {
    let mut out = Outcome::default();
    let rt = tokio::runtime::Builder::new_current_thread().enable_all().build().unwrap();
    let Some(OpSpec::Maintain { resp: RespSpec::Ok(ps), .. }) = h.ops.first() else { return out };
    let real_now = SystemTime::now().duration_since(SystemTime::UNIX_EPOCH).unwrap().as_secs() as u32;
    let paths: Vec<ScionPath> = ps.iter().filter(|p| p.route < h.routes.len()).map(|p| build_path(&h.routes[p.route], &PSpec { route: p.route, expiry: real_now + 3600, meta: p.meta })).collect();
    let vcfg = h.cfg.to_verif();
    if vcfg.validate().is_err() || paths.is_empty() {
        return out;
    }
    let thr = h.cfg.threshold as f64;
    let local = ScionSocketIpAddr::new(src_ia(), IpAddr::V4(Ipv4Addr::LOCALHOST), 40000);
    let remote = ScionSocketIpAddr::new(dst_ia(), IpAddr::V4(Ipv4Addr::new(127, 0, 0, 2)), 50000);
    let bad_pair = Arc::new(Mutex::new(false));
    let res = catch(|| {
        rt.block_on(async {
            let mut spec: Vec<(String, String)> = vec![];
            let mut labels: Vec<String> = vec![];
            let (sock, mgr, under) = match managed_udp_socket(local, vcfg.manager_config(), ConstFetcher(Arc::new(paths.clone()), bad_pair.clone()), vec![]) {
                Ok(x) => x,
                Err(e) => {
                    labels.push(format!("wiring: manager rejected the configuration: {e}"));
                    return (spec, labels, false);
                }
            };
            let tmo = Duration::from_secs(3);
            // 1. first send over the managed path
            match tokio::time::timeout(tmo, sock.send_to(b"verif", remote)).await {
                Ok(Ok(())) => {}
                other => {
                    labels.push(format!("wiring: first send did not succeed: {other:?}"));
                    return (spec, labels, false);
                }
            }
            let Some((e_a, true)) = under.attempts.lock().unwrap().last().copied() else { return (spec, labels, false) };
            let used = paths.iter().rev().find(|p| p.dp_path().first_egress_interface() == Some(e_a));
            // 2. that first hop becomes unreachable; the next send over the managed path fails locally
            under.down.lock().unwrap().insert(e_a);
            let r2 = tokio::time::timeout(tmo, sock.send_to(b"verif", remote)).await;
            let failed_locally = matches!(&r2, Ok(Err(ScionSocketSendError::UnderlayNextHopUnreachable { interface_id, .. })) if *interface_id == e_a);
            labels.push(format!("wiring: send over a managed path whose first hop is down -> {}", if failed_locally { "UnderlayNextHopUnreachable" } else { "other" }));
            if !failed_locally {
                return (spec, labels, false);
            }
            // 3. the stack must have learnt about it
            let reported = manager_issue_sizes(&*mgr).0 > 0;
            if !reported {
                spec.push(("C07:wiring:send-failure-not-reported".into(), format!("UdpScionSocket::send_to failed with UnderlayNextHopUnreachable on interface {e_a} of the path chosen by the path manager, but the path manager was never told (no issue recorded): the failure cannot steer traffic away")));
            }
            // 4. let the worker handle the notification, then send again
            for _ in 0..40 {
                tokio::time::sleep(Duration::from_millis(5)).await;
                let cur = mgr.cached_path(src_ia(), dst_ia(), SystemTime::now());
                if cur.as_ref().and_then(|p| p.dp_path().first_egress_interface()) != Some(e_a) {
                    break;
                }
            }
            let _ = tokio::time::timeout(tmo, sock.send_to(b"verif", remote)).await;
            let third = under.attempts.lock().unwrap().last().copied();
            let alts: Vec<&ScionPath> = paths.iter().filter(|p| p.dp_path().first_egress_interface() != Some(e_a)).collect();
            labels.push(format!("wiring: next send {}", match third { Some((e, _)) if e == e_a => "uses the failed first hop again", Some(_) => "avoids the failed first hop", None => "nothing sent" }));
            if let (Some((e3, _)), false, Some(used)) = (third, alts.is_empty(), used) {
                if e3 == e_a && reported {
                    let base_a = spec_base(used).unwrap_or(0.1);
                    let need = alts.iter().map(|q| thr + base_a - spec_base(q).unwrap_or(0.0)).fold(f64::MAX, f64::min);
                    if need < 0.4 - 2e-3 {
                        spec.push(("C07:steer-away:weak-penalty".into(), format!("socket level: the first-hop failure on interface {e_a} was reported, an unpenalised cached path avoids it and the documented penalty 0.4 exceeds the needed gap {need}, yet the next send_to used interface {e_a} again")));
                    } else if need < 1.0 - 2e-3 {
                        spec.push(("C07:steer-away:first-hop-penalty-below-threshold".into(), format!("socket level: send_to failed on first-hop interface {e_a}, an unpenalised cached path avoids it, but the very next send_to used interface {e_a} again (penalty 0.4 does not exceed path_swap_score_threshold {thr})")));
                    }
                }
            }
            drop(sock);
            drop(mgr);
            (spec, labels, true)
        })
    });
    match res {
        Ok((spec, labels, nontrivial)) => {
            out.spec = spec;
            out.labels = labels;
            out.nontrivial = nontrivial;
            out.ops_run = 3;
        }
        Err(m) => out.spec.push(("C06:panic:wiring".into(), format!("socket wiring scenario panicked: {m}"))),
    }
    if *bad_pair.lock().unwrap() {
        out.spec.push(("C05:fetch-pair".into(), "the fetcher was asked for another (src,dst) pair".into()));
    }
    out
}

fn wiring_hist(kind: &str, cfg: CfgSpec, routes: Vec<Route>, answer: Vec<usize>) -> Hist {
    Hist { kind: kind.into(), cfg, pol: PolSpec::None, more: vec![], routes, t0: 0, ops: vec![OpSpec::Maintain { now: 0, resp: RespSpec::Ok(answer.into_iter().map(|r| PSpec { route: r, expiry: 0, meta: 0 }).collect()) }] }
}

/// production default configuration
fn default_cfg() -> CfgSpec {
    CfgSpec {
        max_cached: 50,
        refetch_interval_ms: 1_800_000,
        min_refetch_delay_ms: 60_000,
        min_expiry_threshold_ms: 300_000,
        max_idle_ms: 120_000,
        backoff: (60.0, 300.0, 1.5, 5.0),
        issue_cache: 100,
        issue_broadcast: 10,
        dedup_ms: 10_000,
        threshold: 0.5,
    }
}

fn gen_wiring(rng: &mut Rng) -> Hist {
    let routes = gen_routes(rng);
    let mut cfg = default_cfg();
    cfg.threshold = *rng.pick(&[0.5f32, 0.3, 0.3, 0.1, 0.0]);
    let k = rng.range(1, routes.len().min(6) as u64) as usize;
    let answer: Vec<usize> = (0..k).map(|_| rng.below(routes.len() as u64) as usize).collect();
    wiring_hist("wiring-random", cfg, routes, answer)
}

// ---- shrinking ---------------------------------------------------------------------------------------

fn shrink(h: &Hist, lean: &mut Lean, prop: &str, still: &dyn Fn(&Outcome) -> bool) -> Hist {
    let mut cur = h.clone();
    let mut budget = 150;
    let mut i = cur.ops.len();
    while i > 0 && budget > 0 {
        i -= 1;
        if cur.ops.len() <= 1 {
            break;
        }
        let mut t = cur.clone();
        t.ops.remove(i);
        budget -= 1;
        if still(&run_history(&t, lean, prop)) {
            cur = t;
        }
    }
    cur
}

fn main() {
    let args = Args::parse();
    quiet_panics();
    let prop = if args.prop.is_empty() { "C05".to_string() } else { args.prop.clone() };
    let mut lean = Lean::spawn(&args.driver);
    let mut rng = Rng::new(args.seed ^ (prop.bytes().fold(0u64, |a, b| a * 131 + b as u64)));
    let mut rep = Report::new(
        &prop,
        "case = history (config, policy, route universe, operations maintain/report/deliver/send with an injected clock) applied to one real \
         PathSet through the verif-hooks step functions and to the Lean model; after every operation the cache (fingerprint/expiry in order), \
         active slot, timers, counters, sizes and handed-out paths are compared. Non-trivial = at least one fetch executed and at least one \
         path handed out, active-path switch or steer-away check; distinct by hash of the serialised history. For C07 additionally \
         matches_path cases (target x path), non-trivial = the target matches",
    );
    let mut hists: Vec<Hist> = vec![];
    for line in read_corpus(&args.corpus) {
        match serde_json::from_str::<Hist>(&line) {
            Ok(h) => hists.push(h),
            Err(e) => rep.notes.push(format!("unparseable corpus line: {e}")),
        }
    }
    rep.hit_n("corpus histories", hists.len() as u64);
    if let Some(p) = &args.replay {
        let txt = std::fs::read_to_string(p).expect("replay file");
        hists = txt.lines().filter(|l| !l.trim().is_empty() && !l.starts_with('#')).filter_map(|l| serde_json::from_str::<Hist>(l).ok()).collect();
        if hists.is_empty() {
            // a replay file written by bin/check: {"case": {"line": "<hist json>"}}
            if let Ok(v) = serde_json::from_str::<serde_json::Value>(&txt) {
                if let Some(l) = v["case"]["line"].as_str() {
                    if let Ok(h) = serde_json::from_str::<Hist>(l) {
                        hists.push(h);
                    }
                }
            }
        }
    } else {
        hists.extend(probes(&prop));
        let (n, max_ops) = if args.thorough() { (1500, 1500) } else { (400, 60) };
        for i in 0..n {
            // thorough: a few very long histories, many medium ones
            let m = if args.thorough() { if i % 50 == 0 { max_ops } else { 120 } } else { max_ops };
            hists.push(gen_history(&mut rng, &prop, m));
        }
        if prop == "C06" {
            let mut fs = rng.fork();
            for _ in 0..args.scale(60, 1000) {
                hists.push(gen_failover_spare(&mut fs));
            }
        }
        if prop == "C07" {
            let mut rr = rng.fork();
            for _ in 0..args.scale(120, 2000) {
                hists.push(gen_rereport(&mut rr));
            }
            // (forked from the re-report stream's generator: the streams below keep their sequences)
            let mut sb = rr.fork();
            for _ in 0..args.scale(150, 2500) {
                hists.push(gen_similar_burst(&mut sb));
            }
            let mut wr = rng.fork();
            for _ in 0..args.scale(10, 60) {
                hists.push(gen_wiring(&mut wr));
            }
        }
    }
    for h in &hists {
        let o = run_history(h, &mut lean, &prop);
        let line = serde_json::to_string(h).unwrap();
        rep.case(&line, o.nontrivial);
        rep.traces += 1;
        rep.hit(&format!("history {}", if h.kind.starts_with("probe") { "probe" } else if h.kind.starts_with("wiring") { "socket wiring" } else { &h.kind }));
        let att = attached(h);
        rep.hit(&format!("policies attached {}", att.len()));
        if att.is_empty() {
            rep.hit("policy none");
        }
        for p in &att {
            rep.hit(&format!("policy {}", match p { PolSpec::None => "none", PolSpec::Mask(_) => "mask", PolSpec::Acl(_) => "acl", PolSpec::Pattern(_) => "hop-pattern" }));
        }
        rep.hit_n("ops", o.ops_run as u64);
        rep.hit_n("fetches executed", o.fetches);
        rep.hit_n("paths handed out", o.handouts);
        rep.hit_n("active path switches", o.swaps);
        rep.hit_n("steer-away checks", o.steer_checked);
        rep.hit_n("no-return checks (a path became active)", o.return_checked);
        for l in &o.labels {
            rep.hit(&format!("op {l}"));
        }
        if rep.samples.len() < 4 && o.nontrivial && h.ops.len() <= 10 {
            rep.sample(json!({"history": h, "outputs": o.labels}));
        }
        if let Some((i, im, mo)) = &o.disagree {
            let small = shrink(h, &mut lean, &prop, &|o: &Outcome| o.disagree.is_some());
            let o2 = run_history(&small, &mut lean, &prop);
            let (i2, im2, mo2) = o2.disagree.clone().unwrap_or((*i, im.clone(), mo.clone()));
            // the HashMap iteration order inside the implementation differs between runs: keep the original request too
            rep.disagree("pathset", json!({"history": small, "line": serde_json::to_string(&small).unwrap(), "op": i2, "first_req": o.last_req, "first_impl": im, "first_model": mo, "orig_line": line}), &im2, &mo2);
        }
        let mut seen = HashSet::new();
        for (key, what) in &o.spec {
            if !seen.insert(key.clone()) {
                continue;
            }
            if !key.starts_with(&prop) {
                // another property's predicate (decided by that property's own check)
                rep.hit(&format!("other-property observation {key}"));
                continue;
            }
            let k = key.clone();
            let small = if h.kind.starts_with("probe") || h.kind.starts_with("wiring") { h.clone() } else { shrink(h, &mut lean, &prop, &|o: &Outcome| o.spec.iter().any(|(kk, _)| *kk == k)) };
            rep.spec_fail(key, what, json!({"history": small, "line": serde_json::to_string(&small).unwrap()}));
        }
    }
    if prop == "C07" && args.replay.is_none() {
        let n = args.scale(1500, 30000);
        match_cases(&mut rng, &mut lean, &mut rep, n);
    }
    rep.write(&args.out);
    std::process::exit(if rep.ok() { 0 } else { 1 });
}
