//! C17 — correspondence + spec oracle for `anapaya_edge_tun::fragmenting`.
//!
//! A case is a *schedule*: queue count + a sequence of frames fed to one real `Defragmenter` and to the
//! Lean model (`drv_frag`).  Compared per frame: `pkt <stream> <bytes>` | `none` | `err <label>` | `panic`.
//! Spec oracle (independent of the model), applied to the implementation's output:
//!  * integrity: every byte of an emitted packet was received in a frame with the same stream offset at
//!    that position (payload bytes are random, so stale slot content is detected);
//!  * honest streams: an emitted packet is byte-identical to the packet sent under that stream offset;
//!    a multi-frame packet is emitted at most once per slot lifetime; in clean streams (≤ Q packets in
//!    flight, nothing dropped) every packet is emitted;
//!  * no panic.
use std::collections::HashMap;

use anapaya_edge_tun::fragmenting::{
    DefragmentInsertError, Defragmenter, Fragmenter, FragmenterSendError, MAX_MTU, MAX_PACKET_SIZE, MIN_MTU,
    MIN_PAYLOAD_SIZE,
};
use serde_json::json;
use verif_harness::*;

const HDR: usize = 16;

#[derive(Clone)]
struct Schedule {
    kind: &'static str,
    queues: usize,
    frames: Vec<Vec<u8>>,
    /// honest packets by stream offset (empty for hostile schedules)
    sent: HashMap<u64, Vec<u8>>,
    /// clean = honest, ≤ Q in flight, nothing dropped: every packet must be emitted
    clean: bool,
}

fn mk_frame(so: u64, fo: u16, flags: u16, payload: &[u8], reserved: u32) -> Vec<u8> {
    let mut v = Vec::with_capacity(HDR + payload.len());
    v.extend_from_slice(&so.to_be_bytes());
    v.extend_from_slice(&fo.to_be_bytes());
    v.extend_from_slice(&flags.to_be_bytes());
    v.extend_from_slice(&reserved.to_be_bytes());
    v.extend_from_slice(payload);
    v
}

fn impl_out(r: Result<Result<Option<(u64, Vec<u8>)>, DefragmentInsertError>, String>) -> String {
    match r {
        Err(_) => "panic".into(),
        Ok(Ok(Some((so, p)))) => format!("pkt {so} {}", hex(&p)),
        Ok(Ok(None)) => "none".into(),
        Ok(Err(e)) => {
            let l = match e {
                DefragmentInsertError::QueueNotAccepting => "queue_idle",
                DefragmentInsertError::InvalidHeader => "invalid_header",
                DefragmentInsertError::InvalidHeaderValue(_, m) => m,
                DefragmentInsertError::OutOfBounds(_) => "segment_out_of_bounds",
                DefragmentInsertError::Duplicate(_) => "duplicate_segment",
                DefragmentInsertError::TooOld(_) => "segment_too_old",
            };
            format!("err {l}")
        }
    }
}

struct Outcome {
    /// first index at which model and implementation differ, with both outputs
    disagree: Option<(usize, String, String)>,
    /// spec failures (key, what)
    spec: Vec<(String, String)>,
    labels: Vec<String>,
    emitted_from_queue: usize,
}

/// run one schedule against the implementation and (optionally) the model, apply the spec oracle
fn run_schedule(s: &Schedule, lean: &mut Option<&mut Lean>) -> Outcome {
    let mut out = Outcome { disagree: None, spec: vec![], labels: vec![], emitted_from_queue: 0 };
    let mut d = match catch(|| Defragmenter::new_unobserved(s.queues)) {
        Ok(d) => d,
        Err(m) => {
            out.spec.push(("C17:panic".into(), format!("Defragmenter::new panicked: {m}")));
            return out;
        }
    };
    if let Some(l) = lean.as_mut() {
        l.ask(&format!("new {}", s.queues));
    }
    // frames fed so far, by stream offset: (frame_offset, payload)
    let mut fed: HashMap<u64, Vec<(usize, &[u8])>> = HashMap::new();
    let mut emitted: HashMap<u64, usize> = HashMap::new();
    for (i, f) in s.frames.iter().enumerate() {
        let r = catch(|| d.recv(f).map(|o| o.map(|p| (p.stream_offset, p.payload.to_vec()))));
        if f.len() >= HDR {
            let so = u64::from_be_bytes(f[0..8].try_into().unwrap());
            let fo = u16::from_be_bytes(f[8..10].try_into().unwrap()) as usize;
            fed.entry(so).or_default().push((fo, &f[HDR..]));
        }
        if let Ok(Ok(Some((so, p)))) = &r {
            let single = f.len() >= HDR && (f[10] & 0x80) != 0 && f[8] == 0 && f[9] == 0;
            if !single {
                out.emitted_from_queue += 1;
            }
            // integrity
            let frames = fed.get(so).cloned().unwrap_or_default();
            let mut bad = None;
            for (pos, b) in p.iter().enumerate() {
                if !frames.iter().any(|(fo, pl)| *fo <= pos && pos < fo + pl.len() && pl[pos - fo] == *b) {
                    bad = Some(pos);
                    break;
                }
            }
            if let Some(pos) = bad {
                out.spec.push((
                    "C17:integrity".into(),
                    format!("emitted packet stream_offset={so} len={} has byte at {pos} that was never received in a frame of that packet (frame #{i})", p.len()),
                ));
            }
            if !s.sent.is_empty() {
                match s.sent.get(so) {
                    Some(orig) if orig == p => {}
                    Some(orig) => out.spec.push((
                        "C17:honest-identical".into(),
                        format!("honest packet stream_offset={so} sent {} B, emitted {} B differing", orig.len(), p.len()),
                    )),
                    None => out.spec.push(("C17:honest-identical".into(), format!("emitted unknown stream offset {so}"))),
                }
                let n = emitted.entry(*so).or_insert(0);
                *n += 1;
                if *n > 1 {
                    // was the whole packet delivered (at least) twice? then the second emission is the
                    // consequence of a network-duplicated packet whose slot had been reclaimed in between
                    let mut per_off: HashMap<usize, usize> = HashMap::new();
                    for (fo, _) in &frames {
                        *per_off.entry(*fo).or_insert(0) += 1;
                    }
                    let whole_dup = per_off.values().all(|c| *c >= *n);
                    let key = if single {
                        "C17:at-most-once:single-frame-duplicate"
                    } else if whole_dup {
                        "C17:at-most-once:whole-packet-duplicated"
                    } else {
                        "C17:at-most-once"
                    };
                    out.spec.push((key.into(), format!("packet stream_offset={so} emitted {} times (frame #{i})", *n)));
                }
            }
        }
        if r.is_err() {
            out.spec.push(("C17:panic".into(), format!("recv panicked on frame #{i}")));
        }
        let io = impl_out(r);
        out.labels.push(io.split(' ').take(if io.starts_with("err") { 2 } else { 1 }).collect::<Vec<_>>().join(" "));
        if let Some(l) = lean.as_mut() {
            let mo = l.ask(&format!("recv {}", hex(f)));
            if l.differs(&mo, &io) && out.disagree.is_none() {
                let cut = |s: &str| if s.len() > 160 { format!("{}…", &s[..160]) } else { s.to_string() };
                out.disagree = Some((i, cut(&io), cut(&mo)));
            }
        }
    }
    if s.clean {
        for so in s.sent.keys() {
            if emitted.get(so).copied().unwrap_or(0) == 0 {
                out.spec.push(("C17:complete-not-emitted".into(), format!("all frames of packet stream_offset={so} delivered, never emitted")));
            }
        }
    }
    out
}

fn sizes_interesting(rng: &mut Rng, p: usize) -> usize {
    let c = [1, 2, p - 1, p, p + 1, 2 * p - 1, 2 * p, 2 * p + 1, 3 * p, 5 * p + 7, MAX_PACKET_SIZE, MAX_PACKET_SIZE - 1];
    let v = if rng.chance(2, 3) { *rng.pick(&c) } else { rng.range(1, (p * 12) as u64) as usize };
    v.clamp(1, MAX_PACKET_SIZE)
}

fn mtu_interesting(rng: &mut Rng) -> usize {
    let c = [0, 1, MIN_MTU - 1, MIN_MTU, MIN_MTU + 1, 300, 1280, 1500, MAX_MTU - 1, MAX_MTU, MAX_MTU + 1, 70000];
    if rng.chance(2, 3) { *rng.pick(&c) } else { rng.range(MIN_MTU as u64, MAX_MTU as u64) as usize }
}

/// honest schedule; also checks the Fragmenter against the model (`fsend`) and its own spec
fn gen_honest(rng: &mut Rng, rep: &mut Report, lean: &mut Lean) -> Schedule {
    let queues = rng.range(1, 5) as usize;
    let npk = rng.range(1, (queues + 3) as u64) as usize;
    let mtu0 = mtu_interesting(rng);
    let mut fr = Fragmenter::new_unobserved(mtu0);
    let lm = lean.ask(&format!("fnew {mtu0}"));
    if lean.differs(&lm, &format!("mtu {}", fr.mtu())) {
        rep.disagree("fragmenter-mtu", json!({"mtu": mtu0}), &format!("mtu {}", fr.mtu()), &lm);
    }
    let mut packets: Vec<(u64, Vec<Vec<u8>>)> = vec![];
    let mut sent = HashMap::new();
    let big = rng.chance(1, 6);
    for _ in 0..npk {
        if rng.chance(1, 3) {
            let m = mtu_interesting(rng);
            fr.set_mtu(m);
            let lm = lean.ask(&format!("fsetmtu {m}"));
            if lean.differs(&lm, &format!("mtu {}", fr.mtu())) {
                rep.disagree("fragmenter-mtu", json!({"mtu": m}), &format!("mtu {}", fr.mtu()), &lm);
            }
        }
        let p = fr.mtu() - HDR;
        let mut size = sizes_interesting(rng, p);
        if !big && size > 6 * p {
            size = size % (6 * p) + 1;
        }
        let data = rng.bytes(size);
        let mut frames = vec![];
        let r = catch(|| fr.send(&data, |f| frames.push(f.to_vec())));
        let so = match r {
            Ok(Ok(so)) => so,
            other => {
                rep.spec_fail("C17:fragmenter-rejects", &format!("Fragmenter::send failed on {} bytes: {:?}", size, other.map(|x| x.err())), json!({"size": size}));
                continue;
            }
        };
        // model of the fragmenter
        let lm = lean.ask(&format!("fsend {}", hex(&data)));
        let im = format!("frames {so} {}{}", frames.len(), frames.iter().map(|f| format!(" {}", hex(f))).collect::<String>());
        if lean.differs(&lm, &im) {
            rep.disagree("fragmenter", json!({"mtu": fr.mtu(), "size": size}), &im[..im.len().min(120)], &lm[..lm.len().min(120)]);
        }
        // fragmenter spec: ≤ MAX_FRAMES frames, each ≤ mtu, payloads concatenate to data, offsets = prefix sums
        let mut cat = vec![];
        for (k, f) in frames.iter().enumerate() {
            let fo = u16::from_be_bytes(f[8..10].try_into().unwrap()) as usize;
            let last = f[10] & 0x80 != 0;
            if fo != cat.len() || last != (k == frames.len() - 1) || f.len() > fr.mtu() {
                rep.spec_fail("C17:fragmenter-shape", "frame offset / LAST flag / size wrong", json!({"mtu": fr.mtu(), "size": size, "frame": k}));
            }
            cat.extend_from_slice(&f[HDR..]);
        }
        if cat != data || frames.len() > 256 {
            rep.spec_fail("C17:fragmenter-shape", "payloads do not concatenate to the packet or too many frames", json!({"mtu": fr.mtu(), "size": size}));
        }
        rep.hit(&format!("honest frames/packet {}", match frames.len() { 1 => "1", 2 => "2", 3..=8 => "3-8", _ => "9+" }));
        sent.insert(so, data);
        packets.push((so, frames));
    }
    // empty / oversize packets are rejected by both
    if rng.chance(1, 10) {
        let r = fr.send(&[], |_| {});
        let lm = lean.ask("fsend -");
        if !(matches!(r, Err(FragmenterSendError::EmptyPacket)) && !lean.differs(&lm, "err empty")) {
            rep.disagree("fragmenter", json!("empty packet"), &format!("{r:?}"), &lm);
        }
    }
    // schedule: windows of ≤ queues packets in flight; inside a window frames are shuffled and duplicated
    let mode = rng.below(4); // 0 in order, 1 reverse, 2 shuffle window, 3 shuffle + dups + maybe drop
    let mut frames: Vec<Vec<u8>> = vec![];
    let mut clean = true;
    for win in packets.chunks(queues) {
        let mut w: Vec<Vec<u8>> = vec![];
        for (_, fs) in win {
            let mut fs = fs.clone();
            if mode == 1 {
                fs.reverse();
            }
            if mode == 3 && fs.len() > 1 && rng.chance(1, 8) {
                let k = rng.below(fs.len() as u64) as usize;
                fs.remove(k); // lose one frame of this packet
                clean = false;
            }
            w.extend(fs);
        }
        if mode >= 2 {
            rng.shuffle(&mut w);
        }
        if mode == 3 {
            // duplicate some multi-frame frames (single-frame duplicates are covered by the corpus case)
            let n = w.len();
            for k in 0..n {
                let single = w[k][10] & 0x80 != 0 && w[k][8] == 0 && w[k][9] == 0;
                if !single && rng.chance(1, 4) {
                    let pos = rng.range(0, w.len() as u64) as usize;
                    let dup = w[k].clone();
                    w.insert(pos, dup);
                    // a duplicate arriving after completion + slot reuse can occupy a slot: not "clean"
                    clean = false;
                }
            }
        }
        frames.extend(w);
    }
    Schedule { kind: "honest", queues, frames, sent, clean }
}

fn gen_hostile(rng: &mut Rng) -> Schedule {
    let queues = rng.range(1, 4) as usize;
    let n = rng.range(2, 14) as usize;
    let windows = [MIN_PAYLOAD_SIZE, MIN_PAYLOAD_SIZE + 1, 300, 512, 1000, 8984, MIN_PAYLOAD_SIZE - 1];
    let w = *rng.pick(&windows);
    let streams: Vec<u64> = vec![0, 1, 7, 1000, u64::MAX, u64::MAX - 1, rng.next()];
    let nstreams = rng.range(1, 3) as usize;
    let mut frames = vec![];
    for _ in 0..n {
        let extra = if rng.chance(1, 10) { 4 } else { 0 };
        let so = streams[rng.below(nstreams as u64 + extra) as usize % streams.len()];
        if rng.chance(1, 25) {
            let k = rng.below(HDR as u64) as usize;
            frames.push(rng.bytes(k));
            continue;
        }
        let last = rng.chance(1, 3);
        let idx = match rng.below(10) {
            0..=5 => rng.below(5),
            6 => rng.below(260),
            7 => 254,
            8 => 255,
            _ => 65535 / w as u64,
        } as usize;
        let mut fo = idx * w;
        if rng.chance(1, 10) {
            fo = fo.wrapping_add(rng.range(1, 3) as usize);
        }
        let fo = (fo % 65536) as u16;
        let len = if last {
            match rng.below(8) {
                0 => 0,
                1 => 1,
                2 => w,
                3 => w + 1,
                4 => 2 * w,
                5 => (65535usize).saturating_sub(fo as usize),
                6 => (65536usize).saturating_sub(fo as usize),
                _ => rng.range(1, w as u64) as usize,
            }
        } else {
            match rng.below(10) {
                0 => w + 1,
                1 => w - 1,
                2 => 0,
                3 => (65536usize).saturating_sub(fo as usize),
                _ => w,
            }
        };
        let flags = if last { 0x8000 } else { 0 } | if rng.chance(1, 6) { (rng.next() as u16) & 0x7fff } else { 0 };
        let reserved = if rng.chance(1, 6) { rng.next() as u32 } else { 0 };
        let pl = rng.bytes(len.min(65600));
        frames.push(mk_frame(so, fo, flags, &pl, reserved));
    }
    // often precede with an honest packet in the same slot so that stale content is non-zero
    if rng.chance(2, 3) {
        let mut pre = vec![];
        let mut fr = Fragmenter::new_unobserved(w + HDR);
        let k = rng.range(w as u64 + 1, (4 * w) as u64).min(65535) as usize;
        let data = rng.bytes(k);
        let _ = fr.send(&data, |f| pre.push(f.to_vec()));
        // move it to a stream offset not used by the hostile frames
        for f in pre.iter_mut() {
            f[0..8].copy_from_slice(&500_000u64.to_be_bytes());
        }
        pre.extend(frames);
        frames = pre;
    }
    Schedule { kind: "hostile", queues, frames, sent: HashMap::new(), clean: false }
}

/// "count matches, coverage does not": `a` regular frames chosen from a pool that includes indices at and beyond
/// the LAST frame and around the 128-bit word boundary of the receive mask, plus a LAST frame at index `a`
/// (so that the number of received frames equals the expected number) – in random order, after an honest
/// packet has filled the slot with non-zero bytes
fn gen_count_match(rng: &mut Rng) -> Schedule {
    let queues = rng.range(1, 2) as usize;
    let w = *rng.pick(&[MIN_PAYLOAD_SIZE, MIN_PAYLOAD_SIZE + 1, 300]);
    let a = *rng.pick(&[1usize, 2, 2, 3, 3, 4, 5, 126, 127, 128, 129, 130]);
    let mut pool: Vec<usize> = (0..a + 3).collect();
    pool.extend([126usize, 127, 128, 129, 130, 131, 200, 253, 254]);
    pool.sort();
    pool.dedup();
    pool.retain(|i| *i != a && i * w + w <= 65535);
    rng.shuffle(&mut pool);
    // mostly the honest set 0..a with one or two members swapped for others
    let mut chosen: Vec<usize> = (0..a).collect();
    let swaps = rng.range(0, 2);
    for _ in 0..swaps {
        if chosen.is_empty() { break; }
        let k = rng.below(chosen.len() as u64) as usize;
        if let Some(n) = pool.iter().find(|i| !chosen.contains(i)) {
            chosen[k] = *n;
        }
    }
    let so = 7u64;
    let mut frames: Vec<Vec<u8>> = chosen.iter().map(|i| { let pl = rng.bytes(w); mk_frame(so, (i * w) as u16, 0, &pl, 0) }).collect();
    let last_len = *rng.pick(&[1usize, 10, w - 1, w]);
    if a * w + last_len <= 65535 {
        let pl = rng.bytes(last_len);
        frames.push(mk_frame(so, (a * w) as u16, 0x8000, &pl, 0));
    }
    rng.shuffle(&mut frames);
    // fill the slot first
    let mut pre = vec![];
    let mut fr = Fragmenter::new_unobserved(9000);
    let data = rng.bytes(65535);
    let _ = fr.send(&data, |f| pre.push(f.to_vec()));
    for f in pre.iter_mut() {
        f[0..8].copy_from_slice(&500_000u64.to_be_bytes());
    }
    pre.extend(frames);
    Schedule { kind: "count-match", queues, frames: pre, sent: HashMap::new(), clean: false }
}

/// corpus line: `<queues> <hexframe> <hexframe> …`
fn parse_corpus_line(l: &str) -> Option<Schedule> {
    let mut it = l.split_whitespace();
    let queues = it.next()?.parse().ok()?;
    let frames: Option<Vec<Vec<u8>>> = it.map(unhex).collect();
    Some(Schedule { kind: "corpus", queues, frames: frames?, sent: HashMap::new(), clean: false })
}

fn sched_json(s: &Schedule) -> serde_json::Value {
    json!({"kind": s.kind, "queues": s.queues, "frames": s.frames.iter().map(|f| {
        if f.len() >= HDR {
            json!({"stream": u64::from_be_bytes(f[0..8].try_into().unwrap()).to_string(),
                   "frame_offset": u16::from_be_bytes(f[8..10].try_into().unwrap()),
                   "last": f[10] & 0x80 != 0, "len": f.len() - HDR})
        } else { json!({"short": f.len()}) }
    }).collect::<Vec<_>>()})
}

fn sched_line(s: &Schedule) -> String {
    format!("{} {}", s.queues, s.frames.iter().map(|f| hex(f)).collect::<Vec<_>>().join(" "))
}

/// delta-debugging over the frame list
fn shrink(s: &Schedule, lean: &mut Lean, fails: &dyn Fn(&Outcome) -> bool) -> Schedule {
    let mut cur = s.clone();
    cur.clean = false;
    let mut chunk = (cur.frames.len() / 2).max(1);
    let mut budget = 200;
    while budget > 0 {
        let mut progressed = false;
        let mut i = 0;
        while i < cur.frames.len() && budget > 0 {
            let mut cand = cur.clone();
            let end = (i + chunk).min(cand.frames.len());
            cand.frames.drain(i..end);
            budget -= 1;
            let o = run_schedule(&cand, &mut Some(lean));
            if !cand.frames.is_empty() && fails(&o) {
                cur = cand;
                progressed = true;
            } else {
                i += chunk;
            }
        }
        if chunk == 1 && !progressed {
            break;
        }
        chunk = (chunk / 2).max(1);
    }
    cur
}

fn main() {
    let args = Args::parse();
    quiet_panics();
    let mut lean = Lean::spawn(&args.driver);
    let mut rng = Rng::new(args.seed);
    let mut rep = Report::new(
        "C17",
        "case = schedule (queue count + frame sequence) fed to the real Defragmenter and to the Lean model; \
         honest schedules come from the real Fragmenter (boundary-directed sizes/MTUs, shuffled, duplicated, \
         interleaved, lossy), hostile schedules are boundary-directed arbitrary frames. Non-trivial = at least one \
         packet emitted from a reassembly queue or at least one error other than invalid_header; distinct by \
         hash of (queues, frame headers, lengths)",
    );
    let mut schedules: Vec<Schedule> = vec![];
    for l in read_corpus(&args.corpus) {
        match parse_corpus_line(&l) {
            Some(s) => schedules.push(s),
            None => rep.notes.push(format!("unparseable corpus line: {}", &l[..l.len().min(40)])),
        }
    }
    let n_corpus = schedules.len();
    if let Some(p) = &args.replay {
        // replay file: a corpus-format line
        let txt = std::fs::read_to_string(p).expect("replay file");
        schedules = txt.lines().filter_map(parse_corpus_line).collect();
    } else {
        let n = args.scale(1200, 40000);
        for i in 0..n {
            if i % 2 == 0 {
                let s = gen_honest(&mut rng, &mut rep, &mut lean);
                schedules.push(s);
            } else if i % 8 == 1 {
                schedules.push(gen_count_match(&mut rng));
            } else {
                schedules.push(gen_hostile(&mut rng));
            }
        }
    }
    // deterministic probe: a network-duplicated single-frame packet (honest sender)
    if args.replay.is_none() {
        let mut fr = Fragmenter::new_unobserved(1500);
        let data = rng.bytes(100);
        let mut frames = vec![];
        let so = fr.send(&data, |f| frames.push(f.to_vec())).unwrap();
        let mut sent = HashMap::new();
        sent.insert(so, data);
        let f0 = frames[0].clone();
        schedules.push(Schedule { kind: "probe-single-dup", queues: 2, frames: vec![f0.clone(), f0], sent, clean: false });
    }
    rep.hit_n("corpus schedules", n_corpus as u64);
    for s in &schedules {
        let o = run_schedule(s, &mut Some(&mut lean));
        let canon = format!("{}|{}", s.queues, s.frames.iter().map(|f| hex(&f[..f.len().min(HDR)]) + &f.len().to_string()).collect::<Vec<_>>().join(","));
        let nontrivial = o.emitted_from_queue > 0 || o.labels.iter().any(|l| l.starts_with("err") && l != "err invalid_header");
        rep.case(&canon, nontrivial);
        rep.traces += 1;
        rep.hit(&format!("schedule {}", s.kind));
        rep.hit_n("frames fed", s.frames.len() as u64);
        for l in &o.labels {
            rep.hit(&format!("out {l}"));
        }
        rep.hit_n("packets emitted from a queue", o.emitted_from_queue as u64);
        if rep.samples.len() < 4 && nontrivial && s.frames.len() <= 8 {
            rep.sample(json!({"schedule": sched_json(s), "outputs": o.labels}));
        }
        if let Some((i, im, mo)) = &o.disagree {
            let small = shrink(s, &mut lean, &|o: &Outcome| o.disagree.is_some());
            let o2 = run_schedule(&small, &mut Some(&mut lean));
            let (i2, im2, mo2) = o2.disagree.clone().unwrap_or((*i, im.clone(), mo.clone()));
            rep.disagree("defragmenter", json!({"schedule": sched_json(&small), "line": sched_line(&small), "frame": i2}), &im2, &mo2);
        }
        let mut seen = std::collections::HashSet::new();
        for (key, what) in &o.spec {
            if !seen.insert(key.clone()) {
                continue;
            }
            let k = key.clone();
            let small = shrink(s, &mut lean, &|o: &Outcome| o.spec.iter().any(|(kk, _)| *kk == k));
            let mut small = small;
            small.sent = s.sent.clone();
            rep.spec_fail(key, what, json!({"schedule": sched_json(&small), "line": sched_line(&small)}));
        }
    }
    if rep.samples.is_empty() {
        if let Some(s) = schedules.first() {
            rep.sample(sched_json(s));
        }
    }
    rep.write(&args.out);
    std::process::exit(if rep.ok() { 0 } else { 1 });
}
