//! C17 — correspondence + spec oracle for `anapaya_edge_tun::fragmenting`.
//!
//! A case is a *schedule*: queue count + a sequence of frames fed to one real `Defragmenter` and to the
//! Lean model (`drv_frag`).  Compared per frame: `pkt <stream> <bytes>` | `none` | `err <label>` | `panic`.
//! Spec oracle (independent of the model), applied to the implementation's output:
//!  * integrity: every byte of a packet emitted from a reassembly queue was received, at that position, in a
//!    frame with the same stream offset fed *after the previous emission of that stream offset from a queue*
//!    (payload bytes are random, so stale slot content is detected; a re-emission cannot reuse old frames);
//!    a packet emitted on the single-frame fast path is exactly the payload of that frame;
//!  * honest streams: an emitted packet is byte-identical to the packet sent under that stream offset;
//!  * at most once: a second emission of an honest packet is a known finding only in its two specific
//!    classes (single-frame duplicate; whole packet duplicated *and* a frame of another packet fed in
//!    between, which can have reclaimed the slot); anything else is a violation;
//!  * liveness, per packet and under any duplication / interleaving / loss of other packets' frames: let
//!    `t0` be the first and `t1` the completing frame of a multi-frame packet S.  If the streams that can hold
//!    a slot up to `t1` (every other stream offset with a multi-frame frame fed up to `t1`, except those that
//!    were emitted before `t0` and silent since) number at most Q-1, no busy slot can have been evicted, so S
//!    must be emitted exactly at `t1`.  Every honest single-frame packet must be emitted on arrival;
//!  * no panic.
use std::collections::{HashMap, HashSet};

use anapaya_edge_tun::fragmenting::{
    DefragmentInsertError, Defragmenter, Fragmenter, FragmenterSendError, MAX_MTU, MAX_PACKET_SIZE, MIN_MTU,
    MIN_PAYLOAD_SIZE,
};
use serde_json::json;
use verif_harness::*;

const HDR: usize = 16;

#[derive(Clone)]
struct Schedule {
    kind: &'static str,
    queues: usize,
    frames: Vec<Vec<u8>>,
    /// honest packets by stream offset (empty for hostile schedules)
    sent: HashMap<u64, Vec<u8>>,
    /// frame offsets of every honest packet, as produced by the Fragmenter
    sent_offs: HashMap<u64, Vec<usize>>,
}

fn mk_frame(so: u64, fo: u16, flags: u16, payload: &[u8], reserved: u32) -> Vec<u8> {
    let mut v = Vec::with_capacity(HDR + payload.len());
    v.extend_from_slice(&so.to_be_bytes());
    v.extend_from_slice(&fo.to_be_bytes());
    v.extend_from_slice(&flags.to_be_bytes());
    v.extend_from_slice(&reserved.to_be_bytes());
    v.extend_from_slice(payload);
    v
}

/// (stream offset, frame offset, LAST) of a frame that has a complete header
fn hd(f: &[u8]) -> Option<(u64, usize, bool)> {
    if f.len() < HDR {
        return None;
    }
    Some((
        u64::from_be_bytes(f[0..8].try_into().unwrap()),
        u16::from_be_bytes(f[8..10].try_into().unwrap()) as usize,
        f[10] & 0x80 != 0,
    ))
}

/// frame takes the stateless single-frame fast path of `recv_fallible`
fn is_fast(f: &[u8]) -> bool {
    matches!(hd(f), Some((_, 0, true)))
}

fn impl_out(r: Result<Result<Option<(u64, Vec<u8>)>, DefragmentInsertError>, String>) -> String {
    match r {
        Err(_) => "panic".into(),
        Ok(Ok(Some((so, p)))) => format!("pkt {so} {}", hex(&p)),
        Ok(Ok(None)) => "none".into(),
        Ok(Err(e)) => {
            let l = match e {
                DefragmentInsertError::QueueNotAccepting => "queue_idle",
                DefragmentInsertError::InvalidHeader => "invalid_header",
                DefragmentInsertError::InvalidHeaderValue(_, m) => m,
                DefragmentInsertError::OutOfBounds(_) => "segment_out_of_bounds",
                DefragmentInsertError::Duplicate(_) => "duplicate_segment",
                DefragmentInsertError::TooOld(_) => "segment_too_old",
            };
            format!("err {l}")
        }
    }
}

struct Outcome {
    /// first index at which model and implementation differ, with both outputs
    disagree: Option<(usize, String, String)>,
    /// spec failures (key, what)
    spec: Vec<(String, String)>,
    labels: Vec<String>,
    emitted_from_queue: usize,
    /// number of packets the liveness oracle demanded (premise discharged by the counting argument)
    liveness_claims: usize,
    /// … of which with a duplicate of one of its own frames or a frame of another stream before completion
    liveness_claims_disturbed: usize,
}

/// run one schedule against the implementation and (optionally) the model, apply the spec oracle
fn run_schedule(s: &Schedule, lean: &mut Option<&mut Lean>) -> Outcome {
    let mut out = Outcome { disagree: None, spec: vec![], labels: vec![], emitted_from_queue: 0, liveness_claims: 0, liveness_claims_disturbed: 0 };
    let mut d = match catch(|| Defragmenter::new_unobserved(s.queues)) {
        Ok(d) => d,
        Err(m) => {
            out.spec.push(("C17:panic".into(), format!("Defragmenter::new panicked: {m}")));
            return out;
        }
    };
    if let Some(l) = lean.as_mut() {
        l.ask(&format!("new {}", s.queues));
    }
    let honest = !s.sent.is_empty();
    // frames fed so far, by stream offset: (index in the schedule, frame_offset, payload)
    let mut fed: HashMap<u64, Vec<(usize, usize, &[u8])>> = HashMap::new();
    // indices at which a stream offset was emitted from a reassembly queue / on the fast path
    let mut q_emits: HashMap<u64, Vec<usize>> = HashMap::new();
    let mut fast_emits: HashMap<u64, usize> = HashMap::new();
    for (i, f) in s.frames.iter().enumerate() {
        let r = catch(|| d.recv(f).map(|o| o.map(|p| (p.stream_offset, p.payload.to_vec()))));
        if let Some((so, fo, _)) = hd(f) {
            fed.entry(so).or_default().push((i, fo, &f[HDR..]));
        }
        let single = is_fast(f);
        if let Ok(Ok(Some((so, p)))) = &r {
            // integrity
            if single {
                if hd(f).map(|h| h.0) != Some(*so) || &f[HDR..] != &p[..] {
                    out.spec.push(("C17:integrity".into(), format!("single-frame packet emitted for frame #{i} is not that frame's payload / stream offset")));
                }
            } else {
                out.emitted_from_queue += 1;
                let since = q_emits.get(so).and_then(|v| v.last().copied());
                let frames: Vec<&(usize, usize, &[u8])> =
                    fed.get(so).map(|v| v.iter().filter(|(k, _, _)| since.map_or(true, |e| *k > e)).collect()).unwrap_or_default();
                let mut bad = None;
                for (pos, b) in p.iter().enumerate() {
                    if !frames.iter().any(|(_, fo, pl)| *fo <= pos && pos < fo + pl.len() && pl[pos - fo] == *b) {
                        bad = Some(pos);
                        break;
                    }
                }
                if let Some(pos) = bad {
                    out.spec.push((
                        "C17:integrity".into(),
                        format!("emitted packet stream_offset={so} len={} has byte at {pos} that was never received in a frame of that packet (frame #{i})", p.len()),
                    ));
                }
            }
            if honest {
                match s.sent.get(so) {
                    Some(orig) if orig == p => {}
                    Some(orig) => out.spec.push((
                        "C17:honest-identical".into(),
                        format!("honest packet stream_offset={so} sent {} B, emitted {} B differing", orig.len(), p.len()),
                    )),
                    None => out.spec.push(("C17:honest-identical".into(), format!("emitted unknown stream offset {so}"))),
                }
                // at most once
                if single {
                    let n = fast_emits.entry(*so).or_insert(0);
                    *n += 1;
                    if *n > 1 {
                        out.spec.push(("C17:at-most-once:single-frame-duplicate".into(), format!("single-frame packet stream_offset={so} emitted {} times (frame #{i})", *n)));
                    }
                } else if let Some(prev) = q_emits.get(so).and_then(|v| v.last().copied()) {
                    let n = q_emits[so].len() + 1;
                    // was the whole packet delivered again after the previous emission, and was a frame of
                    // another multi-frame packet fed in between (only such a frame can reclaim the idle slot)?
                    let offs: HashSet<usize> = s.sent_offs.get(so).map(|v| v.iter().copied().collect()).unwrap_or_default();
                    let again: HashSet<usize> = fed[so].iter().filter(|(k, _, _)| *k > prev).map(|(_, fo, _)| *fo).collect();
                    let whole_dup = !offs.is_empty() && offs.is_subset(&again);
                    let foreign_between = s.frames[prev + 1..i].iter().any(|g| !is_fast(g) && hd(g).map_or(false, |h| h.0 != *so));
                    let key = if whole_dup && foreign_between {
                        "C17:at-most-once:whole-packet-duplicated"
                    } else if whole_dup {
                        "C17:at-most-once:slot-not-reclaimed"
                    } else {
                        "C17:at-most-once"
                    };
                    out.spec.push((key.into(), format!("packet stream_offset={so} emitted {n} times (frames #{prev} and #{i})")));
                }
            }
            if !single {
                q_emits.entry(*so).or_default().push(i);
            }
        } else if honest && single && r.is_ok() {
            out.spec.push(("C17:complete-not-emitted:single-frame".into(), format!("honest single-frame packet (frame #{i}) not emitted")));
        }
        if r.is_err() {
            out.spec.push(("C17:panic".into(), format!("recv panicked on frame #{i}")));
        }
        let io = impl_out(r);
        out.labels.push(io.split(' ').take(if io.starts_with("err") { 2 } else { 1 }).collect::<Vec<_>>().join(" "));
        if let Some(l) = lean.as_mut() {
            let mo = l.ask(&format!("recv {}", hex(f)));
            if l.differs(&mo, &io) && out.disagree.is_none() {
                let cut = |s: &str| if s.len() > 160 { format!("{}…", &s[..160]) } else { s.to_string() };
                out.disagree = Some((i, cut(&io), cut(&mo)));
            }
        }
    }
    // liveness of every honest multi-frame packet whose slot cannot have been reclaimed (see module doc)
    if honest && s.queues >= 1 {
        // first/last index of a multi-frame frame per stream
        let multi: Vec<(usize, u64)> = s.frames.iter().enumerate().filter(|(_, f)| !is_fast(f)).filter_map(|(i, f)| hd(f).map(|h| (i, h.0))).collect();
        for (so, offs) in &s.sent_offs {
            if offs.len() < 2 {
                continue;
            }
            let want: HashSet<usize> = offs.iter().copied().collect();
            let mut seen: HashSet<usize> = HashSet::new();
            let (mut t0, mut t1) = (None, None);
            let mut disturbed = false;
            for (k, fo, _) in fed.get(so).map(|v| v.as_slice()).unwrap_or(&[]) {
                if t0.is_none() {
                    t0 = Some(*k);
                }
                if !seen.insert(*fo) {
                    disturbed = true;
                }
                if seen.is_superset(&want) {
                    t1 = Some(*k);
                    break;
                }
            }
            let (Some(t0), Some(t1)) = (t0, t1) else { continue };
            let mut holders: HashSet<u64> = HashSet::new();
            for (k, x) in &multi {
                if *k > t1 || x == so {
                    continue;
                }
                if *k > t0 {
                    disturbed = true;
                }
                holders.insert(*x);
            }
            let competing = holders
                .iter()
                .filter(|x| {
                    // retired: emitted from a queue before t0 and no multi-frame frame of it fed since (up to t1)
                    let e = q_emits.get(x).and_then(|v| v.iter().copied().filter(|e| *e < t0).max());
                    !e.map_or(false, |e| !multi.iter().any(|(k, y)| y == *x && *k > e && *k <= t1))
                })
                .count();
            if competing + 1 > s.queues {
                continue;
            }
            out.liveness_claims += 1;
            if disturbed {
                out.liveness_claims_disturbed += 1;
            }
            if !q_emits.get(so).map_or(false, |v| v.contains(&t1)) {
                let key = if *so == u64::MAX { "C17:complete-not-emitted:stream-offset-u64-max" } else { "C17:complete-not-emitted" };
                out.spec.push((
                    key.into(),
                    format!(
                        "packet stream_offset={so}: first frame #{t0}, all {} frames delivered by frame #{t1}, at most {competing} other packets can hold one of the {} slots, but it was not emitted at frame #{t1} (result there: {})",
                        want.len(), s.queues, out.labels[t1]
                    ),
                ));
            }
        }
    }
    out
}

fn sizes_interesting(rng: &mut Rng, p: usize) -> usize {
    let c = [1, 2, p - 1, p, p + 1, 2 * p - 1, 2 * p, 2 * p + 1, 3 * p, 5 * p + 7, MAX_PACKET_SIZE, MAX_PACKET_SIZE - 1];
    let v = if rng.chance(2, 3) { *rng.pick(&c) } else { rng.range(1, (p * 12) as u64) as usize };
    v.clamp(1, MAX_PACKET_SIZE)
}

fn mtu_interesting(rng: &mut Rng) -> usize {
    let c = [0, 1, MIN_MTU - 1, MIN_MTU, MIN_MTU + 1, 300, 1280, 1500, MAX_MTU - 1, MAX_MTU, MAX_MTU + 1, 70000];
    if rng.chance(2, 3) { *rng.pick(&c) } else { rng.range(MIN_MTU as u64, MAX_MTU as u64) as usize }
}

/// stream offsets an honest sender reaches only after sending that many bytes (set through the
/// `verif_set_stream_offset` hook): around the u64 wrap, where `wrapping_add` matters and where the
/// never-used sentinel `u64::MAX` of the reassembly queues lives
fn start_offset(rng: &mut Rng) -> u64 {
    match rng.below(8) {
        0 => u64::MAX,
        1 => u64::MAX - 1,
        2 => u64::MAX - rng.below(600),
        3 => u64::MAX - rng.below(70_000),
        4 => u64::MAX - 65_535 - rng.below(70_000),
        5 => 1u64 << 63,
        6 => (1u64 << 32) - 1 - rng.below(300),
        _ => rng.next(),
    }
}

/// honest schedule; also checks the Fragmenter against the model (`fsend`) and its own spec
fn gen_honest(rng: &mut Rng, rep: &mut Report, lean: &mut Lean) -> Schedule {
    let queues = *rng.pick(&[1usize, 1, 2, 2, 2, 3, 3, 4, 5, 6, 9, 0]);
    // 0..3: windows of ≤ Q packets (in order / reversed / shuffled / shuffled + duplicates + loss);
    // 4, 5: overload – Q+1 or Q+2 multi-frame packets in flight at once, frames interleaved round-robin
    // (4) or shuffled with duplicates (5): eviction must choose among several busy queues
    let mode = rng.below(6);
    let overload = mode >= 4;
    let npk = if overload { queues + 1 + rng.below(3) as usize } else { rng.range(1, (queues + 3) as u64) as usize };
    let mtu0 = mtu_interesting(rng);
    let mut fr = Fragmenter::new_unobserved(mtu0);
    let lm = lean.ask(&format!("fnew {mtu0}"));
    if lean.differs(&lm, &format!("mtu {}", fr.mtu())) {
        rep.disagree("fragmenter-mtu", json!({"mtu": mtu0}), &format!("mtu {}", fr.mtu()), &lm);
    }
    if rng.chance(1, 3) {
        let so = start_offset(rng);
        fr.verif_set_stream_offset(so);
        let lm = lean.ask(&format!("fso {so}"));
        if lean.differs(&lm, "ok") {
            rep.disagree("fragmenter", json!({"set_stream_offset": so.to_string()}), "ok", &lm);
        }
        rep.hit(if so > u64::MAX - 70_000 { "honest start offset within 70000 of u64::MAX" } else { "honest start offset large" });
    }
    let mut packets: Vec<(u64, Vec<Vec<u8>>)> = vec![];
    let mut sent = HashMap::new();
    let mut sent_offs = HashMap::new();
    let big = rng.chance(1, 6);
    for _ in 0..npk {
        if rng.chance(1, 3) {
            let m = mtu_interesting(rng);
            fr.set_mtu(m);
            let lm = lean.ask(&format!("fsetmtu {m}"));
            if lean.differs(&lm, &format!("mtu {}", fr.mtu())) {
                rep.disagree("fragmenter-mtu", json!({"mtu": m}), &format!("mtu {}", fr.mtu()), &lm);
            }
        }
        let p = fr.mtu() - HDR;
        let mut size = sizes_interesting(rng, p);
        if !big && size > 6 * p {
            size = size % (6 * p) + 1;
        }
        if overload && size <= p {
            size = (p + 1 + rng.below(2 * p as u64) as usize).min(MAX_PACKET_SIZE);
        }
        // oversize packets are rejected by both (and do not advance the stream offset)
        if rng.chance(1, 12) {
            let over = *rng.pick(&[MAX_PACKET_SIZE + 1, MAX_PACKET_SIZE + 2, 70_000, 2 * MAX_PACKET_SIZE + 1]);
            let mut n = 0usize;
            let r = catch(|| fr.send(&vec![0u8; over], |_| n += 1));
            let lm = lean.ask(&format!("fsendlen {over}"));
            let im = match &r {
                Ok(Err(FragmenterSendError::PacketTooLarge)) if n == 0 => "err too_large".to_string(),
                other => format!("{other:?} after {n} frames"),
            };
            rep.hit("oversize packet sent");
            if im != "err too_large" {
                rep.spec_fail("C17:fragmenter-accepts-oversize", &format!("Fragmenter::send on {over} bytes: {im}"), json!({"size": over}));
            }
            if lean.differs(&lm, &im) {
                rep.disagree("fragmenter", json!({"oversize": over}), &im, &lm);
            }
        }
        let data = rng.bytes(size);
        let mut frames = vec![];
        let r = catch(|| fr.send(&data, |f| frames.push(f.to_vec())));
        let so = match r {
            Ok(Ok(so)) => so,
            Err(m) => {
                rep.spec_fail("C17:panic", &format!("Fragmenter::send panicked on {size} bytes: {m}"), json!({"size": size, "mtu": fr.mtu()}));
                lean.ask(&format!("fsend {}", hex(&data)));
                continue;
            }
            Ok(Err(e)) => {
                rep.spec_fail("C17:fragmenter-rejects", &format!("Fragmenter::send failed on {size} bytes: {e:?}"), json!({"size": size}));
                lean.ask(&format!("fsend {}", hex(&data)));
                continue;
            }
        };
        // model of the fragmenter
        let lm = lean.ask(&format!("fsend {}", hex(&data)));
        let im = format!("frames {so} {}{}", frames.len(), frames.iter().map(|f| format!(" {}", hex(f))).collect::<String>());
        if lean.differs(&lm, &im) {
            rep.disagree("fragmenter", json!({"mtu": fr.mtu(), "size": size, "stream_offset": so.to_string()}), &im[..im.len().min(120)], &lm[..lm.len().min(120)]);
        }
        // fragmenter spec: ≤ MAX_FRAMES frames, each ≤ mtu, payloads concatenate to data, offsets = prefix sums,
        // every frame carries the packet's stream offset; stream offsets advance by the packet length (mod 2^64)
        let mut cat = vec![];
        for (k, f) in frames.iter().enumerate() {
            let (fso, fo, last) = hd(f).unwrap();
            if fso != so || fo != cat.len() || last != (k == frames.len() - 1) || f.len() > fr.mtu() {
                rep.spec_fail("C17:fragmenter-shape", "stream offset / frame offset / LAST flag / size wrong", json!({"mtu": fr.mtu(), "size": size, "frame": k}));
            }
            cat.extend_from_slice(&f[HDR..]);
        }
        if cat != data || frames.len() > 256 {
            rep.spec_fail("C17:fragmenter-shape", "payloads do not concatenate to the packet or too many frames", json!({"mtu": fr.mtu(), "size": size}));
        }
        if let Some((pso, pf)) = packets.last() {
            let plen: usize = pf.iter().map(|f| f.len() - HDR).sum();
            if so != pso.wrapping_add(plen as u64) {
                rep.spec_fail("C17:fragmenter-shape", "stream offset did not advance by the previous packet's length (mod 2^64)", json!({"prev": pso.to_string(), "len": plen, "next": so.to_string()}));
            }
            if so < *pso {
                rep.hit("honest stream offset wrapped around u64");
            }
        }
        if so == u64::MAX {
            rep.hit("honest packet at stream offset u64::MAX");
        }
        rep.hit(&format!("honest frames/packet {}", match frames.len() { 1 => "1", 2 => "2", 3..=8 => "3-8", _ => "9+" }));
        sent.insert(so, data);
        sent_offs.insert(so, frames.iter().map(|f| hd(f).unwrap().1).collect::<Vec<_>>());
        packets.push((so, frames));
    }
    // empty packets are rejected by both
    if rng.chance(1, 10) {
        let r = fr.send(&[], |_| {});
        let lm = lean.ask("fsend -");
        if !(matches!(r, Err(FragmenterSendError::EmptyPacket)) && !lean.differs(&lm, "err empty")) {
            rep.disagree("fragmenter", json!("empty packet"), &format!("{r:?}"), &lm);
        }
    }
    let mut frames: Vec<Vec<u8>> = vec![];
    let wsize = if overload { packets.len().max(1) } else { queues.max(1) };
    for win in packets.chunks(wsize) {
        let mut w: Vec<Vec<u8>> = vec![];
        if mode == 4 {
            // round-robin: frame k of every packet of the window, then frame k+1, …
            let longest = win.iter().map(|(_, fs)| fs.len()).max().unwrap_or(0);
            for k in 0..longest {
                for (_, fs) in win {
                    if let Some(f) = fs.get(k) {
                        w.push(f.clone());
                    }
                }
            }
        } else {
            for (_, fs) in win {
                let mut fs = fs.clone();
                if mode == 1 {
                    fs.reverse();
                }
                if mode == 3 && fs.len() > 1 && rng.chance(1, 8) {
                    let k = rng.below(fs.len() as u64) as usize;
                    fs.remove(k); // lose one frame of this packet
                }
                w.extend(fs);
            }
        }
        if mode == 2 || mode == 3 || mode == 5 {
            rng.shuffle(&mut w);
        }
        if mode == 3 || mode == 5 {
            // the network duplicates some frames (single-frame packets included)
            let n = w.len();
            for k in 0..n {
                if rng.chance(1, 4) {
                    let pos = rng.range(0, w.len() as u64) as usize;
                    let dup = w[k].clone();
                    w.insert(pos, dup);
                }
            }
        }
        frames.extend(w);
    }
    let kind = match mode { 0 => "honest in-order", 1 => "honest reversed", 2 => "honest shuffled", 3 => "honest shuffled+dup+loss", 4 => "honest overload round-robin", _ => "honest overload shuffled+dup" };
    Schedule { kind, queues, frames, sent, sent_offs }
}

/// next permutation of a sequence with repeated elements (lexicographic); false when it was the last one
fn next_perm(v: &mut [usize]) -> bool {
    if v.len() < 2 {
        return false;
    }
    let mut i = v.len() - 1;
    while i > 0 && v[i - 1] >= v[i] {
        i -= 1;
    }
    if i == 0 {
        return false;
    }
    let mut j = v.len() - 1;
    while v[j] <= v[i - 1] {
        j -= 1;
    }
    v.swap(i - 1, j);
    v[i..].reverse();
    true
}

/// exhaustive delivery schedules of small honest packets (real Fragmenter output at the minimum MTU):
/// every permutation of the frames of `frames_per_packet` packets, every permutation with one frame
/// duplicated, every permutation with one frame lost – for every queue count in `queues`
fn gen_exhaustive(rng: &mut Rng, rep: &mut Report, frames_per_packet: &[usize], queues: &[usize], with_dup_drop: bool, out: &mut Vec<Schedule>) {
    let mut fr = Fragmenter::new_unobserved(MIN_MTU);
    if rng.chance(1, 2) {
        fr.verif_set_stream_offset(u64::MAX - rng.below(400));
    }
    let p = MIN_MTU - HDR;
    let mut all: Vec<Vec<u8>> = vec![];
    let mut sent = HashMap::new();
    let mut sent_offs = HashMap::new();
    for n in frames_per_packet {
        let size = (n - 1) * p + rng.range(1, p as u64) as usize;
        let data = rng.bytes(size);
        let mut frames = vec![];
        let so = match catch(|| fr.send(&data, |f| frames.push(f.to_vec()))) {
            Ok(Ok(so)) if frames.len() == *n => so,
            other => {
                rep.spec_fail("C17:panic", &format!("Fragmenter::send of {size} bytes at MTU {MIN_MTU} (stream offset near u64::MAX: {}) panicked or failed: {:?}", sent.keys().next().map_or(true, |k: &u64| *k > u64::MAX - 70_000), other.map(|r| r.ok())), json!({"size": size, "mtu": MIN_MTU}));
                return;
            }
        };
        sent.insert(so, data);
        sent_offs.insert(so, frames.iter().map(|f| hd(f).unwrap().1).collect::<Vec<_>>());
        all.extend(frames);
    }
    let n = all.len();
    let mut multisets: Vec<Vec<usize>> = vec![(0..n).collect()];
    if with_dup_drop {
        for k in 0..n {
            let mut d: Vec<usize> = (0..n).collect();
            d.push(k);
            d.sort();
            multisets.push(d);
            multisets.push((0..n).filter(|x| *x != k).collect());
        }
    }
    for q in queues {
        for ms in &multisets {
            let mut perm = ms.clone();
            loop {
                out.push(Schedule {
                    kind: "exhaustive",
                    queues: *q,
                    frames: perm.iter().map(|k| all[*k].clone()).collect(),
                    sent: sent.clone(),
                    sent_offs: sent_offs.clone(),
                });
                if !next_perm(&mut perm) {
                    break;
                }
            }
        }
    }
}

fn gen_hostile(rng: &mut Rng) -> Schedule {
    let queues = *rng.pick(&[1usize, 1, 2, 2, 3, 4, 0, 7]);
    let n = rng.range(2, 14) as usize;
    let windows = [MIN_PAYLOAD_SIZE, MIN_PAYLOAD_SIZE + 1, 300, 512, 1000, 8984, MIN_PAYLOAD_SIZE - 1];
    let w = *rng.pick(&windows);
    let streams: Vec<u64> = vec![0, 1, 7, 1000, u64::MAX, u64::MAX - 1, rng.next()];
    let nstreams = rng.range(1, 3) as usize;
    let mut frames = vec![];
    for _ in 0..n {
        let extra = if rng.chance(1, 10) { 4 } else { 0 };
        let so = streams[rng.below(nstreams as u64 + extra) as usize % streams.len()];
        if rng.chance(1, 25) {
            let k = rng.below(HDR as u64) as usize;
            frames.push(rng.bytes(k));
            continue;
        }
        let last = rng.chance(1, 3);
        let idx = match rng.below(10) {
            0..=5 => rng.below(5),
            6 => rng.below(260),
            7 => 254,
            8 => 255,
            _ => 65535 / w as u64,
        } as usize;
        let mut fo = idx * w;
        if rng.chance(1, 10) {
            fo = fo.wrapping_add(rng.range(1, 3) as usize);
        }
        let fo = (fo % 65536) as u16;
        let len = if last {
            match rng.below(8) {
                0 => 0,
                1 => 1,
                2 => w,
                3 => w + 1,
                4 => 2 * w,
                5 => (65535usize).saturating_sub(fo as usize),
                6 => (65536usize).saturating_sub(fo as usize),
                _ => rng.range(1, w as u64) as usize,
            }
        } else {
            match rng.below(10) {
                0 => w + 1,
                1 => w - 1,
                2 => 0,
                3 => (65536usize).saturating_sub(fo as usize),
                _ => w,
            }
        };
        let flags = if last { 0x8000 } else { 0 } | if rng.chance(1, 6) { (rng.next() as u16) & 0x7fff } else { 0 };
        let reserved = if rng.chance(1, 6) { rng.next() as u32 } else { 0 };
        let pl = rng.bytes(len.min(65600));
        frames.push(mk_frame(so, fo, flags, &pl, reserved));
    }
    // often precede with an honest packet in the same slot so that stale content is non-zero
    if rng.chance(2, 3) {
        let mut pre = vec![];
        let mut fr = Fragmenter::new_unobserved(w + HDR);
        let k = rng.range(w as u64 + 1, (4 * w) as u64).min(65535) as usize;
        let data = rng.bytes(k);
        let _ = fr.send(&data, |f| pre.push(f.to_vec()));
        // move it to a stream offset not used by the hostile frames
        for f in pre.iter_mut() {
            f[0..8].copy_from_slice(&500_000u64.to_be_bytes());
        }
        pre.extend(frames);
        frames = pre;
    }
    Schedule { kind: "hostile", queues, frames, sent: HashMap::new(), sent_offs: HashMap::new() }
}

/// "count matches, coverage does not": `a` regular frames chosen from a pool that includes indices at and beyond
/// the LAST frame and around the 128-bit word boundary of the receive mask, plus a LAST frame at index `a`
/// (so that the number of received frames equals the expected number) – in random order, after an honest
/// packet has filled the slot with non-zero bytes
fn gen_count_match(rng: &mut Rng) -> Schedule {
    let queues = rng.range(1, 2) as usize;
    let w = *rng.pick(&[MIN_PAYLOAD_SIZE, MIN_PAYLOAD_SIZE + 1, 300]);
    let a = *rng.pick(&[1usize, 2, 2, 3, 3, 4, 5, 126, 127, 128, 129, 130]);
    let mut pool: Vec<usize> = (0..a + 3).collect();
    pool.extend([126usize, 127, 128, 129, 130, 131, 200, 253, 254]);
    pool.sort();
    pool.dedup();
    pool.retain(|i| *i != a && i * w + w <= 65535);
    rng.shuffle(&mut pool);
    // mostly the honest set 0..a with one or two members swapped for others
    let mut chosen: Vec<usize> = (0..a).collect();
    let swaps = rng.range(0, 2);
    for _ in 0..swaps {
        if chosen.is_empty() { break; }
        let k = rng.below(chosen.len() as u64) as usize;
        if let Some(n) = pool.iter().find(|i| !chosen.contains(i)) {
            chosen[k] = *n;
        }
    }
    // one third: a low run 0..a plus a run that starts at the first bit of the second mask word, LAST frame
    // placed so that the count matches (a + b regular frames, LAST at index a + b)
    let mut a = a;
    if rng.chance(1, 3) {
        let lo = rng.range(1, 4) as usize;
        let hi = rng.range(1, 3) as usize;
        chosen = (0..lo).chain(128..128 + hi).collect();
        a = lo + hi;
    }
    let so = 7u64;
    let mut frames: Vec<Vec<u8>> = chosen.iter().map(|i| { let pl = rng.bytes(w); mk_frame(so, (i * w) as u16, 0, &pl, 0) }).collect();
    let last_len = *rng.pick(&[1usize, 10, w - 1, w]);
    if a * w + last_len <= 65535 {
        let pl = rng.bytes(last_len);
        frames.push(mk_frame(so, (a * w) as u16, 0x8000, &pl, 0));
    }
    rng.shuffle(&mut frames);
    // fill the slot first
    let mut pre = vec![];
    let mut fr = Fragmenter::new_unobserved(9000);
    let data = rng.bytes(65535);
    let _ = fr.send(&data, |f| pre.push(f.to_vec()));
    for f in pre.iter_mut() {
        f[0..8].copy_from_slice(&500_000u64.to_be_bytes());
    }
    pre.extend(frames);
    Schedule { kind: "count-match", queues, frames: pre, sent: HashMap::new(), sent_offs: HashMap::new() }
}

/// corpus line: `[honest] <queues> <hexframe> <hexframe> …`.  With the `honest` prefix the frames are copies of
/// real Fragmenter output: the packets sent are reconstructed from them so that the honest-sender oracles apply.
fn parse_corpus_line(l: &str) -> Option<Schedule> {
    let mut it = l.split_whitespace().peekable();
    let honest = it.peek() == Some(&"honest");
    if honest {
        it.next();
    }
    let queues = it.next()?.parse().ok()?;
    let frames: Vec<Vec<u8>> = it.map(unhex).collect::<Option<Vec<_>>>()?;
    let mut sent = HashMap::new();
    let mut sent_offs = HashMap::new();
    if honest {
        let mut by: HashMap<u64, Vec<(usize, &[u8])>> = HashMap::new();
        for f in &frames {
            let (so, fo, _) = hd(f)?;
            let e = by.entry(so).or_default();
            if !e.iter().any(|(o, _)| *o == fo) {
                e.push((fo, &f[HDR..]));
            }
        }
        for (so, mut v) in by {
            v.sort();
            sent.insert(so, v.iter().flat_map(|(_, p)| p.iter().copied()).collect::<Vec<u8>>());
            sent_offs.insert(so, v.iter().map(|(o, _)| *o).collect::<Vec<_>>());
        }
    }
    Some(Schedule { kind: if honest { "corpus honest" } else { "corpus" }, queues, frames, sent, sent_offs })
}

fn sched_json(s: &Schedule) -> serde_json::Value {
    json!({"kind": s.kind, "queues": s.queues, "frames": s.frames.iter().map(|f| {
        match hd(f) {
            Some((so, fo, last)) => json!({"stream": so.to_string(), "frame_offset": fo, "last": last, "len": f.len() - HDR}),
            None => json!({"short": f.len()}),
        }
    }).collect::<Vec<_>>()})
}

/// replayable form (a shrunk honest schedule keeps all frames of the packets the failure is about only if
/// they are needed; the reconstruction in `parse_corpus_line` is from the frames that are left)
fn sched_line(s: &Schedule) -> String {
    format!("{}{} {}", if s.sent.is_empty() { "" } else { "honest " }, s.queues, s.frames.iter().map(|f| hex(f)).collect::<Vec<_>>().join(" "))
}

/// delta-debugging over the frame list
fn shrink(s: &Schedule, lean: &mut Lean, fails: &dyn Fn(&Outcome) -> bool) -> Schedule {
    let mut cur = s.clone();
    let mut chunk = (cur.frames.len() / 2).max(1);
    let mut budget = 200;
    while budget > 0 {
        let mut progressed = false;
        let mut i = 0;
        while i < cur.frames.len() && budget > 0 {
            let mut cand = cur.clone();
            let end = (i + chunk).min(cand.frames.len());
            cand.frames.drain(i..end);
            budget -= 1;
            let o = run_schedule(&cand, &mut Some(lean));
            if !cand.frames.is_empty() && fails(&o) {
                cur = cand;
                progressed = true;
            } else {
                i += chunk;
            }
        }
        if chunk == 1 && !progressed {
            break;
        }
        chunk = (chunk / 2).max(1);
    }
    cur
}

fn main() {
    let args = Args::parse();
    quiet_panics();
    let mut lean = Lean::spawn(&args.driver);
    let mut rng = Rng::new(args.seed);
    let mut rep = Report::new(
        "C17",
        "case = schedule (queue count + frame sequence) fed to the real Defragmenter and to the Lean model; \
         honest schedules come from the real Fragmenter (boundary-directed sizes/MTUs/stream offsets incl. the u64 \
         wrap, windows of <= Q packets in order/reversed/shuffled/duplicated/lossy, and overload with Q+1..Q+3 \
         packets in flight), exhaustive schedules are all permutations (plus one duplicate / one loss) of the \
         frames of 2-3 small honest packets, hostile schedules are boundary-directed arbitrary frames. \
         Non-trivial = at least one packet emitted from a reassembly queue or at least one error other than \
         invalid_header; distinct by hash of (queues, frame headers, lengths)",
    );
    let mut schedules: Vec<Schedule> = vec![];
    for l in read_corpus(&args.corpus) {
        match parse_corpus_line(&l) {
            Some(s) => schedules.push(s),
            None => rep.notes.push(format!("unparseable corpus line: {}", &l[..l.len().min(40)])),
        }
    }
    let n_corpus = schedules.len();
    if let Some(p) = &args.replay {
        // replay file: corpus-format lines
        let txt = std::fs::read_to_string(p).expect("replay file");
        schedules = txt.lines().filter_map(parse_corpus_line).collect();
    } else {
        let n = args.scale(800, 30000);
        for i in 0..n {
            if i % 2 == 0 {
                let s = gen_honest(&mut rng, &mut rep, &mut lean);
                schedules.push(s);
            } else if i % 8 == 1 {
                schedules.push(gen_count_match(&mut rng));
            } else {
                schedules.push(gen_hostile(&mut rng));
            }
        }
        // exhaustive small schedules: 2 packets x 2 frames on 1 and 2 queues (permutations, one duplicate, one loss);
        // 3 packets x 2 frames on 2 queues = Q+1 packets in flight (permutations)
        gen_exhaustive(&mut rng, &mut rep, &[2, 2], &[1, 2], true, &mut schedules);
        gen_exhaustive(&mut rng, &mut rep, &[2, 2, 2], &[2], false, &mut schedules);
        if args.thorough() {
            gen_exhaustive(&mut rng, &mut rep, &[3, 2], &[1, 2, 3], true, &mut schedules);
            gen_exhaustive(&mut rng, &mut rep, &[2, 2, 2], &[1, 3], false, &mut schedules);
            gen_exhaustive(&mut rng, &mut rep, &[2, 2, 2], &[2], true, &mut schedules);
            gen_exhaustive(&mut rng, &mut rep, &[3, 3], &[1, 2], false, &mut schedules);
        }
    }
    // deterministic probes (honest sender, real Fragmenter output)
    if args.replay.is_none() {
        let mk = |fr: &mut Fragmenter, rng: &mut Rng, size: usize| {
            let data = rng.bytes(size);
            let mut frames = vec![];
            let so = catch(|| fr.send(&data, |f| frames.push(f.to_vec()))).ok().and_then(|r| r.ok());
            (so, data, frames)
        };
        let mut probe_failed = false;
        let mut sched = |kind: &'static str, queues: usize, pk: &[&(Option<u64>, Vec<u8>, Vec<Vec<u8>>)], order: &[(usize, usize)]| {
            let mut sent = HashMap::new();
            let mut sent_offs = HashMap::new();
            for (so, data, frames) in pk.iter().map(|x| (&x.0, &x.1, &x.2)) {
                let Some(so) = so else {
                    probe_failed = true;
                    return Schedule { kind, queues, frames: vec![], sent: HashMap::new(), sent_offs: HashMap::new() };
                };
                sent.insert(*so, data.clone());
                sent_offs.insert(*so, frames.iter().map(|f| hd(f).unwrap().1).collect::<Vec<_>>());
            }
            Schedule { kind, queues, frames: order.iter().map(|(a, b)| pk[*a].2[*b].clone()).collect(), sent, sent_offs }
        };
        // a network-duplicated single-frame packet
        let mut fr = Fragmenter::new_unobserved(1500);
        let a = mk(&mut fr, &mut rng, 100);
        schedules.push(sched("probe-single-dup", 2, &[&a], &[(0, 0), (0, 0)]));
        // a network-duplicated 2-frame packet whose slot is reclaimed by another packet before the copies arrive
        let mut fr = Fragmenter::new_unobserved(MIN_MTU);
        let a = mk(&mut fr, &mut rng, 300);
        let b = mk(&mut fr, &mut rng, 300);
        schedules.push(sched("probe-whole-dup", 1, &[&a, &b], &[(0, 0), (0, 1), (1, 0), (0, 0), (0, 1)]));
        // the same copies without any other packet in between must NOT be emitted again
        schedules.push(sched("probe-whole-dup-same-slot", 2, &[&a], &[(0, 0), (0, 1), (0, 1), (0, 0), (0, 0), (0, 1)]));
        // a 2-frame packet that starts at stream offset u64::MAX (the never-used sentinel of the queues), alone
        let mut fr = Fragmenter::new_unobserved(MIN_MTU);
        fr.verif_set_stream_offset(u64::MAX);
        let a = mk(&mut fr, &mut rng, 300);
        let b = mk(&mut fr, &mut rng, 300);
        schedules.push(sched("probe-offset-u64-max", 2, &[&a, &b], &[(0, 0), (0, 1), (1, 1), (1, 0)]));
        if probe_failed {
            rep.spec_fail("C17:panic", "Fragmenter::send panicked or failed on a probe packet (300 bytes at MTU 272, stream offset u64::MAX or small)", json!({"size": 300, "mtu": MIN_MTU}));
        }
    }
    rep.hit_n("corpus schedules", n_corpus as u64);
    for s in &schedules {
        let o = run_schedule(s, &mut Some(&mut lean));
        let canon = format!("{}|{}", s.queues, s.frames.iter().map(|f| hex(&f[..f.len().min(HDR)]) + &f.len().to_string()).collect::<Vec<_>>().join(","));
        let nontrivial = o.emitted_from_queue > 0 || o.labels.iter().any(|l| l.starts_with("err") && l != "err invalid_header");
        rep.case(&canon, nontrivial);
        rep.traces += 1;
        rep.hit(&format!("schedule {}", s.kind));
        rep.hit(&format!("queues {}", match s.queues { 0 => "0", 1 => "1", 2 => "2", 3..=5 => "3-5", _ => "6+" }));
        rep.hit_n("frames fed", s.frames.len() as u64);
        for l in &o.labels {
            rep.hit(&format!("out {l}"));
        }
        rep.hit_n("packets emitted from a queue", o.emitted_from_queue as u64);
        rep.hit_n("liveness demanded (slot provably not reclaimed)", o.liveness_claims as u64);
        rep.hit_n("liveness demanded despite duplicates/interleaving before completion", o.liveness_claims_disturbed as u64);
        if !s.sent.is_empty() {
            let multi: HashSet<u64> = s.frames.iter().filter(|f| !is_fast(f)).filter_map(|f| hd(f).map(|h| h.0)).collect();
            if multi.len() > s.queues {
                rep.hit("honest schedule with more multi-frame packets than queues");
            }
        }
        if rep.samples.len() < 4 && nontrivial && s.frames.len() <= 8 {
            rep.sample(json!({"schedule": sched_json(s), "outputs": o.labels}));
        }
        if let Some((i, im, mo)) = &o.disagree {
            let small = shrink(s, &mut lean, &|o: &Outcome| o.disagree.is_some());
            let o2 = run_schedule(&small, &mut Some(&mut lean));
            let (i2, im2, mo2) = o2.disagree.clone().unwrap_or((*i, im.clone(), mo.clone()));
            rep.disagree("defragmenter", json!({"schedule": sched_json(&small), "line": sched_line(&small), "frame": i2}), &im2, &mo2);
        }
        let mut seen = std::collections::HashSet::new();
        for (key, what) in &o.spec {
            if !seen.insert(key.clone()) {
                continue;
            }
            let k = key.clone();
            let small = shrink(s, &mut lean, &|o: &Outcome| o.spec.iter().any(|(kk, _)| *kk == k));
            let o2 = run_schedule(&small, &mut Some(&mut lean));
            let what2 = o2.spec.iter().find(|(kk, _)| *kk == k).map(|(_, w)| w.clone()).unwrap_or(what.clone());
            rep.spec_fail(key, &what2, json!({"schedule": sched_json(&small), "line": sched_line(&small)}));
        }
    }
    if rep.samples.is_empty() {
        if let Some(s) = schedules.first() {
            rep.sample(sched_json(s));
        }
    }
    rep.write(&args.out);
    std::process::exit(if rep.ok() { 0 } else { 1 });
}
